#!/usr/bin/env python3
"""Refresh the generated appendices of DESIGN.md: per-property build notes (notes/Cnn.md), the seeded-change table
(seeded/*/meta.json) and the findings table (known_findings.json)."""
import json, re
from pathlib import Path

V = Path(__file__).resolve().parent.parent
d = (V / "DESIGN.md").read_text()


def block(name, body):
    global d
    b, e = f"<!-- {name}-BEGIN -->", f"<!-- {name}-END -->"
    if b not in d:
        d += f"\n{b}\n{e}\n"
    d = re.sub(re.escape(b) + r".*?" + re.escape(e), lambda m: b + "\n" + body + "\n" + e, d, flags=re.S)


notes = []
for p in sorted((V / "notes").glob("C*.md")):
    t = p.read_text().strip()
    t = re.sub(r"^# ", "### ", t, flags=re.M)
    notes.append(t)
block("NOTES", "\n\n".join(notes))

def _st(m):
    n = m.get("note", "")
    if "in progress" in n:
        return "missed (strengthening in progress)"
    if "neighbour" in n:
        return "caught by a neighbouring property's check"
    if n.startswith("correspondence only:"):
        return "correspondence only (" + n.split(": ", 1)[1] + ")"
    if "correspondence only" in n:
        return "correspondence only at first, then an input is named"
    return "missed, then check strengthened"


rows = ["| id | property | what the change needs to manifest | detected by |", "|---|---|---|---|"]
for p in sorted((V / "seeded").glob("*/meta.json")):
    m = json.loads(p.read_text())
    rows.append(f"| {p.parent.name} | {m['property']} | {m['change']} — needs: {m['needs']} | {m['detected_by']} |")
block("SEEDED", "\n".join(rows))

kf = json.loads((V / "known_findings.json").read_text())["findings"]
rows = ["| property | status | commit | what |", "|---|---|---|---|"]
for f in kf:
    rows.append(f"| {f['property']} | {f['status']} | {f.get('commit', '')} | {f['what']} |")
block("FINDINGS", "\n".join(rows))
# status table from MANIFEST + evidence + findings + seeded
man = json.loads((V / "MANIFEST.json").read_text())
claimed = {c["property_id"]: c for c in man["checks"]}
props = [json.loads(l) for l in (V / "properties.jsonl").read_text().splitlines() if l.strip()]
rows = ["| prop | claimed | theorems (audited) | quick cases / distinct | fixes | known findings | seeded change |", "|---|---|---|---|---|---|---|"]
for pr in props:
    pid = pr["id"]
    ev = V / "evidence" / f"{pid}.json"
    th = cases = "-"
    if ev.exists():
        try:
            e = json.loads(ev.read_text())["coverage"]
            th = f"{e.get('discharged', '-')}/{e.get('obligations', '-')}"
            cases = f"{e.get('evaluations', '-')} / {e.get('distinct_nontrivial', '-')}"
        except Exception:
            pass
    fx = sum(1 for f in kf if f["property"] == pid and f["status"] == "fixed")
    kn = sum(1 for f in kf if f["property"] == pid and f["status"] == "known")
    sd = V / "seeded" / pid / "meta.json"
    sdt = "-"
    if sd.exists():
        m = json.loads(sd.read_text())
        sdt = _st(m) if m.get("note") else ("caught (monitor only in quick)" if "no-failing-input-found" in m["detected_by"] else "caught")
    for k in range(2, 10):
        sdk = V / "seeded" / f"{pid}-{k}" / "meta.json"
        if sdk.exists():
            mk = json.loads(sdk.read_text())
            sdt += f"; round {k}: " + (_st(mk) if mk.get("note") else ("caught (correspondence only, no input named)" if "no-failing-input-found" in mk["detected_by"] else "caught"))
    rows.append(f"| {pid} | {'proof' if pid in claimed else 'not claimed'} | {th} | {cases} | {fx} | {kn} | {sdt} |")
block("STATUS", "\n".join(rows))
(V / "DESIGN.md").write_text(d)
print("DESIGN.md appendices refreshed")
