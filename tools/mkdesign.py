#!/usr/bin/env python3
"""Refresh the generated appendices of DESIGN.md: per-property build notes (notes/Cnn.md), the seeded-change table
(seeded/*/meta.json) and the findings table (known_findings.json)."""
import json, re
from pathlib import Path

V = Path(__file__).resolve().parent.parent
d = (V / "DESIGN.md").read_text()


def block(name, body):
    global d
    b, e = f"<!-- {name}-BEGIN -->", f"<!-- {name}-END -->"
    if b not in d:
        d += f"\n{b}\n{e}\n"
    d = re.sub(re.escape(b) + r".*?" + re.escape(e), lambda m: b + "\n" + body + "\n" + e, d, flags=re.S)


notes = []
for p in sorted((V / "notes").glob("C*.md")):
    t = p.read_text().strip()
    t = re.sub(r"^# ", "### ", t, flags=re.M)
    notes.append(t)
block("NOTES", "\n\n".join(notes))

rows = ["| id | property | what the change needs to manifest | detected by |", "|---|---|---|---|"]
for p in sorted((V / "seeded").glob("*/meta.json")):
    m = json.loads(p.read_text())
    rows.append(f"| {p.parent.name} | {m['property']} | {m['change']} — needs: {m['needs']} | {m['detected_by']} |")
block("SEEDED", "\n".join(rows))

kf = json.loads((V / "known_findings.json").read_text())["findings"]
rows = ["| property | status | commit | what |", "|---|---|---|---|"]
for f in kf:
    rows.append(f"| {f['property']} | {f['status']} | {f.get('commit', '')} | {f['what']} |")
block("FINDINGS", "\n".join(rows))
(V / "DESIGN.md").write_text(d)
print("DESIGN.md appendices refreshed")
