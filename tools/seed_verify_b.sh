#!/bin/sh
# seed_verify_b.sh <prop> [suffix]: phase B of seed_verify.sh (sequential: applies the stored patch to /repo, runs our
# checks, restores /repo, refreshes the evidence on the clean tree).
P=$1; SUF=${2:-}; ID=$P$SUF
cd /repo; if git status --short | grep -q .; then echo "/repo not clean"; exit 5; fi
trap "git -C /repo checkout -- ." EXIT
git apply /verif/seeded/$ID/patch.diff || exit 6
cd /verif
./check $P --tier quick > /tmp/seed/$ID.check.log 2>&1; rc=$?; echo "check $P quick exit=$rc"; grep -E "VIOLATION|KNOWN" /tmp/seed/$ID.check.log | cut -c1-600
if [ "$rc" = 0 ]; then
  for q in $(python3 -c "import json;print(' '.join(c['property_id'] for c in json.load(open('MANIFEST.json'))['checks']))"); do
    [ "$q" = "$P" ] && continue
    ./check $q --tier quick > /tmp/seed/$ID.other.log 2>&1 || { echo "  reported by check $q:"; grep -E "^VIOLATION" /tmp/seed/$ID.other.log | cut -c1-400; OTHERS="$OTHERS $q"; }
  done
  echo "other checks reporting it:${OTHERS:- none}"
fi
git -C /repo checkout -- .
git -C /repo status --short
./check $P --tier quick > /tmp/seed/$ID.clean.log 2>&1; echo "clean re-run exit=$?"
