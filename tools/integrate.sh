#!/bin/sh
# integrate.sh <name>: merge builder branch b-<name> into /verif and cherry-pick its fix: commits into /repo.
N=$1
set -e
cd /verif
git status --short | grep -q . && { echo "/verif not clean"; exit 2; } || true
git merge --no-commit --no-ff b-$N || true
# generated files: always regenerate
for f in lean/Main.lean lean/XknxVerif.lean MANIFEST.json known_findings.json; do
  git checkout --ours -- $f 2>/dev/null || git checkout HEAD -- $f 2>/dev/null || true
done
# evidence is rewritten by our own runs: on conflict keep ours
for f in $(git diff --name-only --diff-filter=U | grep '^evidence/' || true); do git checkout --ours -- $f; done
python3 tools/regen_roots.py
python3 tools/mkmanifest.py
git add -A
if git diff --cached --name-only --diff-filter=U | grep -q .; then echo "UNRESOLVED CONFLICTS:"; git diff --cached --name-only --diff-filter=U; exit 3; fi
git commit -qm "Merge builder branch b-$N" || true
echo "== fix commits on repo branch b-$N:"
git -C /repo log --reverse --format='%h %s' main..b-$N
