#!/bin/sh
# run_all.sh <tier> [seed]: setup, then every claimed check once; prints one summary line per check.
TIER=${1:-quick}; SEED=${2:-0}
cd "$(dirname "$0")/.." || exit 2
./check --setup > /tmp/run_all_setup.log 2>&1 || { echo "SETUP FAILED"; tail -20 /tmp/run_all_setup.log; exit 2; }
for p in $(python3 -c "import json;print(' '.join(c['property_id'] for c in json.load(open('MANIFEST.json'))['checks']))"); do
  s=$(date +%s)
  VERIF_SEED=$SEED ./check $p --tier $TIER > /tmp/run_all_$p.log 2>&1; rc=$?
  echo "$p rc=$rc $(( $(date +%s) - s ))s $(grep -c '^VIOLATION' /tmp/run_all_$p.log) violations $(grep -c '^KNOWN-FINDING' /tmp/run_all_$p.log) known"
  if [ $rc -ne 0 ]; then tail -5 /tmp/run_all_$p.log; BAD="$BAD $p"; fi
done
if [ -n "$BAD" ]; then echo "FAILED:$BAD"; exit 1; fi
echo "ALL OK"
