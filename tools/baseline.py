#!/venv/bin/python
"""Run the repository's pinned test suite (guard off) and compare with BASELINE.json stable_pass."""
import json, os, subprocess, sys, tempfile
import xml.etree.ElementTree as ET

env = dict(os.environ)
env.pop("XKNX_VERIF", None)
fd, path = tempfile.mkstemp(suffix=".xml", dir="/var/tmp")
os.close(fd)
try:
    subprocess.run(["/venv/bin/python", "-m", "pytest", "-q", "-p", "no:cacheprovider", "--timeout=900",
                    "--continue-on-collection-errors", f"--junitxml={path}"],
                   cwd=os.environ.get("XKNX_REPO", "/repo"), env=env, stdout=subprocess.DEVNULL, stderr=subprocess.DEVNULL, check=False)
    passed = set()
    for tc in ET.parse(path).getroot().iter("testcase"):
        if not any(ch.tag in ("failure", "error", "skipped") for ch in tc):
            passed.add(f"{tc.get('classname')}::{tc.get('name')}")
finally:
    os.unlink(path)
base = json.load(open("/root/.vp/BASELINE.json"))
stable = set(base["stable_pass"])
missing = sorted(stable - passed)
print(f"stable_pass={len(stable)} passed_now={len(passed)} missing={len(missing)}")
for m in missing[:30]:
    print("  MISSING", m)
sys.exit(1 if missing else 0)
