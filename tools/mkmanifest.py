#!/usr/bin/env python3
"""Write MANIFEST.json from tools/manifest_src.json (checks) + properties.jsonl (not_applicable for the rest)."""
import json
from pathlib import Path

V = Path(__file__).resolve().parent.parent
src = json.loads((V / "tools" / "manifest_src.json").read_text())
src["checks"] = {p.stem: json.loads(p.read_text()) for p in sorted((V / "tools" / "manifest.d").glob("C*.json"))}
# known_findings.json is assembled from tools/findings.d/Cnn.json (one list per property; never written at run time)
kf = []
for p in sorted((V / "tools" / "findings.d").glob("C*.json")):
    kf.extend(json.loads(p.read_text()))
(V / "known_findings.json").write_text(json.dumps({
    "comment": "Assembled by tools/mkmanifest.py from tools/findings.d/*.json (edited by hand, committed); never written at run time. status=known entries suppress exactly the listed key (printed as KNOWN-FINDING); status=fixed entries suppress nothing.",
    "findings": kf}, indent=1))
props = [json.loads(l)["id"] for l in (V / "properties.jsonl").read_text().splitlines() if l.strip()]
checks = []
for pid in props:
    c = src["checks"].get(pid)
    if not c:
        continue
    checks.append({
        "property_id": pid,
        "quick_cmd": f"./check {pid} --tier quick",
        "thorough_cmd": f"./check {pid} --tier thorough",
        "evidence_file": f"/verif/evidence/{pid}.json",
        "replay_cmd_template": f"./check {pid} --replay {{path}}",
        "engine": "lean4-proof+correspondence",
        "level_claimed": {"category": "proof", "text": c["text"], "design_ref": c.get("design_ref", f"DESIGN.md §5 {pid}")},
        "level_note": c["note"],
        "technique": c["technique"],
    })
na = [{"property_id": pid, "reason": src["not_applicable"].get(pid, "not yet covered by a model and theorem in this framework; not claimed")}
      for pid in props if pid not in src["checks"]]
m = {
    "version": 1,
    "setup_cmd": "./check --setup",
    "hooks": src["hooks"],
    "engines": [{"name": "lean4-proof+correspondence", "path": "/verif/lean + /verif/harness",
                 "serves_properties": [c["property_id"] for c in checks],
                 "kind_free_text": "Lean 4 theorems about hand-written executable models (lake build + axiom audit), tied to /repo by regenerated tables and an in-process differential correspondence run through a compiled Lean driver; failing-input search by a property oracle on the implementation"}],
    "checks": checks,
    "not_applicable": na,
    "notes": src.get("notes", ""),
}
(V / "MANIFEST.json").write_text(json.dumps(m, indent=1))
print(f"{len(checks)} checks, {len(na)} not claimed")
