#!/bin/sh
# seed_verify.sh <prop> [suffix]: confirm a seeded change in /tmp/seed/<prop>[-n]: suite still green with it,
# demo fails with it and passes without; then store it under /verif/seeded/<id>/ and run our checks against it in /repo.
P=$1; SUF=${2:-}; WT=/tmp/seed/$P$SUF; ID=$P$SUF
set -e
cd $WT
git diff -- xknx > /tmp/seed/$ID.diff
test -s /tmp/seed/$ID.diff || { echo "no source change"; exit 2; }
echo "== suite with change"; XKNX_REPO=$WT /verif/tools/baseline.py
echo "== demo with change (must fail)"; if PYTHONPATH=$WT /venv/bin/python demo_$P.py >/tmp/seed/$ID.demo_with.log 2>&1; then echo "DEMO PASSES WITH CHANGE (bad)"; exit 3; else echo "fails: ok"; fi
git stash -q -- xknx
echo "== demo without change (must pass)"; if PYTHONPATH=$WT /venv/bin/python demo_$P.py >/tmp/seed/$ID.demo_without.log 2>&1; then echo "passes: ok"; else echo "DEMO FAILS WITHOUT CHANGE (bad)"; git stash pop -q; exit 4; fi
git stash pop -q
mkdir -p /verif/seeded/$ID
cp /tmp/seed/$ID.diff /verif/seeded/$ID/patch.diff
cp demo_$P.py /verif/seeded/$ID/demo.py
echo "== our checks against the change in /repo"
cd /repo; if git status --short | grep -q .; then echo "/repo not clean"; exit 5; fi
trap "git -C /repo checkout -- ." EXIT
git apply /verif/seeded/$ID/patch.diff
cd /verif
set +e
for t in quick; do ./check $P --tier $t > /tmp/seed/$ID.check.log 2>&1; rc=$?; echo "check $P $t exit=$rc"; grep -E "VIOLATION|KNOWN" /tmp/seed/$ID.check.log; done
if [ "$rc" = 0 ]; then
  # the property's own check is quiet: does the check of a neighbouring property (whose anchor the change touched) report it?
  for q in $(python3 -c "import json;print(' '.join(c['property_id'] for c in json.load(open('MANIFEST.json'))['checks']))"); do
    [ "$q" = "$P" ] && continue
    ./check $q --tier quick > /tmp/seed/$ID.other.log 2>&1 || { echo "  reported by check $q:"; grep -E "^VIOLATION" /tmp/seed/$ID.other.log; OTHERS="$OTHERS $q"; }
  done
  echo "other checks reporting it:${OTHERS:- none}"
fi
git -C /repo checkout -- .
git -C /repo status --short
# refresh the evidence on the clean tree (the run above wrote evidence of the seeded tree)
./check $P --tier quick > /tmp/seed/$ID.clean.log 2>&1; echo "clean re-run exit=$?"
