#!/usr/bin/env python3
"""Print the prompt for a seeding sub-agent: property text + scratch worktree only (nothing from /verif)."""
import json, sys
pid, n = sys.argv[1], (sys.argv[2] if len(sys.argv) > 2 else "1")
rec = next(json.loads(l) for l in open("/verif/properties.jsonl") if json.loads(l)["id"] == pid)
wt = f"/tmp/seed/{pid}" if n == "1" else f"/tmp/seed/{pid}-{n}"
prev = ""
if n != "1":
    import os
    earlier = []
    for suffix in [""] + [f"-{k}" for k in range(2, int(n))]:
        mp = f"/verif/seeded/{pid}{suffix}/meta.json"
        if os.path.exists(mp):
            m = json.load(open(mp))
            earlier.append(f"  - {m['change']} (it needed: {m['needs']})")
    if earlier:
        prev = ("\nNOTE: earlier attempts already used the following changes - do NOT repeat any of them or a close variant, pick a "
                "different site and a different mechanism:\n" + "\n".join(earlier) + "\n")
print(f"""You are testing how well a software project's safety net catches subtle regressions. The project is the Python library XKNX/xknx (asynchronous KNX/IP library). You have your own scratch git worktree of it at {wt} (work ONLY there; do not look at or touch /repo, /verif or any other directory outside {wt}; run python as /venv/bin/python with PYTHONPATH={wt} so that your worktree's code is imported — check with `PYTHONPATH={wt} /venv/bin/python -c "import xknx; print(xknx.__file__)"`).

Here is a semantic property the library is supposed to satisfy:

  Title: {rec['title']}
  Statement: {rec['statement']}
  Quantified over: {rec['quantifier']['text']}
  Code it is anchored in: {', '.join(rec['anchors']['files'])}

{prev}
Your job: make ONE realistic change to the library source in your worktree (the kind of bug a competent developer could introduce in a refactor or feature commit — small, plausible, not sabotage-looking) that BREAKS this property, while
  (a) the code still imports/compiles, and
  (b) the project's existing test suite still passes exactly as before: run `cd {wt} && /venv/bin/python -m pytest -q -p no:cacheprovider 2>&1 | tail -5` before and after; the two tests test_start_automatic_connection and TestSecureSession::test_lifecycle fail already in this sandbox and may keep failing; nothing else may fail.
The change should need something SPECIFIC to manifest — a particular interleaving, a fault at a particular point, a multi-step sequence of operations, an unusual input or boundary value, or two cooperating sites that each look fine alone — not something ordinary use would expose at once. Avoid changes whose only effect is on log messages, reprs or error message texts.

Also write a demonstration: a small standalone program {wt}/demo_{pid}.py (plain asserts or pytest-style test functions run by a `__main__` block; exit status non-zero on failure) that FAILS with your change and PASSES on the original code (verify both: `git stash` / `git stash pop`, or `git diff > /tmp/x.diff; git checkout -- xknx; …; git apply /tmp/x.diff`). The demo must show the property being violated through the library's public behaviour, not just that a line of code differs.

Leave your change UNCOMMITTED in the worktree (source edits + the demo file). Finish with a short report: which file(s)/lines you changed and why it breaks the property, what is needed for it to manifest, the exact commands you ran and their results (test suite before/after, demo with/without the change).""")
