#!/bin/sh
# seed_verify_a.sh <prop> [suffix]: phase A of seed_verify.sh (parallelisable, touches only the seed worktree):
# suite still green with the change, demo fails with it and passes without; stores patch + demo under /verif/seeded/<id>/.
P=$1; SUF=${2:-}; WT=/tmp/seed/$P$SUF; ID=$P$SUF
set -e
cd $WT
git diff -- xknx > /tmp/seed/$ID.diff
test -s /tmp/seed/$ID.diff || { echo "no source change"; exit 2; }
echo "== suite with change"; XKNX_REPO=$WT /verif/tools/baseline.py
echo "== demo with change (must fail)"; if PYTHONPATH=$WT timeout 300 /venv/bin/python demo_$P.py >/tmp/seed/$ID.demo_with.log 2>&1; then echo "DEMO PASSES WITH CHANGE (bad)"; exit 3; else echo "fails: ok"; fi
git stash -q -- xknx
echo "== demo without change (must pass)"; if PYTHONPATH=$WT timeout 300 /venv/bin/python demo_$P.py >/tmp/seed/$ID.demo_without.log 2>&1; then echo "passes: ok"; else echo "DEMO FAILS WITHOUT CHANGE (bad)"; git stash pop -q; exit 4; fi
git stash pop -q
mkdir -p /verif/seeded/$ID
cp /tmp/seed/$ID.diff /verif/seeded/$ID/patch.diff
cp demo_$P.py /verif/seeded/$ID/demo.py
echo "PHASE-A OK $ID"
