"""C39 drivers, part 1: Switch, Scene, Fan, Cover (+ registry import of the other parts)."""
from __future__ import annotations

import math
from fractions import Fraction

from harness import c39_lib as L
from harness.c39_base import (DRIVERS, BoolRef, Driver, RawRef, fr, ga, ga_name, ga_str, multi, noop, num_pool, payload_obj,
                              pick_subset, register, show_cfg)
from harness.c39_lib import B, F, I, N, dec


# --------------------------------------------------------------------------
class SwitchDrv(Driver):
    cls_name = "Switch"
    methods = ("set_on", "set_off")

    def gen_cfg(self, rng):
        gas = ["group_address"] if rng.random() < 0.9 else []
        if rng.random() < 0.4 or not gas:
            gas.append("group_address_state")
        return {"kw": {"invert": rng.random() < 0.5}, "ga": gas}

    def gen_pre(self, rng, cfg):
        if "group_address_state" in cfg["ga"] and rng.random() < 0.5:
            return [["group_address_state", f"B:{rng.randrange(2)}"]]
        return []

    def gen_call(self, rng, cfg):
        return [rng.choice(self.methods), []]

    def boundary_cases(self):
        for inv in (False, True):
            for calls in (["set_on"], ["set_off"], ["set_on", "set_off"], ["set_off", "set_on", "set_on"]):
                yield {"cls": "Switch", "cfg": {"kw": {"invert": inv}, "ga": ["group_address"]}, "pre": [], "calls": [[c, []] for c in calls]}

    def observe(self, dev, clock):
        return {"state": dev.state}

    def check(self, case, prev, m, args, rec):
        cfg = case["cfg"]
        if "group_address" not in cfg["ga"]:
            return noop(rec, prev)
        return multi(rec, [("group_address", BoolRef(m == "set_on", cfg["kw"].get("invert")), rec["obs"]["state"])])

    def model_line(self, case, recs):
        cfg = case["cfg"]
        if "group_address" not in cfg["ga"]:
            return None, None
        toks, exp = [], []
        for (m, _), rec in zip(case["calls"], recs[1:]):
            toks.append(f"sw:{int(bool(cfg['kw'].get('invert')))}:{int(m == 'set_on')}")
            exp.append(f"{rec['sent'][0][2][2:] if rec['sent'] else '-'}:{int(bool(rec['obs']['state']))}")
        return "c39 " + " ".join(toks), " ".join(exp)


register(SwitchDrv())


# --------------------------------------------------------------------------
class SceneDrv(Driver):
    cls_name = "Scene"
    methods = ("run", "learn")

    def gen_cfg(self, rng):
        return {"kw": {"scene_number": rng.choice([1, 2, 17, 63, 64, rng.randint(1, 64)])}, "ga": ["group_address"]}

    def gen_call(self, rng, cfg):
        return [rng.choice(self.methods), []]

    def observe(self, dev, clock):
        return {"learn_requested": dev.learn_requested}

    def check(self, case, prev, m, args, rec):
        n = case["cfg"]["kw"]["scene_number"]
        learn = m == "learn"
        return multi(rec, [("group_address", RawRef(("A", [(n - 1) | (0x80 if learn else 0)]), learn), rec["obs"]["learn_requested"])])


register(SceneDrv())


# --------------------------------------------------------------------------
class FanDrv(Driver):
    cls_name = "Fan"
    methods = ("set_speed", "turn_on", "turn_off", "set_oscillation")
    weight = 2

    def gen_cfg(self, rng):
        gas = ["group_address_speed"]
        if rng.random() < 0.3:
            gas.append("group_address_speed_state")
        if rng.random() < 0.4:
            gas.append("group_address_switch")
            if rng.random() < 0.3:
                gas.append("group_address_switch_state")
        if rng.random() < 0.5:
            gas.append("group_address_oscillation")
        kw = {}
        ms = rng.choice([None, None, None, 1, 2, 3, 5, 10, 100, 255])
        if ms is not None:
            kw["max_step"] = ms
        return {"kw": kw, "ga": gas}

    def speed_value(self, rng, cfg):
        ms = cfg["kw"].get("max_step")
        if ms:
            c = rng.randrange(10)
            if c < 6:
                return I(rng.randint(0, ms))
            if c < 8:
                return I(rng.choice([0, 1, ms, ms + 1, 255, 256, -1, 300]))
            return F(rng.choice([0.5, 1.5, ms - 0.1, ms / 2, 255.5, 1.9]))
        return num_pool(rng, 0, 100, 100 / 255)

    def gen_call(self, rng, cfg):
        c = rng.randrange(10)
        if c < 5:
            return ["set_speed", [self.speed_value(rng, cfg)]]
        if c < 7:
            return ["turn_on", [] if rng.random() < 0.5 else [self.speed_value(rng, cfg)]]
        if c < 8:
            return ["turn_off", []]
        return ["set_oscillation", [B(rng.random() < 0.5)]]

    def boundary_cases(self):
        for v in range(0, 101):
            yield {"cls": "Fan", "cfg": {"kw": {}, "ga": ["group_address_speed"]}, "pre": [], "calls": [["set_speed", [I(v)]]]}
        for ms in (1, 2, 3, 5, 10, 255):
            for v in (0, 1, ms, ms + 1, 255, 256):
                yield {"cls": "Fan", "cfg": {"kw": {"max_step": ms}, "ga": ["group_address_speed"]}, "pre": [],
                       "calls": [["set_speed", [I(v)]], ["turn_on", []], ["turn_off", []]]}

    def observe(self, dev, clock):
        return {"current_speed": dev.current_speed, "is_on": dev.is_on, "current_oscillation": dev.current_oscillation}

    def speed_ref(self, cfg, v):
        if cfg["kw"].get("max_step"):
            return L.int_ref(0, 255, v)
        return L.scaling_ref(0, 100, v)

    def check(self, case, prev, m, args, rec):
        cfg, obs = case["cfg"], rec["obs"]
        has_switch = "group_address_switch" in cfg["ga"]
        items = []
        if m == "set_oscillation":
            if "group_address_oscillation" not in cfg["ga"]:
                return noop(rec, prev)
            return multi(rec, [("group_address_oscillation", BoolRef(dec(args[0])), obs["current_oscillation"])])
        if m == "set_speed":
            items = [("group_address_speed", self.speed_ref(cfg, fr(args[0])), obs["current_speed"])]
        elif m == "turn_on":
            speed = args[0] if args else None
            if has_switch:
                items.append(("group_address_switch", BoolRef(True), True))
                if speed is not None:
                    items.append(("group_address_speed", self.speed_ref(cfg, fr(speed)), obs["current_speed"]))
            else:
                if speed is None:
                    ms = cfg["kw"].get("max_step")
                    speed = I(50) if not ms else I(-(-ms // 2))
                items.append(("group_address_speed", self.speed_ref(cfg, fr(speed)), obs["current_speed"]))
        elif m == "turn_off":
            if has_switch:
                items.append(("group_address_switch", BoolRef(False), False))
            else:
                items.append(("group_address_speed", self.speed_ref(cfg, Fraction(0)), obs["current_speed"]))
        msg = multi(rec, items)
        if msg:
            return msg
        if rec["r"] == "ok":
            if has_switch and m in ("turn_on", "turn_off") and obs["is_on"] is not (m == "turn_on"):
                return f"is_on reports {obs['is_on']!r}"
            if not has_switch and obs["is_on"] is not bool(obs["current_speed"]):
                return f"is_on {obs['is_on']!r} disagrees with current_speed {obs['current_speed']!r}"
            if not has_switch and m == "turn_off" and obs["is_on"]:
                return "still on after turn_off"
        return None

    def model_line(self, case, recs):
        cfg = case["cfg"]
        ms = cfg["kw"].get("max_step") or 0
        sw = int("group_address_switch" in cfg["ga"])
        toks, exp = [], []
        for (m, args), rec in zip(case["calls"], recs[1:]):
            if m == "set_oscillation":
                continue
            if m == "set_speed":
                a = qtok(args[0])
            elif m == "turn_on":
                a = qtok(args[0]) if args else "-"
            else:
                a = "-"
            if a is None or near_tie_scaling(0, 100, args[0] if args else None, ms):
                return None, None
            toks.append(f"fan:{ms}:{sw}:{m}:{a}")
            exp.append(sent_summary(rec, {"group_address_speed": "s", "group_address_switch": "w"}))
        if not toks:
            return None, None
        return "c39 " + " ".join(toks), " ".join(exp)


def qtok(t):
    """rational token num/den of a finite tagged number (None if not finite)"""
    if t is None or not L.finite(t):
        return None
    q = L.frac(t)
    return f"{q.numerator}/{q.denominator}"


def near_tie(x: Fraction):
    """exact position within 1e-9 of a rounding tie (k + 1/2): the float pipeline may land on either side"""
    d = abs((x - Fraction(1, 2)) - L.rhe(x - Fraction(1, 2)))
    if 0 < d < Fraction(1, 10**9):
        GAPS[0] += 1
        return True
    return False


GAPS = [0]


def near_tie_scaling(rf, rt, t, step_mode=0):
    if t is None or step_mode or not L.finite(t) or rt == rf:
        return False
    x = (L.frac(t) - rf) * 255 / (rt - rf)
    return near_tie(x)


def sent_summary(rec, names):
    """'conv' | 'ok <name>=<payload>,...' (telegrams in order, short names)"""
    if rec["r"] != "ok":
        return rec["r"]
    return "ok" + "".join(f",{names.get(s[0], s[0])}={s[2][2:]}" for s in rec["sent"])


register(FanDrv())


# --------------------------------------------------------------------------
class CoverDrv(Driver):
    cls_name = "Cover"
    methods = ("set_position", "set_angle", "set_up", "set_down", "stop", "set_short_up", "set_short_down")
    weight = 3
    dt = 2000.0

    def gen_cfg(self, rng):
        gas = []
        c = rng.randrange(10)
        if c < 6:
            gas.append("group_address_position")
            if rng.random() < 0.6:
                gas.append("group_address_long")
        else:
            gas.append("group_address_long")
        if rng.random() < 0.4:
            gas.append("group_address_position_state")
        if rng.random() < 0.5:
            gas.append("group_address_angle")
            if rng.random() < 0.3:
                gas.append("group_address_angle_state")
        if rng.random() < 0.4:
            gas.append("group_address_short")
        if rng.random() < 0.3:
            gas.append("group_address_stop")
        kw = {"invert_position": rng.random() < 0.5, "invert_angle": rng.random() < 0.5, "invert_updown": rng.random() < 0.3}
        if rng.random() < 0.3:
            kw["travel_time_down"], kw["travel_time_up"] = rng.choice([[10, 20], [0.5, 0.5], [60, 30]])
        return {"kw": kw, "ga": gas}

    def gen_pre(self, rng, cfg):
        pre = []
        if "group_address_position_state" in cfg["ga"] and rng.random() < 0.7:
            pre.append(["group_address_position_state", "A:%02x" % rng.randrange(256)])
        if "group_address_angle_state" in cfg["ga"] and rng.random() < 0.5:
            pre.append(["group_address_angle_state", "A:%02x" % rng.randrange(256)])
        return pre

    def gen_call(self, rng, cfg):
        c = rng.randrange(12)
        if c < 6:
            if "group_address_position" in cfg["ga"]:
                return ["set_position", [num_pool(rng, 0, 100, 100 / 255)]]
            return ["set_position", [I(rng.choice([0, 100, rng.randint(0, 100)]))]]
        if c < 8:
            return ["set_angle", [num_pool(rng, 0, 100, 100 / 255)]]
        return [rng.choice(["set_up", "set_down", "set_up", "set_down", "stop", "set_short_up", "set_short_down"]), []]

    def boundary_cases(self):
        for inv in (False, True):
            for v in range(0, 101):
                yield {"cls": "Cover", "cfg": {"kw": {"invert_position": inv, "invert_angle": inv},
                                               "ga": ["group_address_position", "group_address_angle"]}, "pre": [],
                       "calls": [["set_position", [I(v)]], ["set_angle", [I(100 - v)]]]}
            for v in (-1, 101, -0.1, 100.1, 100.19, 100.2, 100.3, -0.19, -0.2, 0.195, 0.196, 0.197, 99.9, 50.5, 12.4):
                yield {"cls": "Cover", "cfg": {"kw": {"invert_position": inv}, "ga": ["group_address_position"]}, "pre": [],
                       "calls": [["set_position", [L.num(v)]]]}

    def observe(self, dev, clock):
        pos = dev.current_position()
        clock[0] += 1000.0
        later = dev.current_position()
        trav = dev.is_traveling()
        clock[0] -= 1000.0
        return {"pos": pos, "pos_later": later, "angle": dev.current_angle(), "traveling_later": trav}

    @staticmethod
    def rng_of(cfg, which):
        return (100, 0) if cfg["kw"].get(which) else (0, 100)

    def check(self, case, prev, m, args, rec):
        cfg, obs = case["cfg"], rec["obs"]
        gas = cfg["ga"]
        inv_ud = bool(cfg["kw"].get("invert_updown"))
        prf, prt = self.rng_of(cfg, "invert_position")
        arf, art = self.rng_of(cfg, "invert_angle")
        up_ref = lambda up, want: RawRef(("B", int((not up) != inv_ud)), want)  # UP = 0, DOWN = 1 on the wire
        if m == "set_position":
            if "group_address_position" in gas:
                return multi(rec, [("group_address_position", L.scaling_ref(prf, prt, fr(args[0])), obs["pos_later"])])
            p = dec(args[0])
            if not (isinstance(p, int) and 0 <= p <= 100):
                return None
            cur = prev["pos_later"]
            if cur is None:
                if p == 0:
                    return multi(rec, [("group_address_long", up_ref(True, 0), obs["pos_later"])])
                if p == 100:
                    return multi(rec, [("group_address_long", up_ref(False, 100), obs["pos_later"])])
                return noop(rec, prev, "the position is unknown and there is no positioning address", ignore=("pos",))
            if p == cur:
                return noop(rec, prev, "already in position", ignore=("pos",))
            return multi(rec, [("group_address_long", up_ref(p < cur, p), obs["pos_later"])])
        if m in ("set_up", "set_down"):
            end = 0 if m == "set_up" else 100
            if "group_address_long" in gas:
                return multi(rec, [("group_address_long", up_ref(m == "set_up", end), obs["pos_later"])])
            return multi(rec, [("group_address_position", L.scaling_ref(prf, prt, Fraction(end)), obs["pos_later"])])
        if m == "set_angle":
            if "group_address_angle" not in gas:
                return noop(rec, prev, ignore=("pos",))
            return multi(rec, [("group_address_angle", L.scaling_ref(arf, art, fr(args[0])), obs["angle"])])
        return None

    def model_line(self, case, recs):
        cfg = case["cfg"]
        toks, exp = [], []
        for (m, args), rec in zip(case["calls"], recs[1:]):
            if m == "set_position" and "group_address_position" in cfg["ga"]:
                rf, rt = self.rng_of(cfg, "invert_position")
                key, rep = "group_address_position", rec["obs"]["pos_later"]
            elif m == "set_angle" and "group_address_angle" in cfg["ga"]:
                rf, rt = self.rng_of(cfg, "invert_angle")
                key, rep = "group_address_angle", rec["obs"]["angle"]
            else:
                continue
            a = qtok(args[0])
            if a is None:
                toks.append(f"sc:{rf}:{rt}:nan")
            elif near_tie_scaling(rf, rt, args[0]):
                return None, None
            else:
                toks.append(f"sc:{rf}:{rt}:{a}")
            exp.append(scaling_result(rec, key, rep))
        if not toks:
            return None, None
        return "c39 " + " ".join(toks), " ".join(exp)


def scaling_result(rec, key, reported):
    if rec["r"] != "ok":
        return rec["r"]
    s = [x for x in rec["sent"] if x[0] == key]
    if len(s) != 1:
        return "none"
    return f"ok:{int(s[0][2][2:], 16)}:{reported}"


register(CoverDrv())

from harness import c39_drivers2, c39_drivers3  # noqa: E402,F401  (register the remaining drivers)
