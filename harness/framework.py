"""
Check framework shared by all properties (see DESIGN.md §1.1).

A property module `harness/cases/Cnn.py` provides

    PROPERTY      "Cnn"
    NAMESPACES    Lean namespaces holding the property theorems (audited)
    MODULES       Lean modules to build (default: XknxVerif.Props.Cnn)
    RULE          text: how cases are generated, what makes one non-trivial
    TRUSTED       list of extra trusted-base items
    EXHAUSTIVE    True if generate() enumerates a finite domain completely
    generate(rng, tier)   -> iterable of case dicts (JSON-able); a case has
                             at least {"op": "<model line>"} for mode F
    run_impl(case)        -> outcome string, or dict {"out": str,
                             "line": model line (default case["op"]),
                             "expect": expected model output (default out)}
    oracle(case, out)     -> None or a violation message; the property itself,
                             evaluated on the implementation's behaviour only
    nontrivial(case, out) -> bool               (optional)
    finding_key(case, msg)-> str                (optional, default case["op"])
    setup()/teardown()                            (optional)

Exit status: 0 held, 1 violation (VIOLATION line printed), 2 tool failure.
"""

from __future__ import annotations

import fcntl
import hashlib
import importlib
import json
import os
import random
import re
import signal
import subprocess
import sys
import time
import traceback
from pathlib import Path

VERIF = Path(__file__).resolve().parent.parent
LEAN = VERIF / "lean"
DRIVER = LEAN / ".lake" / "build" / "bin" / "driver"
REPO = Path(os.environ.get("XKNX_REPO", "/repo"))
ALLOWED_AXIOMS = {"propext", "Classical.choice", "Quot.sound"}
FORBIDDEN_RE = re.compile(
    r"\bsorry\b|\badmit\b|^axiom |native_decide|bv_decide|implemented_by|unsafe |maxHeartbeats 0"
)

BASE_TRUSTED = [
    "Lean 4.33.0 kernel; axioms allowed: propext, Classical.choice, Quot.sound (audited per theorem via collectAxioms)",
    "Lean compiler/runtime for the model driver executable (used only for the correspondence run)",
    "harness/gen_tables.py (introspection of /repo -> Lean literals) and this correspondence harness (generators, canonicalisation)",
    "CPython 3.12 semantics as mirrored by the hand-written executable models; the tie model<->code is the checked correspondence, not a proof",
]


class CaseTimeout(Exception):
    pass


def _alarm(_sig, _frm):
    raise CaseTimeout()


def with_timeout(fn, seconds):
    old = signal.signal(signal.SIGALRM, _alarm)
    signal.setitimer(signal.ITIMER_REAL, seconds)
    try:
        return fn()
    finally:
        signal.setitimer(signal.ITIMER_REAL, 0)
        signal.signal(signal.SIGALRM, old)


def log(*a):
    print(*a, file=sys.stderr, flush=True)


# --------------------------------------------------------------------------
# Lean side
# --------------------------------------------------------------------------


class LeanLock:
    def __enter__(self):
        (LEAN / ".lake").mkdir(exist_ok=True)
        self.f = open(LEAN / ".lake" / "verif.lock", "w")
        fcntl.flock(self.f, fcntl.LOCK_EX)
        return self

    def __exit__(self, *a):
        fcntl.flock(self.f, fcntl.LOCK_UN)
        self.f.close()


def run(cmd, cwd=None, timeout=None):
    p = subprocess.run(
        cmd, cwd=cwd, capture_output=True, text=True, timeout=timeout, check=False
    )
    return p.returncode, p.stdout + p.stderr


def regenerate_tables():
    from harness import gen_tables

    run([sys.executable, str(VERIF / "tools" / "regen_roots.py")])  # deterministic from directory contents

    return gen_tables.main()


def lake_build(targets, timeout=3600):
    rc, out = run(["lake", "build", *targets], cwd=LEAN, timeout=timeout)
    return rc == 0, out


def failed_modules(build_out):
    return sorted(set(re.findall(r"^- (\S+)$", build_out, flags=re.M)))


def source_scan(modules):
    """grep for forbidden constructs outside comments in the given modules and their local imports."""
    seen, todo, hits = set(), list(modules), []
    while todo:
        m = todo.pop()
        if m in seen or not m.startswith("XknxVerif"):
            continue
        seen.add(m)
        p = LEAN / (m.replace(".", "/") + ".lean")
        if not p.exists():
            continue
        txt = p.read_text()
        for imp in re.findall(r"^import\s+(\S+)", txt, flags=re.M):
            todo.append(imp)
        # strip comments
        stripped = re.sub(r"/-.*?-/", lambda mm: "\n" * mm.group(0).count("\n"), txt, flags=re.S)
        for i, line in enumerate(stripped.splitlines(), 1):
            line = line.split("--")[0]
            if FORBIDDEN_RE.search(line):
                hits.append(f"{p.relative_to(VERIF)}:{i}: {line.strip()}")
    return sorted(seen), hits


def audit(prop, namespaces, modules):
    """Returns (theorems: dict name->axioms, output)."""
    d = LEAN / ".audit"
    d.mkdir(exist_ok=True)
    f = d / f"{prop}.lean"
    src = "import XknxVerif.Audit\n" + "".join(f"import {m}\n" for m in modules)
    src += "".join(f"#audit_ns {ns}\n" for ns in namespaces)
    f.write_text(src)
    rc, out = run(["lake", "env", "lean", str(f)], cwd=LEAN, timeout=1800)
    thms = {}
    for m in re.finditer(r"AUDIT (\S+) \[(.*?)\]", out):
        axs = [a.strip() for a in m.group(2).split(",") if a.strip()]
        thms[m.group(1)] = axs
    return rc, thms, out


DRIVE_PROCS = 1  # a property module may set DRIVE_PROCS = n: lines of one flush are split over n driver processes


def drive(lines):
    """Pipe op lines through the compiled model driver; returns list of output lines."""
    if not lines:
        return []
    if DRIVE_PROCS > 1 and len(lines) >= 2 * DRIVE_PROCS:
        from concurrent.futures import ThreadPoolExecutor
        n = DRIVE_PROCS
        # round-robin so that expensive neighbouring lines are spread over the processes
        parts = [lines[i::n] for i in range(n)]
        with ThreadPoolExecutor(n) as ex:
            outs = list(ex.map(_drive1, parts))
        merged = [None] * len(lines)
        for i, o in enumerate(outs):
            merged[i::n] = o
        return merged
    return _drive1(lines)


def _drive1(lines):
    if not lines:
        return []
    data = "\n".join(lines) + "\n"
    p = subprocess.run([str(DRIVER)], input=data, capture_output=True, text=True, check=False)
    outs = p.stdout.split("\n")
    if outs and outs[-1] == "":
        outs.pop()
    if p.returncode != 0 or len(outs) != len(lines):
        raise RuntimeError(
            f"driver failed rc={p.returncode} lines={len(lines)} outs={len(outs)} err={p.stderr[:500]}"
        )
    return outs


# --------------------------------------------------------------------------
# Known findings
# --------------------------------------------------------------------------


def load_known(prop):
    p = VERIF / "known_findings.json"
    if not p.exists():
        return {}
    data = json.loads(p.read_text())
    return {
        e["key"]: e
        for e in data.get("findings", [])
        if e.get("property") == prop and e.get("status") == "known"
    }


# --------------------------------------------------------------------------
# Main
# --------------------------------------------------------------------------


def canon_case(case):
    return json.dumps(case, sort_keys=True, default=str)


def write_replay(prop, seed, payload):
    d = VERIF / "replays"
    d.mkdir(exist_ok=True)
    p = d / f"{prop}-{seed}.json"
    p.write_text(json.dumps(payload, indent=1, sort_keys=True, default=str))
    return p


def load_corpus(prop):
    d = VERIF / "harness" / "corpus" / prop
    out = []
    if d.is_dir():
        for f in sorted(d.glob("*.json")):
            try:
                c = json.loads(f.read_text())
                out.extend(c if isinstance(c, list) else [c])
            except Exception:  # noqa: BLE001
                log(f"corpus file unreadable: {f}")
    return out


class Runner:
    def __init__(self, mod, tier, seed):
        self.mod = mod
        self.prop = mod.PROPERTY
        self.tier = tier
        self.seed = seed
        self.case_timeout = getattr(mod, "CASE_TIMEOUT", 5.0)
        self.evaluations = 0
        self.distinct = set()
        self.samples = []
        self.hist = {}
        self.oracle_hits = []  # (case, out, msg)
        self.known_hits = {}
        self.disagreements = []  # (case, implout, modelout)
        self.timeouts = []
        self.slow = []  # cases that needed the long budget (loaded machine); they are evaluated normally
        self.errors = []
        self.known = load_known(self.prop)
        self.pending = []  # (case, res)
        self.pending_bytes = 0
        global DRIVE_PROCS
        DRIVE_PROCS = int(getattr(mod, "DRIVE_PROCS", 1))

    def outcome_class(self, out):
        f = getattr(self.mod, "outcome_class", None)
        if f:
            return f(out)
        return (out.split(" ") or ["?"])[0][:40]

    def run_case(self, case, use_model=True):
        self.evaluations += 1
        try:
            res = with_timeout(lambda: self.mod.run_impl(case), self.case_timeout)
        except CaseTimeout:
            hang = getattr(self.mod, "HANG_IS_VIOLATION", False)
            # the watchdog is a wall-clock timer: before anything is concluded from it, the case is run again with a
            # twenty-fold budget, so that a descheduled process on a loaded machine is neither mistaken for a
            # non-terminating parser (a violation) nor turns the run into "timed out" (exit 2)
            confirm = max(20.0 * self.case_timeout, 20.0)
            if getattr(self, "confirmed_hangs", 0) >= 2:
                # two are confirmed already; further ones are recorded at the short budget
                if hang:
                    self.record_oracle(case, "timeout", f"implementation did not return within {self.case_timeout}s")
                else:
                    self.timeouts.append(case)
                return
            try:
                res = with_timeout(lambda: self.mod.run_impl(case), confirm)
                self.slow.append(case)
            except CaseTimeout:
                self.confirmed_hangs = getattr(self, "confirmed_hangs", 0) + 1
                if hang:
                    self.record_oracle(case, "timeout", f"implementation did not return within {self.case_timeout}s (confirmed with {confirm}s)")
                else:
                    self.timeouts.append(case)
                return
            except Exception as e:  # noqa: BLE001
                res = {"out": f"harness-exc {type(e).__name__}", "detail": traceback.format_exc()[-800:]}
        except Exception as e:  # noqa: BLE001  harness bug or unexpected impl exception
            res = {"out": f"harness-exc {type(e).__name__}", "detail": traceback.format_exc()[-800:]}
        if isinstance(res, str):
            res = {"out": res}
        out = res["out"]
        if out.startswith("harness-exc"):
            self.errors.append((case, res))
            return
        self.hist[self.outcome_class(out)] = self.hist.get(self.outcome_class(out), 0) + 1
        nt = getattr(self.mod, "nontrivial", None)
        if nt is None or nt(case, out):
            self.distinct.add(hashlib.blake2b(canon_case(case).encode(), digest_size=8).digest())
        if len(self.samples) < 6 and (self.evaluations % 97 == 1 or len(self.samples) < 2):
            self.samples.append({"case": case, "impl": out[:300]})
        try:
            msg = self.mod.oracle(case, out)
        except Exception as e:  # noqa: BLE001
            self.errors.append((case, {"out": f"oracle-exc {type(e).__name__}", "detail": traceback.format_exc()[-800:]}))
            msg = None
        if msg:
            self.record_oracle(case, out, msg)
        if use_model:
            line = res.get("line", case.get("op"))
            if line is not None:
                exp = res.get("expect", out)
                self.pending.append((case, out, line, exp))
                self.pending_bytes += len(line) + len(out) + len(exp)
                if len(self.pending) >= 20000 or self.pending_bytes > 64_000_000:
                    self.flush()

    def record_oracle(self, case, out, msg):
        keyf = getattr(self.mod, "finding_key", None)
        key = keyf(case, msg) if keyf else case.get("op", canon_case(case))
        if key in self.known:
            self.known_hits.setdefault(key, (case, out, msg))
        else:
            self.oracle_hits.append((case, out, msg))

    def flush(self):
        if not self.pending:
            return
        pend, self.pending = self.pending, []
        self.pending_bytes = 0
        outs = drive([p[2] for p in pend])
        for (case, out, line, expect), mo in zip(pend, outs):
            if mo != expect:
                # a disagreement on a known finding's input is the finding, not a new alarm
                keyf = getattr(self.mod, "finding_key", None)
                key = keyf(case, "") if keyf else case.get("op", canon_case(case))
                if key in self.known:
                    continue
                if len(self.disagreements) < 50:
                    self.disagreements.append({"case": case, "line": line, "impl": expect, "model": mo})
                else:
                    self.disagreements.append(None)

    def run_all(self, cases, use_model=True, budget_s=None, stop_on_hit=False):
        t0 = time.time()
        for case in cases:
            self.run_case(case, use_model)
            if stop_on_hit and self.oracle_hits:
                break
            if budget_s and time.time() - t0 > budget_s:
                break
        if use_model:
            self.flush()


def shrink(mod, case, msg):
    f = getattr(mod, "shrink", None)
    if not f:
        return case
    try:
        return f(case, msg) or case
    except Exception:  # noqa: BLE001
        return case


def main(argv=None):
    import argparse

    ap = argparse.ArgumentParser()
    ap.add_argument("prop")
    ap.add_argument("--tier", default=os.environ.get("VERIF_TIER", "quick"))
    ap.add_argument("--replay")
    ap.add_argument("--no-build", action="store_true")
    args = ap.parse_args(argv)
    seed = int(os.environ.get("VERIF_SEED", "0") or 0)
    tier = args.tier if args.tier in ("quick", "thorough") else "quick"
    prop = args.prop
    t0 = time.time()

    sys.path.insert(0, str(VERIF))
    os.environ.setdefault("XKNX_VERIF", "1")
    if str(REPO) not in sys.path:
        sys.path.insert(0, str(REPO))
    mod = importlib.import_module(f"harness.cases.{prop}")

    if args.replay:
        return replay(mod, args.replay)

    modules = list(getattr(mod, "MODULES", [f"XknxVerif.Props.{prop}"]))
    namespaces = list(getattr(mod, "NAMESPACES", [f"XknxVerif.Props.{prop}"]))

    # ---- 1+2: regenerate tables, build proofs + driver, audit -------------
    proof_problems = []
    driver_ok = True
    with LeanLock():
        try:
            gen_info = regenerate_tables()
        except Exception:  # noqa: BLE001
            gen_info = {"error": traceback.format_exc()[-1500:]}
            proof_problems.append("gen_tables failed: " + gen_info["error"].splitlines()[-1])
        if not args.no_build:
            ok, out = lake_build(["driver"])
            if not ok:
                driver_ok = False
                proof_problems.append("driver build failed: " + ", ".join(failed_modules(out)) + "\n" + out[-1500:])
            ok, out = lake_build(modules)
            if not ok:
                proof_problems.append(
                    "proof build failed in: " + ", ".join(failed_modules(out)) + "\n" + out[-3000:]
                )
                build_tail = out[-3000:]
        theorems = {}
        if not [p for p in proof_problems if p.startswith("proof build")]:
            rc, theorems, aout = audit(prop, namespaces, modules)
            if rc != 0:
                proof_problems.append("audit failed: " + aout[-1500:])
        scanned, hits = source_scan(modules)
        if hits:
            proof_problems.append("forbidden construct in proof sources: " + "; ".join(hits[:5]))
        recheck = None
        if tier == "thorough" and not proof_problems and os.environ.get("VERIF_LEANCHECKER", "1") != "0":
            # independent re-check of the compiled theorem modules by the toolchain's second kernel front end
            t_lc = time.time()
            rc, lout = run(["lake", "env", "leanchecker", *modules], cwd=LEAN, timeout=3600)
            recheck = {"cmd": "lake env leanchecker " + " ".join(modules), "exit": rc, "seconds": round(time.time() - t_lc, 1)}
            if rc != 0:
                proof_problems.append("leanchecker rejected the compiled proof modules: " + lout[-1500:])
    obligations = len(theorems)
    bad_axioms = {n: a for n, a in theorems.items() if not set(a) <= ALLOWED_AXIOMS}
    discharged = obligations - len(bad_axioms)
    if bad_axioms:
        proof_problems.append("theorems with disallowed axioms: " + json.dumps(bad_axioms))
    if obligations == 0 and not proof_problems:
        proof_problems.append("no theorems found in " + ",".join(namespaces))

    # ---- 3+4: correspondence + oracle ---------------------------------------
    rng = random.Random(seed * 1000003 + 17)
    R = Runner(mod, tier, seed)
    if hasattr(mod, "setup"):
        mod.setup()
    try:
        corpus = load_corpus(prop)
        R.run_all(corpus, use_model=driver_ok)
        R.run_all(mod.generate(rng, tier), use_model=driver_ok)
        # ---- 5: decide ---------------------------------------------------
        status = 0
        lines = []
        for key, (case, out, msg) in R.known_hits.items():
            lines.append(f"KNOWN-FINDING: property={prop} {R.known[key].get('what', msg)} [{key}]")
        n_dis = len(R.disagreements)
        if R.oracle_hits:
            case, out, msg = R.oracle_hits[0]
            case = shrink(mod, case, msg)
            p = write_replay(prop, seed, {"property": prop, "kind": "failing-input", "case": case,
                                          "impl_outcome": out, "violation": msg,
                                          "other_hits": len(R.oracle_hits) - 1})
            lines.append(f"VIOLATION property={prop} replay={p}")
            status = 1
        elif proof_problems or n_dis or R.errors:
            # broken proof / correspondence: extended failing-input search on the implementation.  A case the harness could
            # not drive (the implementation raised where it does not on the unchanged tree, e.g. a constructor that now
            # refuses a value) is a broken correspondence too: the run must not end without a verdict
            log(f"[{prop}] proof/correspondence broken; running extended search")
            S = Runner(mod, "thorough", seed)
            budget = 120 if tier == "quick" else 600
            t1 = time.time()
            seeds_tried = 0
            # disagreement points first
            S.run_all([d["case"] for d in R.disagreements if d], use_model=False, stop_on_hit=True)
            while not S.oracle_hits and time.time() - t1 < budget and seeds_tried < 8:
                srng = random.Random((seed + 7919 * (seeds_tried + 1)) * 1000003 + 17)
                S.run_all(mod.generate(srng, "thorough"), use_model=False,
                          budget_s=budget - (time.time() - t1), stop_on_hit=True)
                seeds_tried += 1
                if getattr(mod, "EXHAUSTIVE", False):
                    break
            payload = {"property": prop, "proof_problems": proof_problems,
                       "disagreements": [d for d in R.disagreements if d][:10],
                       "n_disagreements": n_dis,
                       "harness_errors": [{"case": c, "error": r.get("out"), "detail": r.get("detail", "")[-400:]} for c, r in R.errors[:3]],
                       "n_harness_errors": len(R.errors)}
            if S.oracle_hits:
                case, out, msg = S.oracle_hits[0]
                case = shrink(mod, case, msg)
                payload.update({"kind": "failing-input", "case": case, "impl_outcome": out, "violation": msg})
                p = write_replay(prop, seed, payload)
                lines.append(f"VIOLATION property={prop} replay={p}")
            else:
                payload.update({"kind": "unproved",
                                "what": "theorem or correspondence no longer checks; no failing input found by the search",
                                "search_evaluations": S.evaluations})
                p = write_replay(prop, seed, payload)
                lines.append(f"VIOLATION property={prop} replay={p} no-failing-input-found")
            status = 1
        if R.timeouts and status == 0:
            log(f"[{prop}] {len(R.timeouts)} case(s) hit the per-case watchdog: {R.timeouts[:2]}")
            status = 2
        if R.errors and status == 0:
            log(f"[{prop}] harness errors: {R.errors[:2]}")
            status = 2
    finally:
        if hasattr(mod, "teardown"):
            mod.teardown()

    # ---- evidence ----------------------------------------------------------
    ev = {
        "property_id": prop,
        "tier": tier,
        "seed": seed,
        "level": "proof",
        "coverage": {
            "obligations": obligations,
            "discharged": discharged,
            "checker_cmd": f"cd lean && lake build {' '.join(modules)} && lake env lean .audit/{prop}.lean  (#audit_ns: collectAxioms per theorem) ; source scan for sorry/admit/axiom/native_decide/bv_decide" + (f" ; {recheck['cmd']}" if recheck else ""),
            "trusted_base": BASE_TRUSTED + list(getattr(mod, "TRUSTED", [])),
            "theorems": sorted(theorems),
            "proof_problems": proof_problems,
            "leanchecker": recheck,
            "modules_scanned": scanned,
            "evaluations": R.evaluations,
            "distinct_nontrivial": len(R.distinct),
            "rule": getattr(mod, "RULE", ""),
            "samples": R.samples,
            "exhaustive": bool(getattr(mod, "EXHAUSTIVE", False)) or bool(getattr(mod, f"EXHAUSTIVE_{tier.upper()}", False)),
            "outcome_histogram": dict(sorted(R.hist.items(), key=lambda kv: -kv[1])[:40]),
            "model_impl_disagreements": len(R.disagreements),
            "traces_validated_against_impl": R.evaluations - len(R.disagreements) if driver_ok else 0,
            "known_findings_printed": sorted(R.known_hits),
            "timeouts": len(R.timeouts),
            "slow_cases_rerun_with_long_budget": len(R.slow),
            "generated_tables": gen_info,
            "corpus_cases": len(corpus),
        },
        "assumptions": list(getattr(mod, "ASSUMPTIONS", [])),
        "wall_s": round(time.time() - t0, 2),
        "violations": 1 if status == 1 else 0,
    }
    extra = getattr(mod, "evidence_extra", None)
    if extra:
        try:
            ev["coverage"].update(extra())
        except Exception:  # noqa: BLE001
            pass
    (VERIF / "evidence").mkdir(exist_ok=True)
    (VERIF / "evidence" / f"{prop}.json").write_text(json.dumps(ev, indent=1, default=str))
    for ln in lines:
        print(ln, flush=True)
    log(f"[{prop}] tier={tier} seed={seed} obligations={obligations}/{discharged} cases={R.evaluations} "
        f"distinct={len(R.distinct)} disagreements={len(R.disagreements)} status={status} wall={ev['wall_s']}s")
    return status


def replay(mod, path):
    data = json.loads(Path(path).read_text())
    prop = mod.PROPERTY
    if data.get("kind") != "failing-input":
        print(f"replay {path}: no concrete failing input recorded; proof problems:")
        for p in data.get("proof_problems", []):
            print("  ", p[:2000])
        for d in data.get("disagreements", [])[:5]:
            print("  disagreement:", json.dumps(d)[:500])
        return 1
    case = data["case"]
    if hasattr(mod, "setup"):
        mod.setup()
    try:
        try:
            res = with_timeout(lambda: mod.run_impl(case), getattr(mod, "CASE_TIMEOUT", 5.0))
        except CaseTimeout:
            res = "timeout"
        out = res if isinstance(res, str) else res["out"]
        msg = "timeout" if out == "timeout" else mod.oracle(case, out)
    finally:
        if hasattr(mod, "teardown"):
            mod.teardown()
    print(f"case: {json.dumps(case)[:2000]}\nimpl outcome: {out[:2000]}\noracle: {msg}")
    if msg:
        print(f"VIOLATION property={prop} replay={path}")
        return 1
    return 0
