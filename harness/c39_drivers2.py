"""C39 drivers, part 2: Light, Climate, ClimateMode."""
from __future__ import annotations

import math
from fractions import Fraction

from harness import c39_lib as L
from harness.c39_base import BoolRef, Driver, RawRef, fr, multi, noop, num_pool, register
from harness.c39_lib import B, F, I, N, dec

COLORS = ("red", "green", "blue", "white")
# current_color reads the RGBW (or RGB) object whenever one is configured, also when the command went out on another colour object
SHADOW = "colour-shadowed: "


def _ga(x):
    return f"group_address_{x}"


# --------------------------------------------------------------------------
class LightDrv(Driver):
    cls_name = "Light"
    methods = ("set_on", "set_off", "set_brightness", "set_color", "set_hs_color", "set_xyy_color", "set_tunable_white",
               "set_color_temperature")
    weight = 4

    def convert_kw(self, kw):
        from xknx.devices.light import ColorTemperatureType

        if "color_temperature_type" in kw:
            kw["color_temperature_type"] = ColorTemperatureType[kw["color_temperature_type"]]
        return kw

    def gen_cfg(self, rng):
        gas, kw = [], {}
        individual = rng.random() < 0.35
        if not individual or rng.random() < 0.3:
            gas.append(_ga("switch"))
            if rng.random() < 0.3:
                gas.append(_ga("switch_state"))
        if rng.random() < 0.6:
            gas.append(_ga("brightness"))
            if rng.random() < 0.3:
                gas.append(_ga("brightness_state"))
        if individual:
            cols = COLORS if rng.random() < 0.5 else COLORS[:3]
            if rng.random() < 0.15:
                cols = tuple(c for c in COLORS if rng.random() < 0.6)
            for c in cols:
                gas.append(_ga(f"brightness_{c}"))
                if rng.random() < 0.4:
                    gas.append(_ga(f"switch_{c}"))
                if rng.random() < 0.2:
                    gas.append(_ga(f"brightness_{c}_state"))
        feats = ["color", "rgbw", "hs", "xyy_color", "tunable_white", "color_temperature"]
        for f in feats:
            if rng.random() < (0.1 if individual and f in ("color", "rgbw") else 0.3):
                if f == "hs":
                    gas += [_ga("hue"), _ga("saturation")]
                else:
                    gas.append(_ga(f))
                    if rng.random() < 0.25:
                        gas.append(_ga(f + "_state"))
        if _ga("color_temperature") in gas and rng.random() < 0.5:
            kw["color_temperature_type"] = rng.choice(["UINT_2_BYTE", "FLOAT_2_BYTE"])
        return {"kw": kw, "ga": gas}

    def comp(self, rng):
        c = rng.randrange(10)
        if c < 7:
            return I(rng.randint(0, 255))
        if c < 9:
            return I(rng.choice([0, 255, 1, 254]))
        return I(rng.choice([256, -1, 300]))

    def gen_call(self, rng, cfg):
        gas = cfg["ga"]
        opts = ["set_on", "set_off"]
        if _ga("brightness") in gas:
            opts += ["set_brightness"] * 3
        if _ga("color") in gas or _ga("rgbw") in gas or any(_ga(f"brightness_{c}") in gas for c in COLORS):
            opts += ["set_color"] * 3
        if _ga("hue") in gas:
            opts += ["set_hs_color"] * 3
        if _ga("xyy_color") in gas:
            opts += ["set_xyy_color"] * 3
        if _ga("tunable_white") in gas:
            opts += ["set_tunable_white"] * 2
        if _ga("color_temperature") in gas:
            opts += ["set_color_temperature"] * 3
        if rng.random() < 0.05:
            opts = list(self.methods)
        m = rng.choice(opts)
        if m in ("set_on", "set_off"):
            return [m, []]
        if m in ("set_brightness", "set_tunable_white"):
            return [m, [num_pool(rng, 0, 255, 1)]]
        if m == "set_color":
            rgb = {"t": "tuple", "v": [self.comp(rng) for _ in range(3)]}
            return [m, [rgb] if rng.random() < 0.5 else [rgb, self.comp(rng)]]
        if m == "set_hs_color":
            return [m, [{"t": "tuple", "v": [num_pool(rng, 0, 360, 360 / 255), num_pool(rng, 0, 100, 100 / 255)]}]]
        if m == "set_xyy_color":
            col = N() if rng.random() < 0.25 else {"t": "tuple", "v": [F(self.axis(rng)), F(self.axis(rng))]}
            br = N() if rng.random() < 0.25 else self.comp(rng)
            return [m, [{"t": "xyy", "color": col, "brightness": br}]]
        if cfg["kw"].get("color_temperature_type") == "FLOAT_2_BYTE":
            return [m, [num_pool(rng, 1000, 10000, 0.01 * 4)]]
        return [m, [rng.choice([I(rng.randint(0, 65535)), I(rng.choice([0, 65535, 65536, -1, 2700, 6000])), F(rng.uniform(1000, 9000))])]]

    @staticmethod
    def axis(rng):
        c = rng.randrange(8)
        if c < 5:
            return rng.random()
        if c == 5:
            return rng.choice([0.0, 1.0, 0.5, 1 / 65535, 0.5 / 65535])
        if c == 6:
            return rng.randrange(65536) / 65535
        return rng.choice([-0.0001, 1.0001, 2.0])

    def boundary_cases(self):
        for v in range(0, 256):
            yield {"cls": "Light", "cfg": {"kw": {}, "ga": [_ga("switch"), _ga("brightness"), _ga("tunable_white")]}, "pre": [],
                   "calls": [["set_brightness", [I(v)]], ["set_tunable_white", [I(255 - v)]]]}
        allc = [_ga(f"brightness_{c}") for c in COLORS]
        yield {"cls": "Light", "cfg": {"kw": {}, "ga": allc}, "pre": [],
               "calls": [["set_on", []], ["set_color", [{"t": "tuple", "v": [I(1), I(2), I(3)]}, I(4)]], ["set_off", []]]}
        yield {"cls": "Light", "cfg": {"kw": {}, "ga": allc[:3] + [_ga("switch_red")]}, "pre": [],
               "calls": [["set_color", [{"t": "tuple", "v": [I(255), I(0), I(128)]}]], ["set_off", []], ["set_on", []]]}

    def observe(self, dev, clock):
        col = dev.current_color
        xyy = dev.current_xyy_color
        return {"state": dev.state, "brightness": dev.current_brightness,
                "color": [list(col[0]) if col[0] is not None else None, col[1]],
                "hs": list(dev.current_hs_color) if dev.current_hs_color is not None else None,
                "xyy": None if xyy is None else [list(xyy.color) if xyy.color is not None else None, xyy.brightness],
                "tw": dev.current_tunable_white, "ct": dev.current_color_temperature}

    def check(self, case, prev, m, args, rec):
        cfg, obs = case["cfg"], rec["obs"]
        gas = cfg["ga"]
        has = lambda x: _ga(x) in gas
        init = lambda x: has(x) or has(x + "_state")
        if m in ("set_on", "set_off"):
            on = m == "set_on"
            if has("switch"):
                return multi(rec, [(_ga("switch"), BoolRef(on), obs["state"])])
            items = []
            for c in COLORS:
                if has(f"switch_{c}"):
                    items.append((_ga(f"switch_{c}"), BoolRef(on), on))
                elif has(f"brightness_{c}"):
                    items.append((_ga(f"brightness_{c}"), RawRef(("A", [255 if on else 0]), True), True))
            if not items:
                return noop(rec, prev)
            msg = multi(rec, items)
            if msg:
                return msg
            if init("switch"):
                return None  # a state-only main switch decides `state`
            if obs["state"] is not on:
                return f"state reports {obs['state']!r} after {m} through the individual colours"
            return None
        if m in ("set_brightness", "set_tunable_white"):
            key = "brightness" if m == "set_brightness" else "tunable_white"
            if not has(key):
                return noop(rec, prev)
            return multi(rec, [(_ga(key), L.scaling_ref(0, 255, fr(args[0])), obs["brightness" if key == "brightness" else "tw"])])
        if m == "set_color_temperature":
            if not has("color_temperature"):
                return noop(rec, prev)
            if cfg["kw"].get("color_temperature_type") == "FLOAT_2_BYTE":
                ref = L.dpt9_ref(Fraction(-671088.64), Fraction(670760.96), fr(args[0]))
            else:
                ref = L.int_ref(0, 65535, fr(args[0]))
            return multi(rec, [(_ga("color_temperature"), ref, obs["ct"])])
        if m == "set_color":
            rgb = [dec(x) for x in args[0]["v"]]
            white = dec(args[1]) if len(args) > 1 else None
            comps = rgb + ([white] if white is not None else [])
            bad = any(not 0 <= c <= 255 for c in comps)
            ind = lambda cols: all(init(f"brightness_{c}") for c in cols)
            okref = lambda payload, want: _Maybe(RawRef(payload, want), bad)
            if white is not None:
                if init("rgbw"):
                    if not has("rgbw"):
                        return noop(rec, prev)
                    want = [rgb, white]
                    return multi(rec, [(_ga("rgbw"), okref(("A", rgb + [white, 0, 0x0F]), want), obs["color"])])
                if ind(COLORS):
                    if not all(has(f"brightness_{c}") for c in COLORS):
                        return None
                    items = [(_ga(f"brightness_{c}"), _Maybe(RawRef(("A", [v]), v), not 0 <= v <= 255), v) for c, v in zip(COLORS, comps)]
                    msg = multi(rec, items)
                    if msg or rec["r"] != "ok":
                        return msg
                    if obs["color"] != [rgb, white]:
                        return (SHADOW if init("color") else "") + f"current_color reports {obs['color']} after setting {[rgb, white]} through the individual colours"
                    return None
                return noop(rec, prev, "RGBW is not supported by the configuration")
            if init("color"):
                if not has("color"):
                    return noop(rec, prev)
                msg = multi(rec, [(_ga("color"), okref(("A", rgb), True), True)])
                if msg or rec["r"] != "ok":
                    return msg
                if obs["color"][0] != rgb:
                    return (SHADOW if init("rgbw") else "") + f"current_color reports {obs['color']} after setting {rgb} on the RGB address"
                return None
            if ind(COLORS[:3]):
                if not all(has(f"brightness_{c}") for c in COLORS[:3]):
                    return None
                items = [(_ga(f"brightness_{c}"), _Maybe(RawRef(("A", [v]), v), not 0 <= v <= 255), v) for c, v in zip(COLORS, rgb)]
                msg = multi(rec, items)
                if msg or rec["r"] != "ok":
                    return msg
                if obs["color"][0] != rgb:
                    return (SHADOW if init("rgbw") else "") + f"current_color reports {obs['color']} after setting {rgb} through the individual colours"
                return None
            return noop(rec, prev, "colour is not supported by the configuration")
        if m == "set_hs_color":
            if not (init("hue") and init("saturation")):
                return noop(rec, prev)
            h, s = args[0]["v"]
            from harness.c39_drivers3 import num_ref
            refs = {_ga("hue"): num_ref("angle", fr(h)), _ga("saturation"): num_ref("percent", fr(s))}
            if rec["r"] != "ok":
                return None if any(r.may_refuse or r.must_refuse for r in refs.values()) else "refused a value the datapoint represents"
            if not rec["sent"]:
                return "no telegram was sent"
            rep = obs["hs"] or [None, None]
            for i, (key, req) in enumerate(((_ga("hue"), h), (_ga("saturation"), s))):
                sent = [x for x in rec["sent"] if x[0] == key]
                if len(sent) > 1:
                    return f"{key} sent twice"
                if sent:
                    if refs[key].accept is None:
                        return f"{key}: accepted a value outside the datapoint's range"
                    from harness.c39_base import parse_payload
                    p = parse_payload(sent[0][2])
                    msg = refs[key].accept(rep[i], p[1] if p[0] == "A" else None)
                    if msg:
                        return f"{key.replace('group_address_', '')}: {msg}"
                elif rep[i] != dec(req):
                    return f"{key.replace('group_address_', '')} not sent although it reports {rep[i]!r}, requested {dec(req)!r}"
            return None
        if m == "set_xyy_color":
            if not init("xyy_color"):
                return noop(rec, prev)
            if not has("xyy_color"):
                return noop(rec, prev)
            col = None if args[0]["color"]["t"] == "none" else [dec(x) for x in args[0]["color"]["v"]]
            br = dec(args[0]["brightness"])
            bad = (col is not None and any(not 0 <= a <= 1 for a in col)) or (br is not None and not 0 <= br <= 255)
            if rec["r"] != "ok":
                return None if bad else "refused a colour the datapoint represents"
            if bad:
                return "accepted a colour outside the datapoint's range"
            if len(rec["sent"]) != 1 or rec["sent"][0][0] != _ga("xyy_color"):
                return f"queued {[(x[0], x[2]) for x in rec['sent']]}"
            pv = prev["xyy"] or [None, None]
            rep = obs["xyy"] or [None, None]
            if col is None:
                if rep[0] != pv[0]:
                    return f"colour changed to {rep[0]} although none was requested"
            else:
                if rep[0] is None:
                    return "colour not reported"
                tol = 0.5 / 65535 + 0.5e-5 + 1e-12
                if any(abs(a - b) > tol for a, b in zip(rep[0], col)):
                    return f"reports colour {rep[0]} for {col} (more than half a step of 1/65535 away)"
            want_br = br if br is not None else pv[1]
            if rep[1] != want_br:
                return f"reports brightness {rep[1]!r}, expected {want_br!r}"
            return None
        return None

    def model_line(self, case, recs):
        from harness.c39_drivers import near_tie_scaling, qtok, scaling_result

        cfg = case["cfg"]
        toks, exp = [], []
        for (m, args), rec in zip(case["calls"], recs[1:]):
            if m == "set_brightness" and _ga("brightness") in cfg["ga"]:
                key, rep = _ga("brightness"), rec["obs"]["brightness"]
            elif m == "set_tunable_white" and _ga("tunable_white") in cfg["ga"]:
                key, rep = _ga("tunable_white"), rec["obs"]["tw"]
            else:
                continue
            a = qtok(args[0])
            if a is None or near_tie_scaling(0, 255, args[0]):
                return None, None
            toks.append(f"sc:0:255:{a}")
            exp.append(scaling_result(rec, key, rep))
        if not toks:
            return None, None
        return "c39 " + " ".join(toks), " ".join(exp)


class _Maybe:
    """a RawRef that may (must) be refused when a component is out of range"""

    def __init__(self, ref, bad):
        self.ref = ref
        self.may_refuse = self.must_refuse = bad
        self.accept = None if bad else self._accept
        self.why = "colour component outside 0..255"

    def _accept(self, reported, payload):
        return self.ref.accept(reported, ("A", payload) if payload is not None else ("?", None))


register(LightDrv())


# --------------------------------------------------------------------------
class ClimateDrv(Driver):
    cls_name = "Climate"
    methods = ("set_target_temperature", "set_setpoint_shift", "turn_on", "turn_off", "set_fan_speed", "set_swing", "set_horizontal_swing")
    weight = 6

    STEPS = [0.1, 0.1, 0.1, 0.2, 0.5, 1.0, 0.25, 0.05, 0.3]

    def convert_kw(self, kw):
        from xknx.devices.fan import FanSpeedMode
        from xknx.remote_value.remote_value_setpoint_shift import SetpointShiftMode

        if "setpoint_shift_mode" in kw:
            kw["setpoint_shift_mode"] = SetpointShiftMode[kw["setpoint_shift_mode"]]
        if "fan_speed_mode" in kw:
            kw["fan_speed_mode"] = FanSpeedMode[kw["fan_speed_mode"]]
        return kw

    def gen_cfg(self, rng):
        gas, kw = [], {}
        c = rng.randrange(10)
        if c < 7:
            if rng.random() < 0.92:
                gas.append(_ga("setpoint_shift"))
                if rng.random() < 0.4:
                    gas.append(_ga("setpoint_shift_state"))
            else:
                gas.append(_ga("setpoint_shift_state"))  # the shift is only observed: the target temperature object carries the command
            r = rng.random()
            if r < 0.6:
                gas.append(_ga("target_temperature_state"))
            elif r < 0.85:
                gas += [_ga("target_temperature"), _ga("target_temperature_state")]
            mode = rng.choice(["DPT6010", "DPT6010", "DPT6010", "DPT9002", None])
            if mode:
                kw["setpoint_shift_mode"] = mode
            if rng.random() < 0.6:
                kw["temperature_step"] = rng.choice(self.STEPS)
            if rng.random() < 0.4:
                kw["setpoint_shift_min"], kw["setpoint_shift_max"] = rng.choice([[-12.8, 12.7], [-1, 1], [-3.5, 3.5], [-10, 10], [0, 5], [-30, 30]])
        else:
            gas.append(_ga("target_temperature"))
            if rng.random() < 0.5:
                gas.append(_ga("target_temperature_state"))
            if rng.random() < 0.5:
                kw["min_temp"], kw["max_temp"] = rng.choice([[7, 35], [16.5, 28.5], [None, 30], [5, None]])
                kw = {k: v for k, v in kw.items() if v is not None}
        if rng.random() < 0.3:
            gas.append(_ga("on_off"))
            kw["on_off_invert"] = rng.random() < 0.5
        if rng.random() < 0.3:
            gas.append(_ga("fan_speed"))
            if rng.random() < 0.5:
                kw["fan_speed_mode"] = rng.choice(["PERCENT", "STEP"])
        if rng.random() < 0.2:
            gas.append(_ga("swing"))
        if rng.random() < 0.2:
            gas.append(_ga("horizontal_swing"))
        return {"kw": kw, "ga": gas}

    def gen_pre(self, rng, cfg):
        pre = []
        gas = cfg["ga"]
        step = cfg["kw"].get("temperature_step", 0.1)
        if _ga("target_temperature_state") in gas and rng.random() < 0.85:
            t = rng.choice([21.0, 20.0, 22.5, 6.0, 19.3, 23.7, round(rng.uniform(5, 30), 1), round(rng.uniform(5, 30), 2)])
            pre.append([_ga("target_temperature_state"), "A:" + enc9(t)])
        if (_ga("setpoint_shift") in gas or _ga("setpoint_shift_state") in gas) and rng.random() < 0.85:
            mode = cfg["kw"].get("setpoint_shift_mode") or rng.choice(["DPT6010", "DPT9002"])
            key = _ga("setpoint_shift_state") if _ga("setpoint_shift_state") in gas else _ga("setpoint_shift")
            if mode == "DPT6010":
                pre.append([key, "A:%02x" % (rng.choice([0, 0, 1, 3, -3, 10, -20, rng.randint(-30, 30)]) & 0xFF)])
            else:
                pre.append([key, "A:" + enc9(rng.choice([0.0, 0.5, -1.0, 2.0, round(rng.uniform(-3, 3), 1)]))])
        return pre

    def gen_call(self, rng, cfg):
        gas = cfg["ga"]
        step = cfg["kw"].get("temperature_step", 0.1)
        opts = []
        if _ga("setpoint_shift") in gas or _ga("setpoint_shift_state") in gas:
            opts += ["set_setpoint_shift"] * 4 + ["set_target_temperature"] * 4
        elif _ga("target_temperature") in gas:
            opts += ["set_target_temperature"] * 4
        if _ga("on_off") in gas:
            opts += ["turn_on", "turn_off"]
        if _ga("fan_speed") in gas:
            opts += ["set_fan_speed"] * 2
        if _ga("swing") in gas:
            opts += ["set_swing"]
        if _ga("horizontal_swing") in gas:
            opts += ["set_horizontal_swing"]
        if rng.random() < 0.05 or not opts:
            opts = list(self.methods)
        m = rng.choice(opts)
        if m == "set_setpoint_shift":
            return [m, [self.shift_value(rng, step, cfg)]]
        if m == "set_target_temperature":
            c = rng.randrange(6)
            if c < 3:
                return [m, [F(round(rng.uniform(5, 32), 1))]]
            if c == 3:
                return [m, [I(rng.randint(4, 40))]]
            if c == 4:
                return [m, [F(round(rng.uniform(5, 32), 2))]]
            return [m, [F(rng.choice([rng.uniform(-10, 60), 21.05, 20.95, -274.0, 1e6, 670760.0]))]]
        if m in ("turn_on", "turn_off"):
            return [m, []]
        if m == "set_fan_speed":
            if cfg["kw"].get("fan_speed_mode") == "STEP":
                return [m, [I(rng.choice([0, 1, 2, 3, 255, 256, -1, rng.randint(0, 255)]))]]
            return [m, [num_pool(rng, 0, 100, 100 / 255)]]
        return [m, [B(rng.random() < 0.5)]]

    @staticmethod
    def shift_value(rng, step, cfg):
        smin = cfg["kw"].get("setpoint_shift_min", -6)
        smax = cfg["kw"].get("setpoint_shift_max", 6)
        c = rng.randrange(10)
        k = rng.randint(int(smin / step) - 2, int(smax / step) + 2)
        if c < 4:
            return F(k * step)                       # what a caller computes
        if c < 6:
            return F(round(k * step, 2))             # what a caller types
        if c == 6:
            return F((k + 0.5) * step)
        if c == 7:
            return F(k * step + rng.choice([0.3, 0.49, 0.51, 0.7]) * step)
        if c == 8:
            return I(rng.randint(int(smin) - 1, int(smax) + 1))
        return F(rng.choice([smin, smax, smin - step, smax + step, 12.7, 12.8, -12.8, -12.9, 100.0, rng.uniform(smin, smax)]))

    def boundary_cases(self):
        base = {"kw": {"setpoint_shift_mode": "DPT6010"}, "ga": [_ga("setpoint_shift")]}
        for k in range(-60, 61):
            yield {"cls": "Climate", "cfg": base, "pre": [], "calls": [["set_setpoint_shift", [F(k / 10)]]]}
        for step in (0.2, 0.5, 1.0, 0.25):
            for k in range(-8, 9):
                yield {"cls": "Climate", "cfg": {"kw": {"setpoint_shift_mode": "DPT6010", "temperature_step": step}, "ga": [_ga("setpoint_shift")]},
                       "pre": [], "calls": [["set_setpoint_shift", [F(k * step)]]]}
        for v in range(0, 101):
            yield {"cls": "Climate", "cfg": {"kw": {}, "ga": [_ga("fan_speed")]}, "pre": [], "calls": [["set_fan_speed", [I(v)]]]}
        cfg = {"kw": {"setpoint_shift_mode": "DPT6010"}, "ga": [_ga("setpoint_shift"), _ga("target_temperature_state")]}
        for b10 in (200, 210, 60, 193):
            for d in range(-12, 13):
                yield {"cls": "Climate", "cfg": cfg, "pre": [[_ga("target_temperature_state"), "A:" + enc9(b10 / 10)], [_ga("setpoint_shift"), "A:00"]],
                       "calls": [["set_target_temperature", [F((b10 + d) / 10)]]]}

    def observe(self, dev, clock):
        return {"target": dev.target_temperature.value, "shift": dev.setpoint_shift, "base": dev.base_temperature, "is_on": dev.is_on,
                "fan": dev.current_fan_speed, "swing": dev.current_swing, "hswing": dev.current_horizontal_swing}

    T_LO, T_HI = Fraction(-273), Fraction(670760)
    D_LO, D_HI = Fraction(-671088.64), Fraction(670760.96)

    def shift_ref(self, cfg, prev, pre, v):
        """reference for sending the (already limited) shift v"""
        mode = cfg["kw"].get("setpoint_shift_mode")
        if mode is None:
            # undetermined until a shift telegram was seen: its length decided
            seen = [p for k, p in pre if k in (_ga("setpoint_shift"), _ga("setpoint_shift_state"))]
            if not seen or prev["shift"] is None:
                return L.Ref(True, True, None, "set-point shift datapoint not determined yet")
            mode = "DPT6010" if len(seen[-1]) == 4 else "DPT9002"
        if mode == "DPT6010":
            return L.count_step_ref(Fraction(cfg["kw"].get("temperature_step", 0.1)), -128, 127, v)
        return L.dpt9_ref(self.D_LO, self.D_HI, v)

    def check(self, case, prev, m, args, rec):
        cfg, obs = case["cfg"], rec["obs"]
        gas = cfg["ga"]
        has = lambda x: _ga(x) in gas
        if m in ("turn_on", "turn_off"):
            if not has("on_off"):
                return noop(rec, prev)
            return multi(rec, [(_ga("on_off"), BoolRef(m == "turn_on", cfg["kw"].get("on_off_invert")), obs["is_on"])])
        if m in ("set_swing", "set_horizontal_swing"):
            key = "swing" if m == "set_swing" else "horizontal_swing"
            if not has(key):
                return noop(rec, prev)
            return multi(rec, [(_ga(key), BoolRef(dec(args[0])), obs["swing" if key == "swing" else "hswing"])])
        if m == "set_fan_speed":
            if not has("fan_speed"):
                return noop(rec, prev)
            ref = L.int_ref(0, 255, fr(args[0])) if cfg["kw"].get("fan_speed_mode") == "STEP" else L.scaling_ref(0, 100, fr(args[0]))
            return multi(rec, [(_ga("fan_speed"), ref, obs["fan"])])
        v = fr(args[0])
        base = prev["base"]
        if m == "set_target_temperature" and base is None:
            if not has("target_temperature"):
                return noop(rec, prev)
            if v is None:
                return None if rec["r"] != "ok" else "accepted a non-finite temperature"
            lo, hi = cfg["kw"].get("min_temp"), cfg["kw"].get("max_temp")
            w = L.clamp(v, None if lo is None else Fraction(lo), None if hi is None else Fraction(hi))
            return multi(rec, [(_ga("target_temperature"), L.dpt9_ref(self.T_LO, self.T_HI, w), obs["target"])])
        # set-point shift path
        if v is None:
            return None if rec["r"] != "ok" else "accepted a non-finite value"
        if m == "set_target_temperature":
            v = v - Fraction(base)
        smin, smax = Fraction(cfg["kw"].get("setpoint_shift_min", -6)), Fraction(cfg["kw"].get("setpoint_shift_max", 6))
        w = L.clamp(v, smin, smax)
        items = []
        if has("setpoint_shift"):
            items.append((_ga("setpoint_shift"), self.shift_ref(cfg, prev, case.get("pre", []), w), obs["shift"]))
        if has("target_temperature") and base is not None:
            items.append((_ga("target_temperature"), L.dpt9_ref(self.T_LO, self.T_HI, Fraction(base) + w), obs["target"]))
        if not items:
            return noop(rec, prev)
        return multi(rec, items)

    def model_line(self, case, recs):
        from harness.c39_drivers import near_tie, near_tie_scaling, qtok, scaling_result

        cfg = case["cfg"]
        shift_modelled = cfg["kw"].get("setpoint_shift_mode") == "DPT6010" and _ga("setpoint_shift") in cfg["ga"]
        step = Fraction(cfg["kw"].get("temperature_step", 0.1))
        smin, smax = Fraction(cfg["kw"].get("setpoint_shift_min", -6)), Fraction(cfg["kw"].get("setpoint_shift_max", 6))
        toks, exp = [], []
        prev = recs[0]["obs"]
        for (m, args), rec in zip(case["calls"], recs[1:]):
            base = prev["base"]
            prev = rec["obs"]
            if m == "set_fan_speed" and _ga("fan_speed") in cfg["ga"] and cfg["kw"].get("fan_speed_mode") != "STEP":
                a = qtok(args[0])
                if a is None or near_tie_scaling(0, 100, args[0]):
                    return None, None
                toks.append(f"sc:0:100:{a}")
                exp.append(scaling_result(rec, _ga("fan_speed"), rec["obs"]["fan"]))
                continue
            if not shift_modelled or m not in ("set_setpoint_shift", "set_target_temperature") or not L.finite(args[0]):
                continue
            if m == "set_target_temperature":
                if base is None:
                    continue
                # the float subtraction is done here (binary64 gap); the model gets the exact value of its result
                v = Fraction(dec(args[0]) - base)
            else:
                v = L.frac(args[0])
            w = L.clamp(v, smin, smax)
            if near_tie(w / step) or abs(w / step - L.rhe(w / step)) == Fraction(1, 2):
                return None, None
            q = lambda x: f"{x.numerator}/{x.denominator}"
            toks.append(f"sh:{q(step)}:{q(smin)}:{q(smax)}:{q(v)}")
            s = [x for x in rec["sent"] if x[0] == _ga("setpoint_shift")]
            if len(s) == 1:
                b = int(s[0][2][2:], 16)
                exp.append(f"ok:{b - 256 if b > 127 else b}")   # also when the target temperature object refused afterwards
            else:
                exp.append(rec["r"] if rec["r"] != "ok" else "none")
        if not toks:
            return None, None
        return "c39 " + " ".join(toks), " ".join(exp)


def enc9(v):
    """independent KNX 2-octet float encoder for pre-state payloads (smallest exponent, round half even)"""
    x = Fraction(v) * 100
    e = 0
    while not -2048 <= L.rhe(x) <= 2047:
        x /= 2
        e += 1
    m = L.rhe(x)
    data = (0x8000 if m < 0 else 0) | (e << 11) | (m & 0x7FF)
    return "%04x" % data


register(ClimateDrv())


# --------------------------------------------------------------------------
OPM = ["AUTO", "COMFORT", "STANDBY", "ECONOMY", "BUILDING_PROTECTION"]
BIN = {"comfort": "COMFORT", "standby": "STANDBY", "economy": "ECONOMY", "protection": "BUILDING_PROTECTION"}


class ClimateModeDrv(Driver):
    cls_name = "ClimateMode"
    methods = ("set_operation_mode", "set_controller_mode")
    weight = 3

    def convert_kw(self, kw):
        return kw

    def gen_cfg(self, rng):
        gas = []
        if rng.random() < 0.5:
            gas.append(_ga("operation_mode"))
            if rng.random() < 0.3:
                gas.append(_ga("operation_mode_state"))
        for b in BIN:
            if rng.random() < 0.35:
                gas.append(_ga(f"operation_mode_{b}"))
        if rng.random() < 0.3:
            gas.append(_ga("controller_status"))
            if rng.random() < 0.5:
                gas.append(_ga("controller_status_state"))
        if rng.random() < 0.4:
            gas.append(_ga("controller_mode"))
        if rng.random() < 0.4:
            gas.append(_ga("heat_cool"))
            if rng.random() < 0.3:
                gas.append(_ga("heat_cool_state"))
        if not gas:
            gas.append(_ga("operation_mode"))
        kw = {}
        if rng.random() < 0.2:
            kw["operation_modes"] = [m for m in OPM if rng.random() < 0.6]
        return {"kw": kw, "ga": gas}

    def gen_pre(self, rng, cfg):
        if _ga("controller_status") in cfg["ga"] and rng.random() < 0.7:
            key = _ga("controller_status_state") if _ga("controller_status_state") in cfg["ga"] else _ga("controller_status")
            return [[key, "A:%02x" % rng.choice([0x21, 0x80, 0x40, 0x20, 0x10, 0x90, 0xA1, 0x46])]]
        return []

    def gen_call(self, rng, cfg):
        from xknx.dpt.dpt_20 import HVACControllerMode

        if rng.random() < 0.6:
            return ["set_operation_mode", [{"t": "enum", "cls": "HVACOperationMode", "v": rng.choice(OPM)}]]
        return ["set_controller_mode", [{"t": "enum", "cls": "HVACControllerMode", "v": rng.choice([m.name for m in HVACControllerMode])}]]

    def observe(self, dev, clock):
        return {"op": dev.operation_mode.name, "ct": dev.controller_mode.name,
                "ops": sorted(m.name for m in dev.operation_modes), "cts": sorted(m.name for m in dev.controller_modes),
                "status_known": dev.remote_value_controller_status.value is not None}

    def check(self, case, prev, m, args, rec):
        want = args[0]["v"]
        key, allowed = ("op", prev["ops"]) if m == "set_operation_mode" else ("ct", prev["cts"])
        if want not in allowed:
            if rec["r"] != "illegal":
                return f"{want} is not among the configured modes {allowed} but the outcome was {rec['r']}"
            if rec["sent"] or rec["obs"][key] != prev[key]:
                return "refused as illegal but telegrams were queued or the mode changed"
            return None
        if rec["r"] == "conv":
            # the Eberle status object cannot be written before its current value is known
            if _ga("controller_status") in case["cfg"]["ga"] and not prev["status_known"]:
                return None
            return "refused a configured mode"
        if rec["r"] != "ok":
            return f"outcome {rec['r']} for a configured mode"
        if not rec["sent"]:
            return "no telegram was sent for a configured mode"
        if rec["obs"][key] != want:
            return f"reports {rec['obs'][key]} after commanding {want}; sent {[(s[0].replace('group_address_', ''), s[2]) for s in rec['sent']]}"
        return None


    def model_line(self, case, recs):
        from xknx.dpt.dpt_20 import HVACControllerMode, HVACOperationMode

        cfg = case["cfg"]
        gas = cfg["ga"]
        flags = "".join(str(int(_ga(k) in gas)) for k in ("operation_mode", "controller_mode", "controller_status", "heat_cool"))
        own = {"comfort": "COMFORT", "economy": "ECONOMY", "protection": "BUILDING_PROTECTION", "standby": "STANDBY"}
        bins = [str(HVACOperationMode[own[b]].value) for b in ("comfort", "economy", "protection", "standby") if _ga(f"operation_mode_{b}") in gas]
        filt = cfg["kw"].get("operation_modes")
        ftok = "*" if filt is None else (",".join(str(HVACOperationMode[n].value) for n in filt) or "-")
        pre = case.get("pre", [])
        ptok = str(int(pre[-1][1][2:], 16)) if pre else "-"
        calls, exp = [], []
        short = {_ga("operation_mode"): "op", _ga("controller_mode"): "ct", _ga("controller_status"): "st", _ga("heat_cool"): "hc"}
        for b, n in own.items():
            short[_ga(f"operation_mode_{b}")] = f"b{HVACOperationMode[n].value}"
        for (m, args), rec in zip(case["calls"], recs[1:]):
            if m == "set_operation_mode":
                calls.append(f"o{HVACOperationMode[args[0]['v']].value}")
            else:
                calls.append(f"c{HVACControllerMode[args[0]['v']].value}")
            tg = ",".join(f"{short.get(s[0], s[0])}={int(s[2][2:], 16)}" for s in rec["sent"]) or "-"
            exp.append(f"{rec['r']}|{tg}|{HVACOperationMode[rec['obs']['op']].value}|{HVACControllerMode[rec['obs']['ct']].value}")
        return f"c39m {flags} {','.join(bins) or '-'} {ftok} {ptok} {';'.join(calls)}", " ".join(exp)


register(ClimateModeDrv())
