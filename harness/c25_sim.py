"""
Simulated tunnel session on the virtual-time loop for C25 (connection lifecycle).

The REAL tunnel classes (UDPTunnel / TCPTunnel / SecureTunnel), the real
ConnectionHeartbeat, RequestResponse machinery, transports' frame handling and
the real ConnectionManager run unchanged.  Stubbed is only the socket layer:
`transport.connect()` installs a fake asyncio transport whose writes go to a
scripted gateway; SecureSession's crypto handshake is replaced by the same two
request/response exchanges without encryption (stub session).

Every observable step is appended to `Sim.trace` as one token
    <tag>:<label>[:arg[:arg]]
tag = the asyncio task the step ran in: c user connect, d user disconnect, s sender, r reconnect task,
h heartbeat task, i invalid-sequence timer task, k secure keepalive task, x loop callback (I/O, done callbacks).
"""
from __future__ import annotations

import asyncio

from xknx import XKNX
from xknx.cemi import CEMIFrame, CEMILData, CEMIMessageCode
from xknx.core.connection_manager import ConnectionManager
from xknx.core.connection_state import XknxConnectionState, XknxConnectionType
from xknx.exceptions import CommunicationError, IPSecureError
from xknx.io.ip_secure import SecureSession
from xknx.io.request_response import Authenticate, Session
from xknx.io.transport import KNXIPTransport, TCPTransport, UDPTransport
from xknx.io.tunnel import SecureTunnel, TCPTunnel, UDPTunnel
from xknx.knxip import (
    HPAI,
    ConnectionStateRequest,
    ConnectionStateResponse,
    ConnectRequest,
    ConnectResponse,
    ConnectResponseData,
    DisconnectRequest,
    DisconnectResponse,
    ErrorCode,
    KNXIPFrame,
    SessionAuthenticate,
    SessionRequest,
    SessionResponse,
    SessionStatus,
    TunnellingAck,
    TunnellingRequest,
)
from xknx.knxip.knxip_enum import SecureSessionStatusCode
from xknx.telegram import GroupAddress, IndividualAddress, Telegram
from xknx.telegram.apci import GroupValueWrite
from xknx.dpt import DPTBinary

from harness.vloop import VLoop

GW_ADDR = ("192.168.1.2", 3671)
STATE_CODE = {XknxConnectionState.DISCONNECTED: "D", XknxConnectionState.CONNECTING: "G",
              XknxConnectionState.CONNECTED: "C"}
N_CALLBACKS = 2


class FakeTransport:
    """Stands for the asyncio transport (socket)."""

    def __init__(self, sim, owner, tcp):
        self.sim, self.owner, self.tcp, self.closed = sim, owner, tcp, False

    def get_extra_info(self, _name):
        return ("192.168.1.1", 54321)

    def is_closing(self):
        return self.closed

    def sendto(self, data, addr=None):
        self.sim.on_write(self, data)

    def write(self, data):
        self.sim.on_write(self, data)

    def close(self):
        if self.closed:
            return
        self.closed = True
        if self.tcp:
            # asyncio schedules protocol.connection_lost for a closed stream transport
            asyncio.get_running_loop().call_soon(self._connection_lost)

    def _connection_lost(self):
        if self.owner.transport is not None:
            self.sim.trace.append("x:tl")
        self.owner._connection_lost()  # noqa: SLF001


def _mk_transport_mixin():
    class Mixin:
        __slots__ = ()

        async def _stub_connect(self, tcp):
            sim = self.sim
            sim.log("tconnect")
            # a real connect takes at least two loop iterations
            await asyncio.sleep(0)
            await asyncio.sleep(0)
            if sim.gw.take("tcfail"):
                sim.log("tconnfail")
                raise OSError("scripted connect failure")
            self.transport = FakeTransport(sim, self, tcp)
            sim.log("tconnected")

        def stop(self):
            self.sim.log("tstop:" + ("1" if self.transport is not None else "0"))
            super().stop()

    return Mixin


_Mixin = _mk_transport_mixin()


class StubUDP(_Mixin, UDPTransport):
    __slots__ = ("sim",)

    async def connect(self):
        await self._stub_connect(False)
        self.local_addr_assigned = self.getsockname()


class StubTCP(_Mixin, TCPTransport):
    __slots__ = ("sim",)

    async def connect(self):
        await self._stub_connect(True)


class StubSecure(_Mixin, SecureSession):
    """SecureSession with the handshake's two request/response exchanges but no cryptography."""

    __slots__ = ("sim",)

    def __init__(self, remote_addr, user_id, user_password, device_authentication_password=None,
                 connection_lost_cb=None):
        # as SecureSession.__init__, without the (slow, irrelevant here) password key derivation
        TCPTransport.__init__(self, remote_addr=remote_addr, connection_lost_cb=connection_lost_cb)
        self._device_authentication_code = None
        self.user_id = user_id
        self._user_password = bytes(16)
        self._sequence_number = 0
        self._sequence_number_received = -1
        self.initialized = False
        self._keepalive_task = None
        self._session_status_handler = None

    async def connect(self):
        await self._stub_connect(True)
        self._sequence_number = 0
        self._sequence_number_received = -1
        session_response = await Session(transport=self, ecdh_client_public_key=bytes(32)).request()
        self.session_id = session_response.secure_session_id
        self.initialized = True
        authentication_response = await Authenticate(
            transport=self, user_id=self.user_id, message_authentication_code=bytes(16)).request()
        if authentication_response.status != SecureSessionStatusCode.STATUS_AUTHENTICATION_SUCCESS:
            raise IPSecureError("Secure session authentication failed")
        self._session_status_handler = self.register_callback(
            self._handle_session_status, [SessionStatus.SERVICE_TYPE])

    def send(self, knxipframe, addr=None):
        if self.initialized:
            self.start_keepalive_task()
        elif not isinstance(knxipframe.body, SessionRequest):
            raise IPSecureError("Only SessionRequest may be sent unencrypted over a secure session")
        TCPTransport.send(self, knxipframe, addr)

    def handle_knxipframe(self, knxipframe, source):
        if not self.initialized and not isinstance(knxipframe.body, SessionResponse):
            return
        KNXIPTransport.handle_knxipframe(self, knxipframe, source)


def _mk_tunnel(base, transport_cls):
    class VTunnel(base):
        __slots__ = ("sim",)

        def _init_transport(self):
            if transport_cls is StubUDP:
                self.transport = StubUDP(local_addr=("192.168.1.1", 0), remote_addr=GW_ADDR)
            elif transport_cls is StubTCP:
                self.transport = StubTCP(remote_addr=GW_ADDR, connection_lost_cb=self._tunnel_lost)
            else:
                self.transport = StubSecure(remote_addr=GW_ADDR, user_id=2, user_password="x",
                                            connection_lost_cb=self._tunnel_lost)
            self.transport.sim = _CURRENT[0]

        # --- behaviour-preserving observation points -------------------------------------
        async def connect(self):
            self.sim.log("cstart")
            await super().connect()

        def _tunnel_established(self):
            self.sim.log(f"estab:{self.communication_channel}")
            super()._tunnel_established()

        def _tunnel_lost(self):
            self.sim.log("lost")
            super()._tunnel_lost()

        def _prepare_disconnect(self):
            self.sim.log("prep")
            super()._prepare_disconnect()

        async def disconnect(self):
            self.sim.log("dstart")
            await super().disconnect()

        async def _heartbeat_failed(self):
            self.sim.log("hbfailed")
            await super()._heartbeat_failed()

        async def _reconnect(self):
            rid = self.sim.task_id(asyncio.current_task())
            try:
                await super()._reconnect()
            finally:
                self.sim.log(f"rfin:{rid}")

    return VTunnel


_CURRENT = [None]
VUDPTunnel = _mk_tunnel(UDPTunnel, StubUDP)
VTCPTunnel = _mk_tunnel(TCPTunnel, StubTCP)
VSecureTunnel = _mk_tunnel(SecureTunnel, StubSecure)


class VCM(ConnectionManager):
    __slots__ = ("sim",)

    def connection_state_changed(self, state, connection_type=XknxConnectionType.NOT_CONNECTED):
        self.sim.log("notify:" + STATE_CODE[state])
        return super().connection_state_changed(state, connection_type)


class Gateway:
    """Scripted KNX/IP tunnelling server."""

    def __init__(self, sim):
        self.sim = sim
        self.next_ch = 7
        self.last_ch = None
        self.budget = {}  # behaviour -> remaining count (see EVENTS)

    def take(self, what):
        n = self.budget.get(what, 0)
        if n:
            self.budget[what] = n - 1
            return True
        return False

    def on_frame(self, ft, frame):
        body = frame.body
        r = None
        if isinstance(body, ConnectRequest):
            if self.take("cmute"):
                return
            if self.take("cerr"):
                # error ConnectResponse: header + channel 0 + E_NO_MORE_CONNECTIONS (to_knx() cannot build it)
                asyncio.get_running_loop().call_soon(self.sim.deliver, ft, bytes.fromhex("061002060008 00 24"))
                return
            else:
                ch = self.next_ch
                self.next_ch += 1
                self.last_ch = ch
                r = ConnectResponse(communication_channel=ch, data_endpoint=HPAI(*GW_ADDR),
                                    crd=ConnectResponseData(individual_address=IndividualAddress("1.1.250")))
        elif isinstance(body, ConnectionStateRequest):
            if self.take("hbmute"):
                return
            ok = body.communication_channel_id == self.last_ch
            r = ConnectionStateResponse(communication_channel_id=body.communication_channel_id,
                                        status_code=ErrorCode.E_NO_ERROR if ok else ErrorCode.E_CONNECTION_ID)
        elif isinstance(body, DisconnectRequest):
            if body.communication_channel_id == self.last_ch:
                self.last_ch = None
            if self.take("dmute"):
                return
            r = DisconnectResponse(communication_channel_id=body.communication_channel_id)
        elif isinstance(body, TunnellingRequest):
            if ft.tcp or self.take("ackmute"):
                return
            r = TunnellingAck(communication_channel_id=body.communication_channel_id,
                              sequence_counter=body.sequence_counter)
        elif isinstance(body, SessionRequest):
            if self.take("smute"):
                return
            r = SessionResponse(secure_session_id=1, ecdh_server_public_key=bytes(32),
                                message_authentication_code=bytes(16))
        elif isinstance(body, SessionAuthenticate):
            r = SessionStatus(status=SecureSessionStatusCode.STATUS_AUTHENTICATION_SUCCESS)
        if r is not None:
            raw = KNXIPFrame.init_from_body(r).to_knx()
            asyncio.get_running_loop().call_soon(self.sim.deliver, ft, raw)


FRAME_CODE = {
    "ConnectRequest": "creq", "ConnectionStateRequest": "csreq", "DisconnectRequest": "dreq",
    "DisconnectResponse": "dresp", "TunnellingRequest": "treq", "TunnellingAck": "tack",
    "SessionRequest": "sreq", "SessionAuthenticate": "sauth", "SessionStatus": "sstat",
    "ConnectResponse": "cresp", "ConnectionStateResponse": "csresp", "SessionResponse": "sresp",
}

TASK_TAGS = (("_schedule_tunnel_lost", "i", "invseq"), ("._reconnect", "r", "reconnect"),
             ("ConnectionHeartbeat._run", "h", "heartbeat"), ("_session_keepalive", "k", "keepalive"))

# injectable failure events: name -> kinds it applies to
EVENTS = {
    "SD1": "UTS",   # server DisconnectRequest for the channel the gateway assigned last
    "SD0": "UTS",   # server DisconnectRequest for a foreign channel
    "TL": "TS",     # transport lost (peer closed the stream)
    "HBM": "UTS",   # gateway stops answering the next 4 ConnectionStateRequests -> heartbeat failure
    "ACKM": "U",    # gateway does not acknowledge the next 2 TunnellingRequests -> send failed twice
    "BS": "U",      # TunnellingRequest with an unexpected sequence counter -> invalid-sequence timer
    "GS": "U",      # TunnellingRequest with the expected sequence counter (cancels that timer)
    "CF": "UTS",    # next ConnectRequest is answered with an error status
    "CM": "UTS",    # next ConnectRequest is not answered
    "TF": "UTS",    # next transport connect fails (OSError)
    "DM": "UTS",    # next DisconnectRequest is not answered
    "UD": "UTS",    # the user calls disconnect()
    "SC": "S",      # secure session status CLOSE from the server
    "SND": "UTS",   # an additional send_cemi
}
KIND_LETTER = {"udp": "U", "tcp": "T", "secure": "S"}


def test_cemi():
    return CEMIFrame(code=CEMIMessageCode.L_DATA_REQ, data=CEMILData.init_from_telegram(
        Telegram(destination_address=GroupAddress("1/2/3"), payload=GroupValueWrite(DPTBinary(1))),
        src_addr=IndividualAddress("1.1.250")))


class Sim:
    def __init__(self, kind, auto, schedule, n_callbacks=N_CALLBACKS, horizon=320.0):
        self.kind, self.auto = kind, auto
        self.schedule = {}
        for b, ev in schedule:
            self.schedule.setdefault(int(b), []).append(ev)
        self.trace = []
        self.tasks = {}       # task -> (tag, kindname, id)
        self.kind_count = {}
        self.boundary = 0
        self.boundaries_active = False
        self.injected = []
        self.user_disc = "no"  # no | running | done
        self.frames_after_disc = []
        self.horizon = horizon
        self.n_callbacks = n_callbacks
        self.rx_seq = 0       # sequence counter the client expects next on received tunnelling requests
        self.extra_tasks = []
        self.inject_pending = 0
        self.cb_log = [[] for _ in range(n_callbacks)]
        self.times = None

    # ---- observation -------------------------------------------------------------------
    def tag(self):
        try:
            t = asyncio.current_task()
        except RuntimeError:
            t = None
        if t is None:
            return "x"
        return self.tasks.get(t, ("x",))[0]

    def task_id(self, t):
        return self.tasks[t][2]

    def log(self, label):
        self.trace.append(f"{self.tag()}:{label}")
        if self.times is not None:
            self.times.append(round(asyncio.get_event_loop().time() - 1000.0, 3))

    def task_factory(self, loop, coro, **kw):
        t = asyncio.Task(coro, loop=loop, **kw)
        qn = getattr(coro, "__qualname__", "")
        forced = getattr(self, "_next_tag", None)
        if forced:
            self._next_tag = None
            self.tasks[t] = (forced, "user", 0)
            return t
        for pat, tag, name in TASK_TAGS:
            if pat in qn:
                n = self.kind_count.get(name, 0)
                self.kind_count[name] = n + 1
                live = sum(1 for tt, (_, nm, _) in self.tasks.items() if nm == name and not tt.done())
                self.tasks[t] = (tag, name, n)
                if name != "keepalive":
                    self.log(f"new:{name}:{n}:{live}")
                    t.add_done_callback(self._task_done)
                break
        return t

    def _task_done(self, t):
        tag, name, n = self.tasks[t]
        how = "c" if t.cancelled() else ("e" if t.exception() is not None else "o")
        self.trace.append(f"x:end:{name}:{n}:{how}")

    def spawn(self, tag, coro):
        self._next_tag = tag
        t = asyncio.get_running_loop().create_task(coro)
        return t

    # ---- transport side ----------------------------------------------------------------
    def on_write(self, ft, data):
        frame, _ = KNXIPFrame.from_knx(bytes(data))
        code = FRAME_CODE.get(type(frame.body).__name__, "other")
        arg = ""
        if isinstance(frame.body, SessionStatus):
            code = {SecureSessionStatusCode.STATUS_CLOSE: "sclose",
                    SecureSessionStatusCode.STATUS_KEEPALIVE: "skeep"}.get(frame.body.status, "sstat")
        if hasattr(frame.body, "communication_channel_id"):
            arg = f":{frame.body.communication_channel_id}"
        self.log(f"frame:{code}{arg}")
        if self.user_disc == "done":
            self.frames_after_disc.append(code)
        if not ft.closed:
            self.gw.on_frame(ft, frame)

    def deliver(self, ft, raw, note=""):
        """A frame arrives from the gateway (loop callback)."""
        tr = self.tunnel.transport
        if tr.transport is not ft or ft.closed:
            return False
        frame, _ = KNXIPFrame.from_knx(raw)
        code = FRAME_CODE.get(type(frame.body).__name__, "other")
        body = frame.body
        arg = ""
        if isinstance(body, ConnectResponse):
            arg = f":{body.communication_channel}" if body.status_code == ErrorCode.E_NO_ERROR else ":err"
        elif isinstance(body, DisconnectRequest):
            arg = f":{body.communication_channel_id}"
        elif isinstance(body, ConnectionStateResponse):
            arg = ":ok" if body.status_code == ErrorCode.E_NO_ERROR else ":err"
        elif isinstance(body, SessionStatus):
            code = "sclose" if body.status == SecureSessionStatusCode.STATUS_CLOSE else "sstat"
        if self.kind == "secure" and not tr.initialized and not isinstance(body, SessionResponse):
            code, arg, note = "drop", "", ""  # the session discards plain frames before it is initialized
        self.trace.append(f"x:rx:{code}{arg}{note}")
        if ft.tcp:
            tr.data_received_callback(raw)
        else:
            tr.data_received_callback(raw, GW_ADDR)
        return True

    # ---- failure injection -------------------------------------------------------------
    def on_boundary(self, loop):
        if not self.boundaries_active:
            return
        b = self.boundary
        self.boundary += 1
        for ev in self.schedule.get(b, ()):
            loop.call_soon(self.inject, ev, b)

    def inject(self, ev, b):
        tun, tr, gw = self.tunnel, self.tunnel.transport, self.gw
        ft = tr.transport
        done = True
        if ev in ("SD1", "SD0"):
            ch = gw.last_ch if ev == "SD1" else 99
            if ft is None or ch is None:
                done = False
            else:
                if ev == "SD1":
                    gw.last_ch = None
                raw = KNXIPFrame.init_from_body(DisconnectRequest(communication_channel_id=ch,
                                                                  control_endpoint=HPAI(*GW_ADDR))).to_knx()
                done = self.deliver(ft, raw)
        elif ev == "TL":
            if ft is None or not ft.tcp:
                done = False
            else:
                ft.closed = True
                self.trace.append("x:tl")
                tr._connection_lost()  # noqa: SLF001  what protocol.connection_lost does
        elif ev == "HBM":
            gw.budget["hbmute"] = 4
        elif ev == "ACKM":
            gw.budget["ackmute"] = 2
        elif ev in ("BS", "GS"):
            if ft is None or tun.communication_channel is None:
                done = False
            else:
                exp = tun._sequence.expected  # noqa: SLF001
                seq = exp if ev == "GS" else (exp + 5) & 0xFF
                raw = KNXIPFrame.init_from_body(TunnellingRequest(
                    communication_channel_id=tun.communication_channel, sequence_counter=seq,
                    raw_cemi=bytes.fromhex("2900bcd011162916030080"))).to_knx()
                done = self.deliver(ft, raw, ":" + ("good" if ev == "GS" else "bad"))
        elif ev == "CF":
            gw.budget["cerr"] = 1
        elif ev == "CM":
            gw.budget["cmute"] = 1
        elif ev == "TF":
            gw.budget["tcfail"] = 1
        elif ev == "DM":
            gw.budget["dmute"] = 1
        elif ev == "SC":
            if ft is None or not getattr(tr, "initialized", False):
                done = False
            else:
                raw = KNXIPFrame.init_from_body(SessionStatus(status=SecureSessionStatusCode.STATUS_CLOSE)).to_knx()
                done = self.deliver(ft, raw)
        elif ev == "UD":
            if self.user_disc != "no" or not self.connect_returned:
                done = False
            else:
                self.extra_tasks.append(self.spawn("d", self.user_disconnect()))
        elif ev == "SND":
            self.extra_tasks.append(self.spawn("s", self.send(9)))
        if done:
            self.injected.append((b, ev))

    # ---- user-side actions -------------------------------------------------------------
    async def user_connect(self):
        try:
            await self.tunnel.connect()
            self.log("ret:connect:ok")
        except CommunicationError:
            self.log("ret:connect:err")
        self.connect_returned = True

    async def user_disconnect(self):
        if self.user_disc != "no":
            return
        self.user_disc = "running"
        try:
            await self.tunnel.disconnect()
        finally:
            self.user_disc = "done"
            self.log("ret:disconnect")

    async def send(self, n):
        try:
            await self.tunnel.send_cemi(test_cemi())
            self.log(f"ret:send{n}:ok")
        except CommunicationError:
            self.log(f"ret:send{n}:err")

    def probe(self):
        cm = self.xknx.connection_manager
        tun = self.tunnel
        hb = tun._heartbeat._task  # noqa: SLF001
        est = (tun.communication_channel is not None and tun.transport.transport is not None
               and hb is not None and not hb.done())
        self.trace.append(f"x:probe:{int(cm.connected.is_set())}:{STATE_CODE[cm.state]}:{int(est)}")

    async def session(self, loop):
        _CURRENT[0] = self
        loop.set_task_factory(self.task_factory)
        loop.on_boundary = self.on_boundary
        self.xknx = XKNX()
        cm = VCM()
        cm.sim = self
        self.xknx.connection_manager = cm
        for i in range(self.n_callbacks):
            cm.register_connection_state_changed_cb(
                lambda s, i=i: (self.trace.append(f"{self.tag()}:cb:{i}:{STATE_CODE[s]}"), self.cb_log[i].append(STATE_CODE[s])))
        self.gw = Gateway(self)
        self.connect_returned = False
        common = dict(cemi_received_callback=lambda raw: None, gateway_ip=GW_ADDR[0], gateway_port=GW_ADDR[1],
                      auto_reconnect=self.auto, auto_reconnect_wait=3)
        if self.kind == "udp":
            self.tunnel = VUDPTunnel(self.xknx, local_ip="192.168.1.1", **common)
        elif self.kind == "tcp":
            self.tunnel = VTCPTunnel(self.xknx, **common)
        else:
            self.tunnel = VSecureTunnel(self.xknx, user_id=2, user_password="x", **common)
        self.tunnel.sim = self
        t0 = loop.time()
        self.boundaries_active = True
        await self.spawn("c", self.user_connect())
        await loop.settle()
        self.probe()
        s1 = self.spawn("s", self.send(1))
        await asyncio.sleep(0.5)
        s2 = self.spawn("s", self.send(2))
        await asyncio.gather(s1, s2)
        await loop.settle()
        self.probe()
        # two heartbeat cycles
        await asyncio.sleep(max(0.0, t0 + 150.0 - loop.time()))
        await loop.settle()
        self.probe()
        d = self.spawn("d", self.user_disconnect())
        await d
        if self.extra_tasks:
            await asyncio.gather(*self.extra_tasks)
        self.trace.append("x:closed")
        await asyncio.sleep(max(0.0, t0 + self.horizon - loop.time()))
        await loop.settle()
        self.boundaries_active = False
        self.probe()
        me = asyncio.current_task()
        live = sorted(self.tasks.get(t, ("?", "other", 0))[1] for t in asyncio.all_tasks(loop)
                      if t is not me and not t.done())
        self.live_tasks = live
        self.trace.append("x:live:" + (",".join(live) if live else "-"))
        return self.trace


def run_session(kind, auto, schedule, **kw):
    from harness import vloop
    sim = Sim(kind, auto, schedule, **kw)

    async def main(loop):
        loop.max_iterations = 50_000
        return await sim.session(loop)

    try:
        vloop.run(main)
    finally:
        _CURRENT[0] = None
    return sim
