"""
Stub UDP transport + scripted gateway shared by the tunnel properties (C23, C24).

xknx classes use __slots__, so nothing is patched on instances: `StubUDP`
subclasses the real `UDPTransport` and only replaces the asyncio datagram
endpoint (`connect`) by `FakeDatagram`, an object with `sendto/close/
get_extra_info`. Everything above the socket is the real code: frames are
serialised by `KNXIPFrame.to_knx()`, handed to `FakeDatagram.sendto` as bytes,
parsed back for the log; the gateway's frames are injected as bytes through
the real `data_received_callback`.
"""
from __future__ import annotations

import asyncio

from xknx.io.transport import UDPTransport
from xknx.knxip import (
    HPAI,
    ConnectionStateRequest,
    ConnectionStateResponse,
    ConnectRequest,
    ConnectResponse,
    ConnectResponseData,
    DisconnectRequest,
    DisconnectResponse,
    KNXIPFrame,
)
from xknx.knxip.knxip_enum import ConnectRequestType
from xknx.telegram import IndividualAddress

GW = ("192.168.1.2", 3671)
LOCAL = ("192.168.1.1", 12345)


class FakeDatagram:
    """Stands in for asyncio.DatagramTransport."""

    def __init__(self, owner):
        self.owner = owner
        self.closed = False

    def sendto(self, data, addr=None):
        self.owner.on_sent(bytes(data), addr)

    def close(self):
        self.closed = True

    def is_closing(self):
        return self.closed

    def get_extra_info(self, key, default=None):
        return LOCAL if key == "sockname" else default


class StubUDP(UDPTransport):
    """Real UDPTransport with the socket replaced; `gateway` is called with every frame sent."""

    __slots__ = ("gateway", "sent_raw")

    def __init__(self, gateway=None):
        super().__init__(local_addr=("192.168.1.1", 0), remote_addr=GW, multicast=False)
        self.gateway = gateway
        self.sent_raw = []

    async def connect(self):
        self.transport = FakeDatagram(self)
        self.local_addr_assigned = self.getsockname()

    def on_sent(self, data, addr):
        self.sent_raw.append((data, addr))
        frame, _ = KNXIPFrame.from_knx(data)
        if self.gateway is not None:
            self.gateway(frame, addr)

    def inject(self, frame_or_body):
        """Deliver a frame from the gateway, as bytes, through the real receive path."""
        frame = frame_or_body if isinstance(frame_or_body, KNXIPFrame) else KNXIPFrame.init_from_body(frame_or_body)
        self.data_received_callback(frame.to_knx(), GW)


class Gateway:
    """Answers the control-endpoint services; data services are left to the property's script."""

    def __init__(self, transport: StubUDP, on_data=None):
        self.transport = transport
        transport.gateway = self.handle
        self.next_channel = 1
        self.on_data = on_data  # callback(frame, addr) for everything not handled here
        self.answer_connect = True
        self.answer_disconnect = True
        self.answer_state = True
        self.connects = 0
        self.connect_delay = None  # optional callable(n_th_connect) -> seconds the ConnectResponse is delayed
        # timing hooks (C23 round 4): called in the SAME loop callback right after a ConnectResponse was delivered
        # (= further datagrams of the same batch), and one callback before the DisconnectResponse is delivered
        self.after_connect_response = None
        self.on_disconnect_request = None

    def _later(self, body, delay=0.0):
        loop = asyncio.get_running_loop()
        if delay:
            # a datagram arriving while the socket is closed is lost
            loop.call_later(delay, lambda: self.transport.transport is not None and self.transport.inject(body))
        else:
            loop.call_soon(self.transport.inject, body)

    def handle(self, frame, addr):
        b = frame.body
        if isinstance(b, ConnectRequest):
            self.connects += 1
            if self.answer_connect:
                mgmt = b.cri.connection_type is ConnectRequestType.DEVICE_MGMT_CONNECTION
                crd = ConnectResponseData(
                    request_type=b.cri.connection_type,
                    individual_address=None if mgmt else IndividualAddress(7),
                )
                delay = self.connect_delay(self.connects) if self.connect_delay else 0.0
                resp = ConnectResponse(communication_channel=self.next_channel,
                                       data_endpoint=HPAI() if b.data_endpoint.route_back else HPAI(*GW), crd=crd)
                if self.after_connect_response is not None and not delay:
                    def batch(resp=resp):
                        self.transport.inject(resp)
                        hook = self.after_connect_response
                        if hook is not None:
                            hook()
                    asyncio.get_running_loop().call_soon(batch)
                else:
                    self._later(resp, delay)
        elif isinstance(b, DisconnectRequest):
            if self.on_disconnect_request is not None:
                asyncio.get_running_loop().call_soon(self.on_disconnect_request)
            if self.answer_disconnect:
                self._later(DisconnectResponse(communication_channel_id=b.communication_channel_id))
        elif isinstance(b, ConnectionStateRequest):
            if self.answer_state:
                self._later(ConnectionStateResponse(communication_channel_id=b.communication_channel_id))
        elif self.on_data is not None:
            self.on_data(frame, addr)
