"""C39 two- and three-step sequences on the SAME device: a command (or an incoming state telegram) establishes a non-default
prior value and is looped back, then the command under test follows - with emphasis on falsy targets (0, 0.0, False, "",
brightness 0, position 0, speed 0, midnight, None components of colour values) and on partial updates (only colour / only
brightness).  The oracle is the one of the single-step cases: after every loop-back the device reports the LAST request."""
from __future__ import annotations

from harness.c39_lib import B, F, I, N

G = "group_address_"


def force(cfg, add=(), drop=()):
    gas = [p for p in cfg["ga"] if p not in drop]
    for p in add:
        if p not in gas:
            gas.append(p)
    return {"kw": dict(cfg["kw"]), "ga": gas}


def tup(*xs):
    return {"t": "tuple", "v": list(xs)}


def xyy(col, br):
    return {"t": "xyy", "color": N() if col is None else tup(F(col[0]), F(col[1])), "brightness": N() if br is None else I(br)}


def _case(name, cfg, calls, pre=()):
    return {"cls": name, "cfg": cfg, "pre": [list(p) for p in pre], "calls": calls}


def nz(rng, lo, hi):
    """a non-zero integer of the range"""
    return rng.randint(max(lo, 1), hi)


def zero(rng):
    return rng.choice([I(0), I(0), F(0.0), F(-0.0)])


def third(rng, calls, again):
    """sometimes a third step: set a non-default value again, or repeat the falsy one"""
    r = rng.random()
    if r < 0.2:
        return calls + [again]
    if r < 0.3:
        return calls + [calls[-1]]
    return calls


def switch(rng, drv):
    cfg = force(drv.gen_cfg(rng), add=["group_address"])
    pre = [["group_address_state", "B:1"]] if "group_address_state" in cfg["ga"] and rng.random() < 0.5 else []
    calls = rng.choice([["set_on", "set_off"], ["set_off", "set_on"], ["set_on", "set_off", "set_on"], ["set_on", "set_on", "set_off"]])
    return _case("Switch", cfg, [[c, []] for c in calls], pre)


def scene(rng, drv):
    return _case("Scene", drv.gen_cfg(rng), [[c, []] for c in rng.choice([["learn", "run"], ["run", "learn", "run"]])])


def fan(rng, drv):
    cfg = drv.gen_cfg(rng)
    ms = cfg["kw"].get("max_step")
    hi = ms if ms else 100
    k = rng.randrange(5)
    if k == 0:
        calls = [["set_speed", [I(nz(rng, 1, hi))]], ["set_speed", [zero(rng)]]]
        calls = third(rng, calls, ["set_speed", [I(nz(rng, 1, hi))]])
    elif k == 1:
        calls = [["turn_on", [] if rng.random() < 0.5 else [I(nz(rng, 1, hi))]], ["turn_off", []]]
        calls = third(rng, calls, ["turn_on", []])
    elif k == 2:
        calls = [["turn_on", [I(nz(rng, 1, hi))]], ["turn_on", [I(0)]]]
    elif k == 3:
        cfg = force(cfg, add=[G + "oscillation"])
        calls = [["set_oscillation", [B(True)]], ["set_oscillation", [B(False)]]]
        calls = third(rng, calls, ["set_oscillation", [B(True)]])
    else:
        calls = [["set_speed", [I(nz(rng, 1, hi))]], ["turn_off", []], ["turn_on", []]]
    return _case("Fan", cfg, calls)


def cover(rng, drv):
    cfg = drv.gen_cfg(rng)
    k = rng.randrange(4)
    pre = []
    if k == 0:
        cfg = force(cfg, add=[G + "position"])
        if G + "position_state" in cfg["ga"] and rng.random() < 0.5:
            pre = [[G + "position_state", "A:%02x" % rng.randint(1, 255)]]
        calls = [["set_position", [I(nz(rng, 1, 100))]], ["set_position", [rng.choice([zero(rng), I(100)])]]]
        calls = third(rng, calls, ["set_position", [I(nz(rng, 1, 99))]])
    elif k == 1:
        cfg = force(cfg, add=[G + "angle"])
        if G + "angle_state" in cfg["ga"] and rng.random() < 0.5:
            pre = [[G + "angle_state", "A:%02x" % rng.randint(1, 255)]]
        calls = [["set_angle", [I(nz(rng, 1, 100))]], ["set_angle", [zero(rng)]]]
        calls = third(rng, calls, ["set_angle", [I(nz(rng, 1, 100))]])
    elif k == 2:
        cfg = force(cfg, add=[G + "long"], drop=[G + "position"])
        calls = [["set_down", []], ["set_position", [I(0)]], ["set_position", [I(nz(rng, 1, 99))]], ["set_position", [I(0)]]][: rng.randint(2, 4)]
    else:
        calls = [[rng.choice(["set_down", "set_up"]), []], [rng.choice(["set_up", "set_down"]), []]]
        if G + "position" in cfg["ga"]:
            calls.append(["set_position", [zero(rng)]])
    return _case("Cover", cfg, calls, pre)


def light(rng, drv):
    cfg = drv.gen_cfg(rng)
    col = lambda: (round(rng.random(), 4), round(rng.random(), 4))
    comp = lambda: I(nz(rng, 1, 255))
    k = rng.choice(["xyy"] * 5 + ["brightness", "tw", "hs", "hs", "color", "rgbw", "individual", "individual", "ct", "onoff"])
    pre = []
    if k == "xyy":
        cfg = force(cfg, add=[G + "xyy_color"])
        c0 = col()
        first = rng.choice([xyy(c0, nz(rng, 1, 255)), xyy(c0, nz(rng, 1, 255)), xyy(None, nz(rng, 1, 255)), xyy(c0, None)])
        if G + "xyy_color_state" in cfg["ga"] and rng.random() < 0.3:
            pre = [[G + "xyy_color_state", "A:%04x%04x%02x03" % (rng.randrange(65536), rng.randrange(65536), rng.randint(1, 255))]]
        second = rng.choice([xyy(c0, 0), xyy(col(), 0), xyy(None, 0), xyy((0.0, 0.0), None), xyy((0.0, 0.0), 0), xyy(col(), None),
                             xyy(None, nz(rng, 1, 255)), xyy((0.0, rng.random()), 0)])
        calls = [["set_xyy_color", [first]], ["set_xyy_color", [second]]]
        calls = third(rng, calls, ["set_xyy_color", [rng.choice([xyy(None, 0), xyy(col(), nz(rng, 1, 255)), xyy(None, nz(rng, 1, 255))])]])
    elif k in ("brightness", "tw"):
        key, m = ("brightness", "set_brightness") if k == "brightness" else ("tunable_white", "set_tunable_white")
        cfg = force(cfg, add=[G + key])
        if G + key + "_state" in cfg["ga"] and rng.random() < 0.4:
            pre = [[G + key + "_state", "A:%02x" % rng.randint(1, 255)]]
        calls = [[m, [comp()]], [m, [zero(rng)]]]
        calls = third(rng, calls, [m, [comp()]])
    elif k == "hs":
        cfg = force(cfg, add=[G + "hue", G + "saturation"])
        h, s = rng.randint(1, 360), rng.randint(1, 100)
        second = rng.choice([tup(I(0), I(0)), tup(F(0.0), F(0.0)), tup(I(h), I(0)), tup(I(0), I(s)), tup(I(0), I(rng.randint(1, 100)))])
        calls = [["set_hs_color", [tup(I(h), I(s))]], ["set_hs_color", [second]]]
        calls = third(rng, calls, ["set_hs_color", [tup(I(rng.randint(1, 360)), I(rng.randint(1, 100)))]])
    elif k == "color":
        cfg = force(cfg, add=[G + "color"], drop=[G + "rgbw", G + "rgbw_state"])
        second = rng.choice([tup(I(0), I(0), I(0)), tup(comp(), I(0), I(0)), tup(I(0), comp(), comp())])
        calls = [["set_color", [tup(comp(), comp(), comp())]], ["set_color", [second]]]
        calls = third(rng, calls, ["set_color", [tup(comp(), comp(), comp())]])
    elif k == "rgbw":
        cfg = force(cfg, add=[G + "rgbw"])
        second = rng.choice([[tup(I(0), I(0), I(0)), I(0)], [tup(comp(), comp(), comp()), I(0)], [tup(I(0), I(0), I(0)), comp()],
                             [tup(I(0), comp(), I(0)), I(0)]])
        calls = [["set_color", [tup(comp(), comp(), comp()), comp()]], ["set_color", second]]
        calls = third(rng, calls, ["set_color", [tup(comp(), comp(), comp()), comp()]])
    elif k == "individual":
        four = rng.random() < 0.5
        cols = ("red", "green", "blue", "white") if four else ("red", "green", "blue")
        cfg = force(cfg, add=[G + f"brightness_{c}" for c in cols],
                    drop=[G + "rgbw", G + "rgbw_state", G + "color", G + "color_state", G + "switch", G + "switch_state"]
                    + ([] if four else [G + "brightness_white", G + "switch_white", G + "brightness_white_state"]))
        if four:
            a = ["set_color", [tup(comp(), comp(), comp()), comp()]]
            b = ["set_color", rng.choice([[tup(I(0), I(0), I(0)), I(0)], [tup(comp(), I(0), comp()), I(0)], [tup(I(0), I(0), I(0)), comp()]])]
        else:
            a = ["set_color", [tup(comp(), comp(), comp())]]
            b = ["set_color", [rng.choice([tup(I(0), I(0), I(0)), tup(I(0), comp(), I(0))])]]
        calls = rng.choice([[a, b], [["set_on", []], ["set_off", []]], [a, ["set_off", []], ["set_on", []]], [["set_on", []], b, a]])
    elif k == "ct":
        cfg = force(cfg, add=[G + "color_temperature"])
        v = F(float(rng.randint(2000, 6500))) if cfg["kw"].get("color_temperature_type") == "FLOAT_2_BYTE" else I(rng.randint(2000, 6500))
        calls = [["set_color_temperature", [v]], ["set_color_temperature", [zero(rng) if v["t"] == "float" else I(0)]]]
    else:
        cfg = force(cfg, add=[G + "switch"])
        calls = [[c, []] for c in rng.choice([["set_on", "set_off"], ["set_off", "set_on"], ["set_on", "set_off", "set_on"]])]
    return _case("Light", cfg, calls, pre)


def climate(rng, drv):
    from harness.c39_drivers2 import enc9

    cfg = drv.gen_cfg(rng)
    k = rng.randrange(6)
    pre = drv.gen_pre(rng, cfg)
    if k == 0:
        cfg = force(cfg, add=[G + "setpoint_shift"])
        cfg["kw"].setdefault("setpoint_shift_mode", rng.choice(["DPT6010", "DPT9002"]))
        step = cfg["kw"].get("temperature_step", 0.1)
        pre = drv.gen_pre(rng, cfg)
        n = rng.choice([1, 2, 3, 5, -1, -4])
        calls = [["set_setpoint_shift", [F(n * step)]], ["set_setpoint_shift", [zero(rng)]]]
        calls = third(rng, calls, ["set_setpoint_shift", [F(-n * step)]])
    elif k == 1:
        # target temperature through the base temperature: shift away, then back to the base (shift 0)
        cfg = force(cfg, add=[G + "setpoint_shift", G + "target_temperature_state"])
        cfg["kw"].setdefault("setpoint_shift_mode", "DPT6010")
        base = rng.choice([20.0, 21.0, 6.0, 19.5, 22.0])
        key = G + "setpoint_shift_state" if G + "setpoint_shift_state" in cfg["ga"] else G + "setpoint_shift"
        zero_shift = "A:00" if cfg["kw"]["setpoint_shift_mode"] == "DPT6010" else "A:0000"
        pre = [[G + "target_temperature_state", "A:" + enc9(base)], [key, zero_shift]]
        step = cfg["kw"].get("temperature_step", 0.1)
        calls = [["set_target_temperature", [F(base + rng.choice([1, 2, 3, -2]) * step)]], ["set_target_temperature", [F(base)]]]
    elif k == 2:
        cfg = force(cfg, add=[G + "target_temperature"], drop=[G + "setpoint_shift", G + "setpoint_shift_state"])
        cfg["kw"].pop("min_temp", None)
        pre = [p for p in pre if "setpoint" not in p[0]]
        calls = [["set_target_temperature", [F(rng.choice([21.5, 7.0, 30.0]))]], ["set_target_temperature", [zero(rng)]]]
    elif k == 3:
        cfg = force(cfg, add=[G + "fan_speed"])
        hi = 255 if cfg["kw"].get("fan_speed_mode") == "STEP" else 100
        calls = [["set_fan_speed", [I(nz(rng, 1, hi))]], ["set_fan_speed", [I(0)]]]
        calls = third(rng, calls, ["set_fan_speed", [I(nz(rng, 1, hi))]])
    elif k == 4:
        cfg = force(cfg, add=[G + "on_off"])
        calls = [[c, []] for c in rng.choice([["turn_on", "turn_off"], ["turn_off", "turn_on"], ["turn_on", "turn_off", "turn_on"]])]
    else:
        key, m = rng.choice([("swing", "set_swing"), ("horizontal_swing", "set_horizontal_swing")])
        cfg = force(cfg, add=[G + key])
        calls = [[m, [B(True)]], [m, [B(False)]]]
        calls = third(rng, calls, [m, [B(True)]])
    return _case("Climate", cfg, calls, pre)


def climate_mode(rng, drv):
    cfg = drv.gen_cfg(rng)
    pre = drv.gen_pre(rng, cfg)
    op = lambda n: ["set_operation_mode", [{"t": "enum", "cls": "HVACOperationMode", "v": n}]]
    ct = lambda n: ["set_controller_mode", [{"t": "enum", "cls": "HVACControllerMode", "v": n}]]
    if rng.random() < 0.6:
        a = rng.choice(["COMFORT", "ECONOMY", "BUILDING_PROTECTION"])
        calls = [op(a), op(rng.choice(["AUTO", "STANDBY"]))]   # AUTO is wire value 0, STANDBY is "all binary objects off"
        calls = third(rng, calls, op(a))
    else:
        calls = [ct(rng.choice(["HEAT", "COOL", "FAN_ONLY"])), ct("AUTO")]
        calls = third(rng, calls, ct("COOL"))
    return _case("ClimateMode", cfg, calls, pre)


def numeric(rng, drv):
    from harness.c39_drivers3 import dpt_family

    cfg = force(drv.gen_cfg(rng), add=["group_address"])
    f, lo, hi = dpt_family(cfg["kw"]["value_type"])
    hi_i = int(min(hi, 100))
    first = I(nz(rng, 1, max(hi_i, 1)))
    pre = []
    calls = [["set", [first]], ["set", [zero(rng) if f in ("dpt9", "f32", "scaling") else I(0)]]]
    calls = third(rng, calls, ["set", [I(nz(rng, 1, max(hi_i, 1)))]])
    return _case(drv.cls_name, cfg, calls, pre)


def raw(rng, drv):
    cfg = drv.gen_cfg(rng)
    n = cfg["kw"]["payload_length"]
    top = 63 if n == 0 else 256**n - 1
    calls = [["set", [I(rng.randint(1, top))]], ["set", [I(0)]]]
    return _case("RawValue", cfg, third(rng, calls, ["set", [I(rng.randint(1, top))]]))


def expose(rng, drv):
    from harness.c39_drivers3 import dpt_family

    cfg = force(drv.gen_cfg(rng), add=["group_address"])
    vt = cfg["kw"]["value_type"]
    if vt == "binary":
        calls = [["set", [B(True)]], ["set", [B(False)]], ["set", [B(True)]]][: rng.randint(2, 3)]
    elif vt in ("string", "latin_1"):
        calls = [["set", [{"t": "str", "v": "abc"}]], ["set", [{"t": "str", "v": ""}]]]
    else:
        f, lo, hi = dpt_family(vt)
        calls = [["set", [I(nz(rng, 1, int(min(hi, 100))))]], ["set", [zero(rng) if f != "int" else I(0)]]]
    return _case("ExposeSensor", cfg, calls)


def notification(rng, drv):
    cfg = drv.gen_cfg(rng)
    return _case("Notification", cfg, [["set", [{"t": "str", "v": rng.choice(["hello", "x", "Alarm 1"])}]], ["set", [{"t": "str", "v": ""}]],
                                        ["set", [{"t": "str", "v": "again"}]]][: rng.randint(2, 3)])


def time_dev(rng, drv):
    cfg = drv.gen_cfg(rng)
    calls = [["set", [{"t": "time", "v": [rng.randint(1, 23), rng.randint(1, 59), rng.randint(1, 59), 0]}]], ["set", [{"t": "time", "v": [0, 0, 0, 0]}]]]
    return _case("TimeDevice", cfg, calls)


def date_dev(rng, drv):
    cfg = drv.gen_cfg(rng)
    calls = [["set", [{"t": "date", "v": [rng.randint(1991, 2089), rng.randint(2, 12), rng.randint(2, 28)]}]], ["set", [{"t": "date", "v": [1990, 1, 1]}]]]
    return _case("DateDevice", cfg, calls)


def datetime_dev(rng, drv):
    cfg = drv.gen_cfg(rng)
    calls = [["set", [{"t": "datetime", "v": [rng.randint(1901, 2155), 6, 15, 12, 30, 30, 0]}]], ["set", [{"t": "datetime", "v": [1900, 1, 1, 0, 0, 0, 0]}]]]
    return _case("DateTimeDevice", cfg, calls)


SEQ = {"Switch": switch, "Scene": scene, "Fan": fan, "Cover": cover, "Light": light, "Climate": climate, "ClimateMode": climate_mode,
       "NumericValue": numeric, "RawValue": raw, "ExposeSensor": expose, "Notification": notification, "TimeDevice": time_dev,
       "DateDevice": date_dev, "DateTimeDevice": datetime_dev}


def fixed_sequences():
    """deterministic sequences run on every check (every falsy target of the xyY / colour / scaled families at least once)"""
    c = (0.3, 0.4)
    lg = {"kw": {}, "ga": [G + "switch", G + "xyy_color", G + "xyy_color_state"]}
    yield _case("Light", lg, [["set_xyy_color", [xyy(c, 128)]], ["set_xyy_color", [xyy(c, 1)]], ["set_xyy_color", [xyy(c, 0)]],
                              ["set_xyy_color", [xyy((0.5, 0.2), 255)]], ["set_xyy_color", [xyy((0.0, 0.0), 0)]]])
    yield _case("Light", lg, [["set_xyy_color", [xyy(c, 17)]], ["set_xyy_color", [xyy(None, 0)]]])
    yield _case("Light", lg, [["set_xyy_color", [xyy(None, 0)]]], pre=[[G + "xyy_color_state", "A:4ccc66661103"]])
    yield _case("Light", lg, [["set_xyy_color", [xyy(c, 200)]], ["set_xyy_color", [xyy((0.0, 0.0), None)]], ["set_xyy_color", [xyy(None, 0)]]])
    yield _case("Light", {"kw": {}, "ga": [G + "rgbw"]}, [["set_color", [tup(I(9), I(8), I(7)), I(6)]], ["set_color", [tup(I(0), I(0), I(0)), I(0)]]])
    yield _case("Light", {"kw": {}, "ga": [G + "color"]}, [["set_color", [tup(I(9), I(8), I(7))]], ["set_color", [tup(I(0), I(0), I(0))]]])
    yield _case("Light", {"kw": {}, "ga": [G + "hue", G + "saturation"]}, [["set_hs_color", [tup(I(200), I(50))]], ["set_hs_color", [tup(I(0), I(0))]]])
    yield _case("Light", {"kw": {}, "ga": [G + "brightness", G + "tunable_white"]},
                [["set_brightness", [I(200)]], ["set_brightness", [I(0)]], ["set_tunable_white", [I(9)]], ["set_tunable_white", [I(0)]]])
    for inv in (False, True):
        yield _case("Cover", {"kw": {"invert_position": inv, "invert_angle": inv}, "ga": [G + "position", G + "angle"]},
                    [["set_position", [I(40)]], ["set_position", [I(0)]], ["set_angle", [I(70)]], ["set_angle", [I(0)]]])
        yield _case("Switch", {"kw": {"invert": inv}, "ga": ["group_address"]}, [["set_on", []], ["set_off", []]])
    yield _case("Fan", {"kw": {}, "ga": [G + "speed"]}, [["set_speed", [I(55)]], ["set_speed", [I(0)]]])
    yield _case("Fan", {"kw": {"max_step": 3}, "ga": [G + "speed"]}, [["set_speed", [I(2)]], ["set_speed", [I(0)]]])
    yield _case("Climate", {"kw": {"setpoint_shift_mode": "DPT6010"}, "ga": [G + "setpoint_shift"]},
                [["set_setpoint_shift", [F(1.5)]], ["set_setpoint_shift", [F(0.0)]]])
    yield _case("Climate", {"kw": {"setpoint_shift_mode": "DPT9002"}, "ga": [G + "setpoint_shift"]},
                [["set_setpoint_shift", [F(1.5)]], ["set_setpoint_shift", [I(0)]]])
