"""
Shared helpers for the KNX/IP properties (C20, C21, C22):

* `render(obj)`     canonical rendering of xknx KNX/IP objects; mirrors `Body.render` etc. of
                    lean/XknxVerif/Model/KNXIP (hand-written twice on purpose: a mismatch is a disagreement)
* `gen_spec(rng, cls)` / `build(spec)`  structure-aware random bodies as JSON-able specs built from the
                    repo's own enums, and the construction of the real objects from them
* `struct_eq(a, b)` structural (recursive field) equality: the DIB classes define no __eq__
* `guarded(fn)`     run real code under an address-space cap; canonical exception class
"""
from __future__ import annotations

import resource
import socket

from xknx.exceptions import CouldNotParseKNXIP, IncompleteKNXIPFrame
from xknx import knxip as K
from xknx.knxip import dib as D
from xknx.knxip import knxip_enum as E
from xknx.knxip.error_code import ErrorCode
from xknx.knxip.srp import SRP
from xknx.telegram import IndividualAddress
from xknx.telegram.apci import ReturnCode

MEM_CAP = 3 << 30


def hx(b: bytes) -> str:
    return bytes(b).hex() or "-"


def exc_class(e: BaseException) -> str:
    if isinstance(e, IncompleteKNXIPFrame):
        return "incomplete"
    if isinstance(e, CouldNotParseKNXIP):
        return "parse"
    return "other:" + type(e).__name__


def guarded(fn):
    """Run fn() with a soft address-space limit; returns (value, None) or (None, 'err <class>')."""
    soft, hard = resource.getrlimit(resource.RLIMIT_AS)
    cap = MEM_CAP if hard == resource.RLIM_INFINITY else min(MEM_CAP, hard)
    resource.setrlimit(resource.RLIMIT_AS, (cap, hard))
    try:
        return fn(), None
    except MemoryError:
        return None, "err other:MemoryError"
    except Exception as e:  # noqa: BLE001
        if type(e).__name__ == "CaseTimeout":
            raise
        return None, "err " + exc_class(e)
    finally:
        resource.setrlimit(resource.RLIMIT_AS, (soft, hard))


# --------------------------------------------------------------------------
# rendering
# --------------------------------------------------------------------------

def r_hpai(h):
    return f"H{h.protocol.value}.{socket.inet_aton(h.ip_addr).hex()}.{h.port}"


def r_ia(a):
    return "-" if a is None else str(a.raw)


def r_cri(c):
    return f"C{c.connection_type.value}.{c.knx_layer.value}.{r_ia(c.individual_address)}"


def r_crd(c):
    return f"D{c.request_type.value}.{r_ia(c.individual_address)}"


def r_dib(d):
    if isinstance(d, D.DIBGeneric):
        dtc = d.dtc.value if isinstance(d.dtc, E.DIBTypeCode) else d.dtc
        return f"G{dtc}.{hx(d.data)}"
    if isinstance(d, D.DIBDeviceInformation):
        return (f"I{d.knx_medium.value}.{int(d.programming_mode)}.{d.individual_address.raw}.{d.project_number}."
                f"{d.installation_number}.{d.serial_number.replace(':', '') or '-'}."
                f"{socket.inet_aton(d.multicast_address).hex()}.{d.mac_address.replace(':', '') or '-'}."
                f"{hx(d.name.encode('latin_1'))}")
    if isinstance(d, (D.DIBSuppSVCFamilies, D.DIBSecuredServiceFamilies)):
        tag = "X" if isinstance(d, D.DIBSecuredServiceFamilies) else "S"
        return tag + "[" + ",".join(f"{f.name.value}.{f.version}" for f in d.families) + "]"
    if isinstance(d, D.DIBTunnelingInfo):
        return f"T{d.max_apdu_length}[" + ",".join(
            f"{a.raw}.{int(s.usable) << 2 | int(s.authorized) << 1 | int(s.free)}" for a, s in d.slots.items()) + "]"
    raise TypeError(type(d))


def r_srp(s):
    return f"P{s.type.value}.{int(s.mandatory)}.{hx(s.data)}.{s.payload_size}"


def r_list(items):
    return "[" + ",".join(items) + "]"


def render(b) -> str:
    n = type(b).__name__
    if n in ("SearchRequest",):
        return f"{n}:{r_hpai(b.discovery_endpoint)}"
    if n == "SearchRequestExtended":
        return f"{n}:{r_hpai(b.discovery_endpoint)}:{r_list(r_srp(s) for s in b.srps)}"
    if n in ("SearchResponse", "SearchResponseExtended"):
        return f"{n}:{r_hpai(b.control_endpoint)}:{r_list(r_dib(d) for d in b.dibs)}"
    if n == "DescriptionRequest":
        return f"{n}:{r_hpai(b.control_endpoint)}"
    if n == "DescriptionResponse":
        return f"{n}:{r_list(r_dib(d) for d in b.dibs)}"
    if n == "ConnectRequest":
        return f"{n}:{r_hpai(b.control_endpoint)}:{r_hpai(b.data_endpoint)}:{r_cri(b.cri)}"
    if n == "ConnectResponse":
        return f"{n}:{b.communication_channel}:{b.status_code.value}:{r_hpai(b.data_endpoint)}:{r_crd(b.crd)}"
    if n in ("ConnectionStateRequest", "DisconnectRequest"):
        return f"{n}:{b.communication_channel_id}:{r_hpai(b.control_endpoint)}"
    if n in ("ConnectionStateResponse", "DisconnectResponse"):
        return f"{n}:{b.communication_channel_id}:{b.status_code.value}"
    if n in ("TunnellingRequest", "DeviceConfigurationRequest"):
        return f"{n}:{b.communication_channel_id}:{b.sequence_counter}:{hx(b.raw_cemi)}"
    if n in ("TunnellingAck", "DeviceConfigurationAck"):
        return f"{n}:{b.communication_channel_id}:{b.sequence_counter}:{b.status_code.value}"
    if n in ("TunnellingFeatureGet", "TunnellingFeatureSet", "TunnellingFeatureInfo"):
        return (f"{n}:{b.communication_channel_id}:{b.sequence_counter}:{b.status_code.value}:"
                f"{b.feature_type.value}:{hx(b.data)}")
    if n == "TunnellingFeatureResponse":
        return (f"{n}:{b.communication_channel_id}:{b.sequence_counter}:{b.status_code.value}:"
                f"{b.feature_type.value}:{b.return_code.value}:{hx(b.data)}")
    if n == "RoutingIndication":
        return f"{n}:{hx(b.raw_cemi)}"
    if n == "RoutingLostMessage":
        return f"{n}:{b.device_state}:{b.lost_messages}"
    if n == "RoutingBusy":
        return f"{n}:{b.device_state}:{b.wait_time}:{b.control_field}"
    if n == "SecureWrapper":
        return (f"{n}:{b.secure_session_id}:{hx(b.sequence_information)}:{hx(b.serial_number)}:{hx(b.message_tag)}:"
                f"{hx(b.encrypted_data)}:{hx(b.message_authentication_code)}")
    if n == "SessionRequest":
        return f"{n}:{r_hpai(b.control_endpoint)}:{hx(b.ecdh_client_public_key)}"
    if n == "SessionResponse":
        return f"{n}:{b.secure_session_id}:{hx(b.ecdh_server_public_key)}:{hx(b.message_authentication_code)}"
    if n == "SessionAuthenticate":
        return f"{n}:{b.user_id}:{hx(b.message_authentication_code)}"
    if n == "SessionStatus":
        return f"{n}:{b.status.value}"
    if n == "TimerNotify":
        return (f"{n}:{b.timer_value}:{hx(b.serial_number)}:{hx(b.message_tag)}:"
                f"{hx(b.message_authentication_code)}")
    raise TypeError(n)


def render_frame(f) -> str:
    return f"{f.header.service_type_ident.value} {f.header.total_length} {render(f.body)}"


# --------------------------------------------------------------------------
# structural equality
# --------------------------------------------------------------------------

def struct_eq(a, b) -> bool:
    """Recursive field comparison; enum members by identity, addresses by raw value."""
    if type(a) is not type(b):
        return False
    if isinstance(a, (int, str, bytes, bool, type(None))) or hasattr(a, "_value_"):
        return a == b
    if isinstance(a, IndividualAddress):
        return a.raw == b.raw
    if isinstance(a, tuple):  # NamedTuple (TunnelingSlotStatus)
        return len(a) == len(b) and all(struct_eq(x, y) for x, y in zip(a, b))
    if isinstance(a, list):
        return len(a) == len(b) and all(struct_eq(x, y) for x, y in zip(a, b))
    if isinstance(a, dict):
        return (len(a) == len(b)
                and all(struct_eq(ka, kb) and struct_eq(va, vb) for (ka, va), (kb, vb) in zip(a.items(), b.items())))
    da = getattr(a, "__dict__", None)
    if da is None:
        return a == b
    db = b.__dict__
    return da.keys() == db.keys() and all(struct_eq(da[k], db[k]) for k in da)


# --------------------------------------------------------------------------
# structure-aware generation (specs are JSON-able; build() makes the real objects)
# --------------------------------------------------------------------------

BODY_CLASSES = [
    "SearchRequest", "SearchRequestExtended", "SearchResponse", "SearchResponseExtended", "DescriptionRequest",
    "DescriptionResponse", "ConnectRequest", "ConnectResponse", "ConnectionStateRequest", "ConnectionStateResponse",
    "DisconnectRequest", "DisconnectResponse", "DeviceConfigurationRequest", "DeviceConfigurationAck",
    "TunnellingRequest", "TunnellingAck", "TunnellingFeatureGet", "TunnellingFeatureResponse", "TunnellingFeatureSet",
    "TunnellingFeatureInfo", "RoutingIndication", "RoutingLostMessage", "RoutingBusy", "SecureWrapper",
    "SessionRequest", "SessionResponse", "SessionAuthenticate", "SessionStatus", "TimerNotify",
]

U8 = [0, 1, 2, 127, 128, 254, 255]
U16 = [0, 1, 255, 256, 3671, 4353, 65534, 65535]


def pick(rng, boundary, hi):
    return rng.choice(boundary) if rng.random() < 0.5 else rng.randrange(hi)


def rbytes(rng, n):
    return bytes(rng.randrange(256) for _ in range(n)).hex()


def g_hpai(rng):
    ip = rng.choice(["0.0.0.0", "192.168.1.1", "224.0.23.12", "255.255.255.255", "10.1.0.41",
                     ".".join(str(rng.randrange(256)) for _ in range(4))])
    return {"proto": rng.choice(list(E.HostProtocol)).value, "ip": ip, "port": pick(rng, U16, 65536)}


def g_cri(rng):
    t = rng.choice(list(E.ConnectRequestType))
    if t == E.ConnectRequestType.TUNNEL_CONNECTION:
        return {"type": t.value, "layer": rng.choice(list(E.TunnellingLayer)).value,
                "ia": rng.choice([None, pick(rng, U16, 65536)])}
    return {"type": t.value}


def g_crd(rng):
    t = rng.choice(list(E.ConnectRequestType) + [E.ConnectRequestType.TUNNEL_CONNECTION] * 3)
    if t == E.ConnectRequestType.TUNNEL_CONNECTION:
        return {"type": t.value, "ia": pick(rng, U16, 65536)}
    return {"type": t.value}


GENERIC_DTCS = [c for c in E.DIBTypeCode if c not in (E.DIBTypeCode.DEVICE_INFO, E.DIBTypeCode.SUPP_SVC_FAMILIES,
                                                    E.DIBTypeCode.SECURED_SERVICE_FAMILIES, E.DIBTypeCode.TUNNELING_INFO)]


def g_name(rng):
    n = rng.choice([0, 1, 5, 29, 30, rng.randrange(31)])
    chars = [chr(rng.choice([65, 97, 32, 0xE4, 0xFF, 0x80, 1, rng.randrange(1, 256)])) for _ in range(n)]
    return "".join(chars).rstrip("\0")


def g_dib(rng):
    k = rng.choice("GISXT")
    if k == "G":
        n = rng.choice([0, 2, 4, 8, 252, 2 * rng.randrange(127)])
        return {"k": "G", "dtc": rng.choice(GENERIC_DTCS).value, "data": rbytes(rng, n)}
    if k == "I":
        return {"k": "I", "medium": rng.choice(list(E.KNXMedium)).value, "prog": rng.random() < 0.5,
                "ia": pick(rng, U16, 65536), "project": pick(rng, [0, 1, 4095], 4096), "inst": pick(rng, [0, 15], 16),
                "serial": rbytes(rng, 6), "mcast": g_hpai(rng)["ip"], "mac": rbytes(rng, 6), "name": g_name(rng)}
    if k in "SX":
        n = rng.choice([0, 1, 2, 5, 126, rng.randrange(127)])
        return {"k": k, "fams": [[rng.choice(list(E.DIBServiceFamily)).value, pick(rng, U8, 256)] for _ in range(n)]}
    n = rng.choice([0, 1, 2, 62, rng.randrange(63)])
    addrs = rng.sample(range(65536), n)
    return {"k": "T", "apdu": pick(rng, U16, 65536), "slots": [[a, rng.randrange(8)] for a in addrs]}


def g_srp(rng):
    t = rng.choice(list(E.SearchRequestParameterType))
    m = rng.random() < 0.5
    T = E.SearchRequestParameterType
    if t == T.SELECT_BY_SERVICE:
        data = bytes([rng.choice(list(E.DIBServiceFamily)).value, pick(rng, U8, 256)]).hex()
    elif t == T.SELECT_BY_MAC_ADDRESS:
        data = rbytes(rng, 6)
    elif t == T.REQUEST_DIBS:
        data = rbytes(rng, rng.choice([1, 2, 3, 4, 9, 251, 252, rng.randrange(1, 253)]))
    else:
        data = ""
    return {"type": t.value, "mandatory": m, "data": data}


def g_cemi(rng):
    return rbytes(rng, rng.choice([0, 1, 2, 11, 17, 64, 255, 256, rng.randrange(300)]))


def g_even(rng, lo):
    return rbytes(rng, rng.choice([lo, 2, 4, 16, 2 * rng.randrange(lo // 2, 40)]))


def gen_spec(rng, cls):
    s = {"cls": cls}
    ec = lambda: rng.choice(list(ErrorCode)).value  # noqa: E731
    if cls in ("SearchRequest", "DescriptionRequest"):
        s["ep"] = g_hpai(rng)
    elif cls == "SearchRequestExtended":
        s["ep"] = g_hpai(rng)
        s["srps"] = [g_srp(rng) for _ in range(rng.choice([0, 1, 2, 3, 6]))]
    elif cls in ("SearchResponse", "SearchResponseExtended"):
        s["ep"] = g_hpai(rng)
        s["dibs"] = [g_dib(rng) for _ in range(rng.choice([0, 1, 2, 3, 5]))]
    elif cls == "DescriptionResponse":
        s["dibs"] = [g_dib(rng) for _ in range(rng.choice([0, 1, 2, 3, 5]))]
    elif cls == "ConnectRequest":
        s.update(ctrl=g_hpai(rng), data=g_hpai(rng), cri=g_cri(rng))
    elif cls == "ConnectResponse":
        s.update(ch=pick(rng, U8, 256), status=rng.choice([0, 0, ec()]), ep=g_hpai(rng), crd=g_crd(rng))
    elif cls in ("ConnectionStateRequest", "DisconnectRequest"):
        s.update(ch=pick(rng, U8, 256), ep=g_hpai(rng))
    elif cls in ("ConnectionStateResponse", "DisconnectResponse"):
        s.update(ch=pick(rng, U8, 256), status=ec())
    elif cls in ("TunnellingRequest", "DeviceConfigurationRequest"):
        s.update(ch=pick(rng, U8, 256), seq=pick(rng, U8, 256), cemi=g_cemi(rng))
    elif cls in ("TunnellingAck", "DeviceConfigurationAck"):
        s.update(ch=pick(rng, U8, 256), seq=pick(rng, U8, 256), status=ec())
    elif cls == "TunnellingFeatureGet":
        s.update(ch=pick(rng, U8, 256), seq=pick(rng, U8, 256), ft=rng.choice(list(E.TunnellingFeatureType)).value)
    elif cls in ("TunnellingFeatureSet", "TunnellingFeatureInfo"):
        s.update(ch=pick(rng, U8, 256), seq=pick(rng, U8, 256), ft=rng.choice(list(E.TunnellingFeatureType)).value,
                 data=g_even(rng, 2))
    elif cls == "TunnellingFeatureResponse":
        rc = rng.choice([ReturnCode.E_SUCCESS, rng.choice(list(ReturnCode))])
        s.update(ch=pick(rng, U8, 256), seq=pick(rng, U8, 256), ft=rng.choice(list(E.TunnellingFeatureType)).value,
                 rc=rc.value, data=g_even(rng, 2) if rc == ReturnCode.E_SUCCESS else g_even(rng, 0))
    elif cls == "RoutingIndication":
        s["cemi"] = g_cemi(rng)
    elif cls == "RoutingLostMessage":
        s.update(state=pick(rng, U8, 256), lost=pick(rng, U16, 65536))
    elif cls == "RoutingBusy":
        s.update(state=pick(rng, U8, 256), wait=pick(rng, U16, 65536), ctrl=pick(rng, U16, 65536))
    elif cls == "SecureWrapper":
        s.update(sid=pick(rng, U16, 65536), seqinfo=rbytes(rng, 6), serial=rbytes(rng, 6), tag=rbytes(rng, 2),
                 enc=rbytes(rng, rng.choice([2, 3, 8, 20, rng.randrange(2, 200)])), mac=rbytes(rng, 16))
    elif cls == "SessionRequest":
        s.update(ep=g_hpai(rng), key=rbytes(rng, 32))
    elif cls == "SessionResponse":
        s.update(sid=pick(rng, U16, 65536), key=rbytes(rng, 32), mac=rbytes(rng, 16))
    elif cls == "SessionAuthenticate":
        s.update(uid=pick(rng, U8, 256), mac=rbytes(rng, 16))
    elif cls == "SessionStatus":
        s["status"] = rng.choice(list(E.SecureSessionStatusCode)).value
    elif cls == "TimerNotify":
        s.update(timer=pick(rng, [0, 1, 2 ** 48 - 1, 2 ** 32], 2 ** 48), serial=rbytes(rng, 6), tag=rbytes(rng, 2),
                 mac=rbytes(rng, 16))
    else:
        raise ValueError(cls)
    return s


def fh(s):
    return bytes.fromhex(s)


def colon(hexs):
    b = fh(hexs)
    return b.hex(":")


def b_hpai(s):
    return K.HPAI(s["ip"], s["port"], E.HostProtocol(s["proto"]))


def b_ia(v):
    return None if v is None else IndividualAddress(v)


def b_cri(s):
    from xknx.knxip.connect_request import ConnectRequestInformation
    kw = {"connection_type": E.ConnectRequestType(s["type"])}
    if "layer" in s:
        kw["knx_layer"] = E.TunnellingLayer(s["layer"])
    if s.get("ia") is not None:
        kw["individual_address"] = IndividualAddress(s["ia"])
    return ConnectRequestInformation(**kw)


def b_crd(s):
    from xknx.knxip.connect_response import ConnectResponseData
    return ConnectResponseData(E.ConnectRequestType(s["type"]), b_ia(s.get("ia")))


def b_dib(s):
    k = s["k"]
    if k == "G":
        d = D.DIBGeneric()
        d.dtc = E.DIBTypeCode(s["dtc"]) if s.get("enum", True) else s["dtc"]
        d.data = fh(s["data"])
        return d
    if k == "I":
        d = D.DIBDeviceInformation()
        d.knx_medium = E.KNXMedium(s["medium"])
        d.programming_mode = s["prog"]
        d.individual_address = IndividualAddress(s["ia"])
        d.project_number = s["project"]
        d.installation_number = s["inst"]
        d.serial_number = s["serial"] if ":" in s["serial"] else colon(s["serial"])
        d.multicast_address = s["mcast"]
        d.mac_address = s["mac"] if ":" in s["mac"] else colon(s["mac"])
        d.name = s["name"]
        return d
    if k in "SX":
        d = D.DIBSuppSVCFamilies() if k == "S" else D.DIBSecuredServiceFamilies()
        d.families = [D.DIBSuppSVCFamilies.Family(E.DIBServiceFamily(n), v) for n, v in s["fams"]]
        return d
    d = D.DIBTunnelingInfo()
    d.max_apdu_length = s["apdu"]
    for a, st in s["slots"]:
        d.slots[IndividualAddress(a)] = D.TunnelingSlotStatus(bool(st >> 2 & 1), bool(st >> 1 & 1), bool(st & 1))
    return d


def b_srp(s):
    return SRP(E.SearchRequestParameterType(s["type"]), s["mandatory"], fh(s["data"]))


def build(s):
    cls = s["cls"]
    C = getattr(K, cls)
    if cls == "SearchRequest":
        return C(discovery_endpoint=b_hpai(s["ep"]))
    if cls == "SearchRequestExtended":
        return C(discovery_endpoint=b_hpai(s["ep"]), srps=[b_srp(x) for x in s["srps"]])
    if cls in ("SearchResponse", "SearchResponseExtended"):
        b = C(control_endpoint=b_hpai(s["ep"]))
        b.dibs = [b_dib(x) for x in s["dibs"]]
        return b
    if cls == "DescriptionRequest":
        return C(control_endpoint=b_hpai(s["ep"]))
    if cls == "DescriptionResponse":
        b = C()
        b.dibs = [b_dib(x) for x in s["dibs"]]
        return b
    if cls == "ConnectRequest":
        return C(control_endpoint=b_hpai(s["ctrl"]), data_endpoint=b_hpai(s["data"]), cri=b_cri(s["cri"]))
    if cls == "ConnectResponse":
        kw = {}
        if "ep" in s:
            kw["data_endpoint"] = b_hpai(s["ep"])
        if "crd" in s:
            kw["crd"] = b_crd(s["crd"])
        return C(communication_channel=s["ch"], status_code=ErrorCode(s["status"]), **kw)
    if cls in ("ConnectionStateRequest", "DisconnectRequest"):
        return C(communication_channel_id=s["ch"], control_endpoint=b_hpai(s["ep"]))
    if cls in ("ConnectionStateResponse", "DisconnectResponse"):
        return C(communication_channel_id=s["ch"], status_code=ErrorCode(s["status"]))
    if cls in ("TunnellingRequest", "DeviceConfigurationRequest"):
        return C(communication_channel_id=s["ch"], sequence_counter=s["seq"], raw_cemi=fh(s["cemi"]))
    if cls in ("TunnellingAck", "DeviceConfigurationAck"):
        return C(communication_channel_id=s["ch"], sequence_counter=s["seq"], status_code=ErrorCode(s["status"]))
    if cls == "TunnellingFeatureGet":
        b = C(communication_channel_id=s["ch"], sequence_counter=s["seq"],
              feature_type=E.TunnellingFeatureType(s["ft"]))
        if "data" in s:
            b.data = fh(s["data"])
        return b
    if cls in ("TunnellingFeatureSet", "TunnellingFeatureInfo"):
        return C(communication_channel_id=s["ch"], sequence_counter=s["seq"],
                 feature_type=E.TunnellingFeatureType(s["ft"]), data=fh(s["data"]))
    if cls == "TunnellingFeatureResponse":
        return C(communication_channel_id=s["ch"], sequence_counter=s["seq"],
                 feature_type=E.TunnellingFeatureType(s["ft"]), return_code=ReturnCode(s["rc"]), data=fh(s["data"]))
    if cls == "RoutingIndication":
        return C(raw_cemi=fh(s["cemi"]))
    if cls == "RoutingLostMessage":
        return C(device_state=s["state"], lost_messages=s["lost"])
    if cls == "RoutingBusy":
        return C(device_state=s["state"], wait_time=s["wait"], control_field=s["ctrl"])
    if cls == "SecureWrapper":
        return C(secure_session_id=s["sid"], sequence_information=fh(s["seqinfo"]), serial_number=fh(s["serial"]),
                 message_tag=fh(s["tag"]), encrypted_data=fh(s["enc"]), message_authentication_code=fh(s["mac"]))
    if cls == "SessionRequest":
        return C(control_endpoint=b_hpai(s["ep"]), ecdh_client_public_key=fh(s["key"]))
    if cls == "SessionResponse":
        return C(secure_session_id=s["sid"], ecdh_server_public_key=fh(s["key"]),
                 message_authentication_code=fh(s["mac"]))
    if cls == "SessionAuthenticate":
        return C(user_id=s["uid"], message_authentication_code=fh(s["mac"]))
    if cls == "SessionStatus":
        return C(status=E.SecureSessionStatusCode(s["status"]))
    if cls == "TimerNotify":
        return C(timer_value=s["timer"], serial_number=fh(s["serial"]), message_tag=fh(s["tag"]),
                 message_authentication_code=fh(s["mac"]))
    raise ValueError(cls)


def frame_bytes(spec) -> bytes:
    """Serialise a generated well-formed body with the implementation (generation time only)."""
    return K.KNXIPFrame.init_from_body(build(spec)).to_knx()


def minimal_frame(rng=None) -> bytes:
    return bytes.fromhex("061005300006")


# --------------------------------------------------------------------------
# "field values the specification allows on the wire" — Python mirror of Body.wf (Model/KNXIP/WF.lean).
# Hand-written twice on purpose: every C21 case prints py_wf(parsed body) next to the model's wf=…
# --------------------------------------------------------------------------

def _octets(b):
    return isinstance(b, (bytes, bytearray))


def _u(n, bits):
    return isinstance(n, int) and not isinstance(n, bool) and 0 <= n < (1 << bits)


def _ip_ok(s):
    try:
        return isinstance(s, str) and socket.inet_ntoa(socket.inet_aton(s)) == s
    except OSError:
        return False


def _colonhex_ok(s, n):
    try:
        return isinstance(s, str) and bytes.fromhex(s.replace(":", "")).hex(":") == s and len(s) == 3 * n - 1
    except ValueError:
        return False


def wf_hpai(h):
    return isinstance(h.protocol, E.HostProtocol) and _ip_ok(h.ip_addr) and _u(h.port, 16)


def wf_ia(a):
    return isinstance(a, IndividualAddress) and _u(a.raw, 16)


def wf_cri(c):
    if not isinstance(c.connection_type, E.ConnectRequestType):
        return False
    if c.connection_type == E.ConnectRequestType.TUNNEL_CONNECTION:
        return isinstance(c.knx_layer, E.TunnellingLayer) and (c.individual_address is None or wf_ia(c.individual_address))
    return c.knx_layer == E.TunnellingLayer.DATA_LINK_LAYER and c.individual_address is None


def wf_crd(c):
    if not isinstance(c.request_type, E.ConnectRequestType):
        return False
    if c.request_type == E.ConnectRequestType.TUNNEL_CONNECTION:
        return c.individual_address is not None and wf_ia(c.individual_address)
    return c.individual_address is None


def wf_dib(d):
    if isinstance(d, D.DIBGeneric):
        return (isinstance(d.dtc, E.DIBTypeCode) and d.dtc in GENERIC_DTCS and _octets(d.data)
                and len(d.data) % 2 == 0 and len(d.data) + 2 <= 255)
    if isinstance(d, D.DIBDeviceInformation):
        try:
            nm = d.name.encode("latin_1")
        except (UnicodeEncodeError, AttributeError):
            return False
        return (isinstance(d.knx_medium, E.KNXMedium) and isinstance(d.programming_mode, bool)
                and wf_ia(d.individual_address)
                and _u(d.project_number, 12) and _u(d.installation_number, 4) and _colonhex_ok(d.serial_number, 6)
                and _ip_ok(d.multicast_address) and _colonhex_ok(d.mac_address, 6) and len(nm) <= 30
                and not nm.endswith(b"\0"))
    if isinstance(d, (D.DIBSuppSVCFamilies, D.DIBSecuredServiceFamilies)):
        return (all(isinstance(f.name, E.DIBServiceFamily) and _u(f.version, 8) for f in d.families)
                and len(d.families) * 2 + 2 <= 255)
    if isinstance(d, D.DIBTunnelingInfo):
        return (_u(d.max_apdu_length, 16) and all(wf_ia(a) for a in d.slots)
                and all(all(isinstance(x, bool) for x in s) for s in d.slots.values())
                and len(d.slots) * 4 + 4 <= 255)
    return False


def wf_srp(s):
    T = E.SearchRequestParameterType
    if not (isinstance(s.type, T) and s.type.value < 8 and _octets(s.data) and isinstance(s.mandatory, bool)):
        return False
    if s.payload_size > 255 or s.payload_size != 2 + len(s.data):
        return False
    if s.type == T.SELECT_BY_SERVICE:
        return len(s.data) == 2
    if s.type == T.SELECT_BY_MAC_ADDRESS:
        return len(s.data) == 6
    if s.type == T.REQUEST_DIBS:
        return len(s.data) > 0 and len(s.data) % 2 == 0
    return len(s.data) == 0


def _blen(b, n):
    return _octets(b) and len(b) == n


def py_wf(b) -> bool:
    n = type(b).__name__
    ec = lambda v: isinstance(v, ErrorCode)  # noqa: E731
    if n in ("SearchRequest",):
        ok = wf_hpai(b.discovery_endpoint)
    elif n == "SearchRequestExtended":
        ok = wf_hpai(b.discovery_endpoint) and all(wf_srp(s) for s in b.srps)
    elif n in ("SearchResponse", "SearchResponseExtended"):
        ok = wf_hpai(b.control_endpoint) and all(wf_dib(d) for d in b.dibs)
    elif n == "DescriptionRequest":
        ok = wf_hpai(b.control_endpoint)
    elif n == "DescriptionResponse":
        ok = all(wf_dib(d) for d in b.dibs)
    elif n == "ConnectRequest":
        ok = wf_hpai(b.control_endpoint) and wf_hpai(b.data_endpoint) and wf_cri(b.cri)
    elif n == "ConnectResponse":
        ok = _u(b.communication_channel, 8) and ec(b.status_code) and wf_hpai(b.data_endpoint) and wf_crd(b.crd)
    elif n in ("ConnectionStateRequest", "DisconnectRequest"):
        ok = _u(b.communication_channel_id, 8) and wf_hpai(b.control_endpoint)
    elif n in ("ConnectionStateResponse", "DisconnectResponse"):
        ok = _u(b.communication_channel_id, 8) and ec(b.status_code)
    elif n in ("TunnellingRequest", "DeviceConfigurationRequest"):
        ok = _u(b.communication_channel_id, 8) and _u(b.sequence_counter, 8) and _octets(b.raw_cemi)
    elif n in ("TunnellingAck", "DeviceConfigurationAck"):
        ok = _u(b.communication_channel_id, 8) and _u(b.sequence_counter, 8) and ec(b.status_code)
    elif n in ("TunnellingFeatureGet", "TunnellingFeatureSet", "TunnellingFeatureInfo"):
        ok = (_u(b.communication_channel_id, 8) and _u(b.sequence_counter, 8) and ec(b.status_code)
              and isinstance(b.feature_type, E.TunnellingFeatureType) and _octets(b.data)
              and (len(b.data) == 0 if n == "TunnellingFeatureGet" else (len(b.data) > 0 and len(b.data) % 2 == 0)))
    elif n == "TunnellingFeatureResponse":
        ok = (_u(b.communication_channel_id, 8) and _u(b.sequence_counter, 8) and ec(b.status_code)
              and isinstance(b.feature_type, E.TunnellingFeatureType) and isinstance(b.return_code, ReturnCode)
              and _octets(b.data) and len(b.data) % 2 == 0
              and (b.return_code != ReturnCode.E_SUCCESS or len(b.data) > 0))
    elif n == "RoutingIndication":
        ok = _octets(b.raw_cemi)
    elif n == "RoutingLostMessage":
        ok = _u(b.device_state, 8) and _u(b.lost_messages, 16)
    elif n == "RoutingBusy":
        ok = _u(b.device_state, 8) and _u(b.wait_time, 16) and _u(b.control_field, 16)
    elif n == "SecureWrapper":
        ok = (_u(b.secure_session_id, 16) and _blen(b.sequence_information, 6) and _blen(b.serial_number, 6)
              and _blen(b.message_tag, 2) and _octets(b.encrypted_data) and len(b.encrypted_data) >= 2
              and _blen(b.message_authentication_code, 16))
    elif n == "SessionRequest":
        ok = wf_hpai(b.control_endpoint) and _blen(b.ecdh_client_public_key, 32)
    elif n == "SessionResponse":
        ok = (_u(b.secure_session_id, 16) and _blen(b.ecdh_server_public_key, 32)
              and _blen(b.message_authentication_code, 16))
    elif n == "SessionAuthenticate":
        ok = _u(b.user_id, 8) and _blen(b.message_authentication_code, 16)
    elif n == "SessionStatus":
        ok = isinstance(b.status, E.SecureSessionStatusCode)
    elif n == "TimerNotify":
        ok = (_u(b.timer_value, 48) and _blen(b.serial_number, 6) and _blen(b.message_tag, 2)
              and _blen(b.message_authentication_code, 16))
    else:
        return False
    return bool(ok) and 6 + b.calculated_length() < 65536
