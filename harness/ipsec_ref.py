"""
Independent implementation of the KNX IP Secure constructions (KNX 03.08.09 / AN159), written from the
specification text and used (a) by the harness-side "server" of C29/C30 to build and open frames, and
(b) as the second implementation C28 compares xknx against.

Only the AES-128 single-block encryption of the `cryptography` package is used as a primitive; CBC-MAC and
counter mode are written out block by block here (xknx uses the package's CBC and CTR modes).
X25519, PBKDF2-HMAC-SHA256 and SHA-256 come from `cryptography`/hashlib (parameters of the models).
"""
from __future__ import annotations

import hashlib

from cryptography.hazmat.primitives.ciphers import Cipher, algorithms, modes

WRAPPER_SVC = 0x0950
CTR0_HANDSHAKE = bytes(14) + b"\xff\x00"


def aes_block(key: bytes, block: bytes) -> bytes:
    assert len(key) == 16 and len(block) == 16
    enc = Cipher(algorithms.AES(key), modes.ECB()).encryptor()  # noqa: S305  single block primitive
    return enc.update(block) + enc.finalize()


def xor(a: bytes, b: bytes) -> bytes:
    assert len(a) == len(b)
    return bytes(x ^ y for x, y in zip(a, b))


def cbc_mac(key: bytes, b0: bytes, additional: bytes, payload: bytes = b"") -> bytes:
    """Y_0 = E(B_0); Y_i = E(B_i xor Y_{i-1}) over B_0 | len(A) | A | P, zero padded; returns the last Y."""
    data = b0 + len(additional).to_bytes(2, "big") + additional + payload
    if len(data) % 16:
        data += bytes(16 - len(data) % 16)
    y = bytes(16)
    for i in range(0, len(data), 16):
        y = aes_block(key, xor(y, data[i:i + 16]))
    return y


def ctr_block(ctr0: bytes, i: int) -> bytes:
    """Ctr_i: the 16-octet counter block incremented i times (big-endian)."""
    return ((int.from_bytes(ctr0, "big") + i) % (1 << 128)).to_bytes(16, "big")


def ctr_xor(key: bytes, ctr0: bytes, first: int, data: bytes) -> bytes:
    out = bytearray()
    for n, i in enumerate(range(0, len(data), 16)):
        ks = aes_block(key, ctr_block(ctr0, first + n))
        out += xor(data[i:i + 16], ks[:len(data[i:i + 16])])
    return bytes(out)


def wrap(key: bytes, session_id: int, seq: bytes, serial: bytes, tag: bytes, payload: bytes,
         total_length: int | None = None) -> bytes:
    """SecureWrapper frame for the plain KNXnet/IP frame `payload`."""
    total = 38 + len(payload) if total_length is None else total_length
    header = bytes((0x06, 0x10, 0x09, 0x50)) + total.to_bytes(2, "big")
    sid = session_id.to_bytes(2, "big")
    b0 = seq + serial + tag + len(payload).to_bytes(2, "big")
    mac_cbc = cbc_mac(key, b0, header + sid, payload)
    ctr0 = seq + serial + tag + b"\xff\x00"
    mac = xor(mac_cbc, aes_block(key, ctr0))
    enc = ctr_xor(key, ctr0, 1, payload)
    return header + sid + seq + serial + tag + enc + mac


def unwrap(key: bytes, frame: bytes):
    """Returns dict(session_id, seq, serial, tag, payload, mac_ok) or None if this is no SecureWrapper frame."""
    if len(frame) < 6 + 16 + 16 or frame[0] != 6 or frame[1] != 0x10 or frame[2:4] != b"\x09\x50":
        return None
    total = int.from_bytes(frame[4:6], "big")
    if total != len(frame):
        return None
    header = frame[:6]
    sid = frame[6:8]
    seq, serial, tag = frame[8:14], frame[14:20], frame[20:22]
    enc, mac = frame[22:-16], frame[-16:]
    ctr0 = seq + serial + tag + b"\xff\x00"
    payload = ctr_xor(key, ctr0, 1, enc)
    b0 = seq + serial + tag + len(payload).to_bytes(2, "big")
    mac_cbc = cbc_mac(key, b0, header + sid, payload)
    return {"session_id": int.from_bytes(sid, "big"), "seq": int.from_bytes(seq, "big"), "serial": serial, "tag": tag,
            "payload": payload, "mac_ok": xor(mac_cbc, aes_block(key, ctr0)) == mac}


def session_response_mac(device_auth_code: bytes, session_id: int, client_pub: bytes, server_pub: bytes) -> bytes:
    a = bytes.fromhex("061009520038") + session_id.to_bytes(2, "big") + xor(client_pub, server_pub)
    return xor(cbc_mac(device_auth_code, bytes(16), a), aes_block(device_auth_code, CTR0_HANDSHAKE))


def session_authenticate_mac(user_pw_hash: bytes, user_id: int, client_pub: bytes, server_pub: bytes) -> bytes:
    a = bytes.fromhex("061009530018") + b"\x00" + bytes((user_id,)) + xor(client_pub, server_pub)
    return xor(cbc_mac(user_pw_hash, bytes(16), a), aes_block(user_pw_hash, CTR0_HANDSHAKE))


def timer_notify_mac(backbone_key: bytes, timer: int, serial: bytes, tag: bytes) -> bytes:
    t = timer.to_bytes(6, "big")
    mac_cbc = cbc_mac(backbone_key, t + serial + tag + b"\x00\x00", bytes.fromhex("061009550024"))
    return xor(mac_cbc, aes_block(backbone_key, t + serial + tag + b"\xff\x00"))


def timer_notify_frame(backbone_key: bytes, timer: int, serial: bytes, tag: bytes, mac: bytes | None = None) -> bytes:
    m = timer_notify_mac(backbone_key, timer, serial, tag) if mac is None else mac
    return bytes.fromhex("061009550024") + timer.to_bytes(6, "big") + serial + tag + m


def session_key(shared_secret: bytes) -> bytes:
    return hashlib.sha256(shared_secret).digest()[:16]


def pbkdf2(password: str, salt: bytes) -> bytes:
    return hashlib.pbkdf2_hmac("sha256", password.encode("latin-1"), salt, 65536, 16)


def user_password_hash(password: str) -> bytes:
    return pbkdf2(password, b"user-password.1.secure.ip.knx.org")


def device_authentication_code(password: str) -> bytes:
    return pbkdf2(password, b"device-authentication-code.1.secure.ip.knx.org")
