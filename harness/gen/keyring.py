"""Generated table for the keyring model (C31): what xknx/secure/keyring.py *declares*."""
from harness.gen_tables import lean_list, lean_str, section


def _bytes(b: bytes) -> str:
    return lean_list([str(x) for x in b])


@section("Keyring")
def gen_keyring():
    from xknx.secure import keyring as K

    bl = [s.encode("utf-8") for s in K.KeyringSAXContentHandler._attribute_blacklist]
    body = "namespace XknxVerif.Generated.Keyring\n"
    body += "/-- `KeyringSAXContentHandler._attribute_blacklist`, UTF-8 octets -/\n"
    body += f"def blacklist : List (List Nat) := {lean_list([_bytes(b) for b in bl])}\n"
    body += f"def blacklistNames : List String := {lean_list([lean_str(s) for s in K.KeyringSAXContentHandler._attribute_blacklist])}\n"
    # element names the reader selects on
    body += f"def nodeInterface : List Nat := {_bytes(K.XMLInterface.NODE_NAME.encode())}\n"
    body += f"def nodeBackbone : List Nat := {_bytes(K.XMLBackbone.NODE_NAME.encode())}\n"
    body += f"def nodeDevice : List Nat := {_bytes(K.XMLDevice.NODE_NAME.encode())}\n"
    body += f"def nodeGroup : List Nat := {_bytes(K.XMLGroupAddress.NODE_NAME.encode())}\n"
    body += f"def nodeAssignedGroup : List Nat := {_bytes(K.XMLAssignedGroupAddress.NODE_NAME.encode())}\n"
    body += f"def interfaceTypes : List String := {lean_list([lean_str(m.value) for m in K.InterfaceType])}\n"
    # PBKDF2 parameters (the KDF itself is a parameter of the model; recorded so that a change is visible)
    rec = {}

    class _Rec:  # records the parameters hash_keyring_password passes to PBKDF2HMAC
        def __init__(self, **kw):
            rec.update(kw)

        def derive(self, pw):
            return bytes(16)

    real = K.PBKDF2HMAC
    K.PBKDF2HMAC = _Rec
    try:
        K.hash_keyring_password(b"x")
    finally:
        K.PBKDF2HMAC = real
    salt = rec["salt"].decode("ascii")
    iters = int(rec["iterations"])
    length = int(rec["length"])
    assert type(rec["algorithm"]).__name__ == "SHA256"
    body += f"def kdfSalt : String := {lean_str(salt)}\n"
    body += f"def kdfIterations : Nat := {iters}\n"
    body += f"def kdfLength : Nat := {length}\n"
    body += "end XknxVerif.Generated.Keyring\n"
    return body
