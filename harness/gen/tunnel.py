"""Constants the tunnel/heartbeat models depend on (C24, C26), read from the imported modules."""
import inspect

from harness.gen_tables import section


def _us(seconds) -> int:
    us = round(float(seconds) * 1_000_000)
    assert abs(us - float(seconds) * 1_000_000) < 1e-6 and us >= 0, seconds
    return us


@section("TunnelConst")
def tunnel_const():
    from xknx.io import const
    from xknx.io.request_response import DeviceConfiguration, RequestResponse, Tunnelling

    def default_timeout(cls):
        return inspect.signature(cls.__init__).parameters["timeout_in_seconds"].default

    rr = default_timeout(RequestResponse)
    # Tunnelling does not override the RequestResponse default: TUNNELLING_REQUEST_TIMEOUT
    assert "timeout_in_seconds" not in inspect.signature(Tunnelling.__init__).parameters
    rows = [
        ("connectionAliveTime", _us(const.CONNECTION_ALIVE_TIME), "CONNECTION_ALIVE_TIME"),
        ("connectionstateRequestTimeout", _us(const.CONNECTIONSTATE_REQUEST_TIMEOUT), "CONNECTIONSTATE_REQUEST_TIMEOUT"),
        ("heartbeatRate", _us(const.HEARTBEAT_RATE), "HEARTBEAT_RATE"),
        ("tunnellingRequestTimeout", _us(rr), "RequestResponse.__init__ default timeout_in_seconds (used by Tunnelling)"),
        ("deviceConfigurationRequestTimeout", _us(default_timeout(DeviceConfiguration)),
         "DeviceConfiguration.__init__ default timeout (DEVICE_CONFIGURATION_REQUEST_TIMEOUT)"),
        ("deviceConfigurationRequestRepetitions", int(const.DEVICE_CONFIGURATION_REQUEST_REPETITIONS),
         "DEVICE_CONFIGURATION_REQUEST_REPETITIONS (a count, not a time)"),
    ]
    out = ["/-! Times are in microseconds (the unit of `harness.vloop.q`). -/", "namespace XknxVerif.Generated.TunnelConst", ""]
    for name, val, src in rows:
        out.append(f"/-- {src} -/")
        out.append(f"def {name} : Nat := {val}")
    out.append("")
    out.append("end XknxVerif.Generated.TunnelConst")
    return "\n".join(out) + "\n"
