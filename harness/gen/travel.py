"""
Constants the cover travel calculator declares (C40): the position scale
(`position_closed`, `position_open` of a fresh TravelCalculator — the divisor of
`calculate_travel_time`) and the `TravelStatus` members.
"""
from harness.gen_tables import lean_int, lean_list, lean_str, section


@section("Travel")
def travel():
    from xknx.devices.travelcalculator import TravelCalculator, TravelStatus

    tc = TravelCalculator(25, 25)
    members = [(m.name, m.value) for m in TravelStatus]
    return (
        "namespace XknxVerif.Generated.Travel\n\n"
        "/-- `TravelCalculator.position_closed` (the divisor in `calculate_travel_time`). -/\n"
        f"def positionClosed : Int := {lean_int(tc.position_closed)}\n"
        "/-- `TravelCalculator.position_open` -/\n"
        f"def positionOpen : Int := {lean_int(tc.position_open)}\n"
        "/-- `TravelStatus` members (name, value) -/\n"
        f"def travelStatus : List (String × Int) := {lean_list('(%s, %s)' % (lean_str(n), lean_int(v)) for n, v in members)}\n"
        "/-- initial `_last_known_position_timestamp` is 0.0, position unknown, not confirmed, no target, STOPPED -/\n"
        f"def initialDirection : String := {lean_str(tc.travel_direction.name)}\n"
        "\nend XknxVerif.Generated.Travel\n"
    )
