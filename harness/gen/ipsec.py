"""Generated table: KNX IP Secure declarations of xknx/io/ip_secure.py, xknx/io/const.py and the service-type enum."""
from harness.gen_tables import lean_list, lean_str, section


@section("IPSecure")
def gen_ipsecure():
    from xknx.io import ip_secure as m
    from xknx.io.const import SESSION_KEEPALIVE_RATE, XKNX_SERIAL_NUMBER
    from xknx.knxip.knxip_enum import KNXIPServiceType as S, SecureSessionStatusCode as C

    ms = round(SESSION_KEEPALIVE_RATE * 1000)
    if abs(SESSION_KEEPALIVE_RATE * 1000 - ms) > 1e-6:
        raise ValueError("SESSION_KEEPALIVE_RATE is not a whole number of milliseconds")
    body = "namespace XknxVerif.Generated.IPSecure\n"
    body += "/-- KNXIPServiceType members -/\n"
    body += "def services : List (String × Nat) := " + lean_list(f"({lean_str(x.name)}, {x.value})" for x in S) + "\n"
    for nm, x in (("secureWrapper", S.SECURE_WRAPPER), ("sessionRequest", S.SESSION_REQUEST), ("sessionResponse", S.SESSION_RESPONSE),
                  ("sessionAuthenticate", S.SESSION_AUTHENTICATE), ("sessionStatus", S.SESSION_STATUS), ("timerNotify", S.TIMER_NOTIFY)):
        body += f"def {nm} : Nat := {x.value}\n"
    body += "/-- FORBIDDEN_WRAPPED_SERVICES -/\n"
    body += "def forbiddenWrapped : List Nat := " + lean_list(str(x.value) for x in m.FORBIDDEN_WRAPPED_SERVICES) + "\n"
    body += "/-- PLAIN_MULTICAST_SERVICES -/\n"
    body += "def plainMulticast : List Nat := " + lean_list(str(x.value) for x in m.PLAIN_MULTICAST_SERVICES) + "\n"
    body += "/-- SESSION_KEEPALIVE_RATE in ms -/\n" + f"def keepaliveMs : Nat := {ms}\n"
    body += f"def statusKeepalive : Nat := {C.STATUS_KEEPALIVE.value}\n"
    body += f"def statusClose : Nat := {C.STATUS_CLOSE.value}\n"
    body += "/-- XKNX_SERIAL_NUMBER -/\n" + "def xknxSerial : List Nat := " + lean_list(str(b) for b in XKNX_SERIAL_NUMBER) + "\n"
    body += "/-- SecureSequenceTimer class constants (ms / percent) -/\n"
    T = m.SecureSequenceTimer
    body += f"def minDelayKeeperPeriodicMs : Nat := {round(T.MIN_DELAY_TIME_KEEPER_PERIODIC_NOTIFY * 1000)}\n"
    body += f"def minDelayKeeperUpdateMs : Nat := {round(T.MIN_DELAY_TIME_KEEPER_UPDATE_NOTIFY * 1000)}\n"
    body += f"def syncLatencyFraction : Nat := {T.SYNC_LATENCY_FRACTION}\n"
    body += "end XknxVerif.Generated.IPSecure\n"
    return body
