"""Generated tables: constants the state-updater model depends on (declared in xknx/core/state_updater.py, value_reader.py)."""
import inspect

from harness.gen_tables import lean_list, lean_str, section


@section("StateUpdaterConst")
def gen_state_updater_const():
    from xknx.core import state_updater as su
    from xknx.core.value_reader import ValueReader

    par = inspect.signature(su.StateUpdater.__init__).parameters["parallel_reads"].default
    to = inspect.signature(ValueReader.__init__).parameters["timeout_in_seconds"].default
    to_us = int(round(float(to) * 1_000_000))
    assert abs(to_us - float(to) * 1_000_000) < 1e-6
    rows = [f"({lean_str(m.name)}, {m.value})" for m in su.StateTrackerType]
    body = "namespace XknxVerif.Generated.StateUpdaterConst\n"
    body += f"def defaultUpdateIntervalMin : Nat := {int(su.DEFAULT_UPDATE_INTERVAL)}\n"
    body += f"def maxUpdateIntervalMin : Nat := {int(su.MAX_UPDATE_INTERVAL)}\n"
    body += f"def parallelReads : Nat := {int(par)}\n"
    body += f"def readTimeoutUs : Nat := {to_us}\n"
    body += f"def trackerTypes : List (String × Nat) := {lean_list(rows)}\n"
    body += "end XknxVerif.Generated.StateUpdaterConst\n"
    return body
