"""
Python string predicates that xknx's address / filter parsers rely on, as
code-point ranges, regenerated from the running interpreter (`str.isdigit`,
`re` `\\d`, what `int()` accepts as digit / surrounding whitespace, `str.isspace`
for `strip()`, `str.lower`, the int-string digit limit) and the address field
maxima declared by the code.
"""
import hashlib
import json
import os
import re
import sys
import tempfile
import unicodedata
from pathlib import Path

from harness.gen_tables import lean_int, lean_list, lean_str, section

MAXCP = 0x110000


def _ranges(pred):
    out, start = [], None
    for c in range(MAXCP):
        if pred(c):
            if start is None:
                start = c
        elif start is not None:
            out.append((start, c - 1))
            start = None
    if start is not None:
        out.append((start, MAXCP - 1))
    return out


def _valued_ranges(val):
    """Ranges (lo, hi, v0) such that val(c) == v0 + (c - lo) for lo <= c <= hi; None = not in class."""
    out, cur = [], None
    for c in range(MAXCP):
        v = val(c)
        if v is None:
            if cur:
                out.append(tuple(cur))
                cur = None
            continue
        if cur and c == cur[1] + 1 and v == cur[2] + (c - cur[0]):
            cur[1] = c
        else:
            if cur:
                out.append(tuple(cur))
            cur = [c, c, v]
    if cur:
        out.append(tuple(cur))
    return out


def _int_digit(c):
    try:
        v = int(chr(c))
    except ValueError:
        return None
    return v


_RE_D = re.compile(r"\d")


def _re_digit(c):
    ch = chr(c)
    if _RE_D.fullmatch(ch) is None:
        return None
    # value that int() gives to the matched character (the code calls int(match.group()))
    try:
        return int(ch)
    except ValueError:
        return 10 ** 9  # poison: \d matched something int() rejects; theorems will fail


def _int_space(c):
    ch = chr(c)
    if ch in "+-_" or _int_digit(c) is not None:
        return False
    try:
        return int(ch + "7") == 7 and int("7" + ch) == 7
    except ValueError:
        return False


def pairs(rs):
    return lean_list(f"({a}, {b})" for a, b in rs)


def triples(rs):
    return lean_list(f"({a}, {b}, {v})" for a, b, v in rs)


def _compute():
    return {
        "isdigit": _ranges(lambda c: chr(c).isdigit()),
        "isspace": _ranges(lambda c: chr(c).isspace()),
        "intspace": _ranges(_int_space),
        "intdigit": _valued_ranges(_int_digit),
        "redigit": _valued_ranges(_re_digit),
        "lower_i": [c for c in range(MAXCP) if chr(c).lower() == "i"],
    }


def _tables():
    """The sweep over all 0x110000 code points takes ~4 s; its result is a function of the interpreter
    build only, so it is cached per (interpreter version string, unidata version, this file)."""
    key = hashlib.sha256((sys.version + unicodedata.unidata_version + Path(__file__).read_text()).encode()).hexdigest()[:16]
    cache = Path(tempfile.gettempdir()) / f"xknx-verif-unicode-{key}.json"
    if cache.exists():
        try:
            return json.loads(cache.read_text())
        except Exception:  # noqa: BLE001
            pass
    t = _compute()
    try:
        tmp = cache.with_suffix(f".{os.getpid()}.tmp")
        tmp.write_text(json.dumps(t))
        tmp.replace(cache)
    except OSError:
        pass
    return json.loads(json.dumps(t))


@section("Unicode")
def unicode_tables():
    t = _tables()
    isdigit, isspace, intspace = t["isdigit"], t["isspace"], t["intspace"]
    intdigit, redigit, lower_i = t["intdigit"], t["redigit"], t["lower_i"]
    return f"""
namespace XknxVerif.Generated.Unicode

/-- Unicode database of the interpreter the harness runs: {unicodedata.unidata_version}; Python {sys.version_info[0]}.{sys.version_info[1]} -/
def unidataVersion : String := {lean_str(unicodedata.unidata_version)}

/-- code points `c` with `chr(c).isdigit()` (inclusive ranges) -/
def isdigitRanges : List (Nat × Nat) := {pairs(isdigit)}

/-- code points matched by `re` `\\d` (str pattern), as (lo, hi, value of lo): value(c) = v0 + (c - lo) is `int(chr(c))` -/
def reDigitRanges : List (Nat × Nat × Nat) := {triples(redigit)}

/-- code points `int()` accepts as a base-10 digit, as (lo, hi, value of lo) -/
def intDigitRanges : List (Nat × Nat × Nat) := {triples(intdigit)}

/-- code points `int()` skips before / after the literal -/
def intSpaceRanges : List (Nat × Nat) := {pairs(intspace)}

/-- code points `c` with `chr(c).isspace()` (what `str.strip()` removes) -/
def isspaceRanges : List (Nat × Nat) := {pairs(isspace)}

/-- code points `c` with `chr(c).lower() == "i"` -/
def lowerIsI : List Nat := {lean_list(str(c) for c in lower_i)}

/-- `sys.get_int_max_str_digits()` -/
def intMaxStrDigits : Nat := {sys.get_int_max_str_digits()}

end XknxVerif.Generated.Unicode
"""


@section("AddressConst")
def address_consts():
    from xknx.telegram.address import GroupAddress, GroupAddressType, IndividualAddress

    ga, ia = GroupAddress, IndividualAddress
    fmts = {m.name: m.value for m in GroupAddressType}
    return f"""
namespace XknxVerif.Generated.AddressConst

def gaMaxMain : Nat := {lean_int(ga.MAX_MAIN)}
def gaMaxMiddle : Nat := {lean_int(ga.MAX_MIDDLE)}
def gaMaxSubLong : Nat := {lean_int(ga.MAX_SUB_LONG)}
def gaMaxSubShort : Nat := {lean_int(ga.MAX_SUB_SHORT)}
def gaMaxFree : Nat := {lean_int(ga.MAX_FREE)}
def iaMaxArea : Nat := {lean_int(ia.MAX_AREA)}
def iaMaxMain : Nat := {lean_int(ia.MAX_MAIN)}
def iaMaxLine : Nat := {lean_int(ia.MAX_LINE)}
/-- the regular expressions the constructors match against (informational; the model hand-mirrors them) -/
def gaRegex : String := {lean_str(ga.ADDRESS_RE.pattern)}
def iaRegex : String := {lean_str(ia.ADDRESS_RE.pattern)}
/-- GroupAddressType members (name, value) -/
def formats : List (String × Nat) := {lean_list(f"({lean_str(k)}, {v})" for k, v in fmts.items())}

end XknxVerif.Generated.AddressConst
"""
