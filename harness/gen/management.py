"""Generated tables: constants of xknx.management.management (C43) in ticks of 2**-20 s."""
from harness.gen_tables import lean_list, section

TICKS_PER_SECOND = 2 ** 20


def ticks(seconds):
    t = seconds * TICKS_PER_SECOND
    if t != int(t) or t <= 0:
        raise ValueError(f"timeout {seconds!r} is not a positive multiple of 2**-20 s")
    return int(t)


@section("Management")
def gen_management():
    from xknx.management import management as m

    gen = m.P2PConnection._sequence_number_generator()
    cycle = [next(gen) for _ in range(34)]
    body = "namespace XknxVerif.Generated.Management\n"
    body += f"def ticksPerSecond : Nat := {TICKS_PER_SECOND}\n"
    body += f"/-- MANAGAMENT_ACK_TIMEOUT = {m.MANAGAMENT_ACK_TIMEOUT!r} s -/\n"
    body += f"def ackTimeout : Nat := {ticks(m.MANAGAMENT_ACK_TIMEOUT)}\n"
    body += f"/-- MANAGAMENT_CONNECTION_TIMEOUT = {m.MANAGAMENT_CONNECTION_TIMEOUT!r} s -/\n"
    body += f"def connectionTimeout : Nat := {ticks(m.MANAGAMENT_CONNECTION_TIMEOUT)}\n"
    body += "/-- first 34 values of P2PConnection._sequence_number_generator() -/\n"
    body += f"def sequenceNumbers : List Nat := {lean_list(str(x) for x in cycle)}\n"
    body += "end XknxVerif.Generated.Management\n"
    return body


@section("DeviceConfig")
def gen_device_config():
    from xknx.io import const as c
    from xknx.io.request_response.request_response import RequestResponse
    import inspect

    default_rr_timeout = inspect.signature(RequestResponse.__init__).parameters["timeout_in_seconds"].default
    body = "namespace XknxVerif.Generated.DeviceConfig\n"
    body += f"/-- DEVICE_CONFIGURATION_REQUEST_TIMEOUT = {c.DEVICE_CONFIGURATION_REQUEST_TIMEOUT!r} s, in ticks of 2^-20 s -/\n"
    body += f"def requestTimeout : Nat := {ticks(c.DEVICE_CONFIGURATION_REQUEST_TIMEOUT)}\n"
    body += f"def requestRepetitions : Nat := {int(c.DEVICE_CONFIGURATION_REQUEST_REPETITIONS)}\n"
    body += f"/-- default RequestResponse timeout (used by the Disconnect exchange) = {default_rr_timeout!r} s -/\n"
    body += f"def disconnectTimeout : Nat := {ticks(default_rr_timeout)}\n"
    body += "end XknxVerif.Generated.DeviceConfig\n"
    return body
