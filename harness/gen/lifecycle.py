"""Generated tables for C25 / C14: connection states, io timing constants, cEMI confirmation timeout."""
from harness.gen_tables import lean_list, lean_str, section


@section("ConnState")
def gen_conn_state():
    from xknx.core.connection_state import XknxConnectionState
    from xknx.io import const

    rows = [f"({lean_str(m.name)}, {lean_str(str(m.value))})" for m in XknxConnectionState]
    body = "namespace XknxVerif.Generated.ConnState\n"
    body += f"def members : List (String × String) := {lean_list(rows)}\n"
    body += f"def heartbeatRate : Nat := {int(const.HEARTBEAT_RATE)}\n"
    body += f"def connectionstateRequestTimeout : Nat := {int(const.CONNECTIONSTATE_REQUEST_TIMEOUT)}\n"
    body += f"def connectionAliveTime : Nat := {int(const.CONNECTION_ALIVE_TIME)}\n"
    body += "end XknxVerif.Generated.ConnState\n"
    return body
