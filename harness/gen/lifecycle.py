"""Generated tables for C25 / C14: connection states, io timing constants, cEMI confirmation timeout."""
from harness.gen_tables import lean_list, lean_str, section


@section("ConnState")
def gen_conn_state():
    from xknx.core.connection_state import XknxConnectionState
    from xknx.io import const

    rows = [f"({lean_str(m.name)}, {lean_str(str(m.value))})" for m in XknxConnectionState]
    body = "namespace XknxVerif.Generated.ConnState\n"
    body += f"def members : List (String × String) := {lean_list(rows)}\n"
    body += f"def heartbeatRate : Nat := {int(const.HEARTBEAT_RATE)}\n"
    body += f"def connectionstateRequestTimeout : Nat := {int(const.CONNECTIONSTATE_REQUEST_TIMEOUT)}\n"
    body += f"def connectionAliveTime : Nat := {int(const.CONNECTION_ALIVE_TIME)}\n"
    body += "end XknxVerif.Generated.ConnState\n"
    return body


@section("CemiCodes")
def gen_cemi_codes():
    from xknx.cemi import cemi_handler
    from xknx.cemi.const import CEMIMessageCode

    body = "namespace XknxVerif.Generated.CemiCodes\n"
    rows = [f"({lean_str(n)}, {m.value})" for n, m in CEMIMessageCode.__members__.items()]
    body += f"def members : List (String × Nat) := {lean_list(rows)}\n"
    for n, m in CEMIMessageCode.__members__.items():
        body += f"def {n.lower()} : Nat := {m.value}\n"
    body += f"def requestToConfirmationTimeout : Nat := {int(cemi_handler.REQUEST_TO_CONFIRMATION_TIMEOUT)}\n"
    body += "end XknxVerif.Generated.CemiCodes\n"
    return body
