"""Generated table: routing flow-control constants (xknx/io/routing.py), in integer microseconds."""
from harness.gen_tables import section


def _us(x):
    v = round(x * 1_000_000)
    if abs(x * 1_000_000 - v) > 1e-6 or v < 0:
        raise ValueError(f"constant {x!r} is not a whole number of microseconds")
    return v


@section("RoutingConsts")
def gen_routing_consts():
    from xknx.io import routing as r

    body = "namespace XknxVerif.Generated.RoutingConsts\n"
    body += "/-- BUSY_DECREMENT_TIME -/\n" f"def decUs : Nat := {_us(r.BUSY_DECREMENT_TIME)}\n"
    body += "/-- BUSY_INCREMENT_COOLDOWN -/\n" f"def coolUs : Nat := {_us(r.BUSY_INCREMENT_COOLDOWN)}\n"
    body += "/-- BUSY_RANDOM_TIME_FACTOR -/\n" f"def randUs : Nat := {_us(r.BUSY_RANDOM_TIME_FACTOR)}\n"
    body += "/-- BUSY_SLOWDURATION_TIME_FACTOR -/\n" f"def slowUs : Nat := {_us(r.BUSY_SLOWDURATION_TIME_FACTOR)}\n"
    body += "/-- ROUTING_INDICATION_WAIT_TIME -/\n" f"def indWaitUs : Nat := {_us(r.ROUTING_INDICATION_WAIT_TIME)}\n"
    body += "end XknxVerif.Generated.RoutingConsts\n"
    return body
