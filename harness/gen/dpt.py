"""Generated/DPTTable.lean: one row per concrete DPT class, from the imported modules."""
from __future__ import annotations

import dataclasses
import math
import types
import typing
from fractions import Fraction

from harness.gen_tables import lean_int, lean_list, lean_str, section


def lean_num(x) -> str:
    """Python int/float -> XknxVerif.DPT.PyNum literal (floats as exact multiples of 2^-1074)."""
    if isinstance(x, bool):
        x = int(x)
    if isinstance(x, int):
        return f"(.int {lean_int(x)})"
    if x != x:
        return "(.flt .nan)"
    if math.isinf(x):
        return f"(.flt (.inf {'true' if x < 0 else 'false'}))"
    n = Fraction(abs(x)) * (1 << 1074)
    assert n.denominator == 1
    neg = "true" if math.copysign(1.0, x) < 0 else "false"
    return f"(.flt (.fin {neg} {n.numerator}))"


def enum_table(e) -> str:
    return lean_list([f"({lean_str(m.name)}, {int(m.value)})" for m in e])


def _strip_optional(hint):
    if isinstance(hint, types.UnionType) or typing.get_origin(hint) is typing.Union:
        args = [a for a in typing.get_args(hint) if a is not type(None)]
        if len(args) == 1:
            return args[0]
    return hint


def enum_roles(cls, fam):
    from xknx.dpt.dpt import DPTEnumData

    if fam == "enum":
        return [("data", cls.data_type)]
    if fam == "binctl":
        return [("data", cls.data_type._value_type)]
    dt = getattr(cls, "data_type", None)
    if dt is None or not dataclasses.is_dataclass(dt):
        return []
    out = []
    hints = typing.get_type_hints(dt)
    for f in dataclasses.fields(dt):
        h = _strip_optional(hints[f.name])
        if isinstance(h, type) and issubclass(h, DPTEnumData):
            out.append((f.name, h))
        elif isinstance(h, type) and dataclasses.is_dataclass(h):
            for g in dataclasses.fields(h):
                hh = _strip_optional(typing.get_type_hints(h)[g.name])
                if isinstance(hh, type) and issubclass(hh, DPTEnumData) and (g.name, hh) not in out:
                    out.append((g.name, hh))
    return out


@section("DPTTable")
def dpt_table():
    from harness import dptlib as D

    rows = []
    for cls in D.CLASSES:
        fam = D.family(cls)
        lfam = "unmodelled" if fam.startswith("unmodelled") else fam
        fields = [f"name := {lean_str(cls.__name__)}", f"family := .{lfam}",
                  f"kind := .{'binary' if D.kind(cls) == 'b' else 'array'}", f"length := {int(cls.payload_length)}"]
        if D.is_numeric(cls):
            fields += [f"vmin := {lean_num(cls.value_min)}", f"vmax := {lean_num(cls.value_max)}", f"res := {lean_num(cls.resolution)}"]
        fmt = ""
        if hasattr(cls, "_struct_format"):
            fmt = cls._struct_format
        elif hasattr(cls, "_encoding"):
            fmt = cls._encoding
        if fmt:
            fields.append(f"fmt := {lean_str(fmt)}")
        roles = enum_roles(cls, lfam)
        if roles:
            fields.append("enums := " + lean_list([f"({lean_str(r)}, {enum_table(e)})" for r, e in roles]))
        if hasattr(cls, "get_dict_schema"):
            sch = cls.get_dict_schema()
            fields.append("schema := " + lean_list([f"({lean_str(s['name'])}, {lean_str(s['type'])})" for s in sch]))
        rows.append("  { " + ", ".join(fields) + " }" + (f"  -- {fam}" if lfam == "unmodelled" else ""))
    body = "import XknxVerif.Model.DPT.Types\n\nnamespace XknxVerif.DPT.Generated\nopen XknxVerif.DPT\n\n"
    body += f"/-- {len(rows)} concrete DPT classes (DPTBase.dpt_class_tree), sorted by name -/\n"
    body += "def table : List Row := [\n" + ",\n".join(rows) + "\n]\n\nend XknxVerif.DPT.Generated\n"
    return body


@section("DPTParams")
def dpt_params():
    """Distinct numeric parameter tuples of the families whose theorems are proved by numeric sweeps."""
    from harness import dptlib as D

    s16 = []
    for cls in D.CLASSES:
        if D.FAM[cls.__name__] == "s16":
            t = (lean_num(cls.value_min), lean_num(cls.value_max), lean_num(cls.resolution))
            if t not in s16:
                s16.append(t)
    body = "import XknxVerif.Model.DPT.Types\n\nnamespace XknxVerif.DPT.Generated\nopen XknxVerif.DPT\n\n"
    body += "/-- distinct (value_min, value_max, resolution) of the DPT 8 classes -/\n"
    body += "def s16ParamList : List (PyNum × PyNum × PyNum) := [\n" + ",\n".join(f"  ({a}, {b}, {c})" for a, b, c in s16) + "\n]\n"
    body += "\nend XknxVerif.DPT.Generated\n"
    return body
