"""Generated tables: KNX/IP enums used by several models."""
from harness.gen_tables import lean_list, lean_str, section


@section("ServiceFamily")
def gen_service_family():
    from xknx.knxip.knxip_enum import DIBServiceFamily

    rows = [f"({lean_str(m.name)}, {m.value})" for m in DIBServiceFamily]
    body = "namespace XknxVerif.Generated.ServiceFamily\n"
    body += f"def members : List (String × Nat) := {lean_list(rows)}\n"
    for m in DIBServiceFamily:
        body += f"def {m.name.lower()} : Nat := {m.value}\n"
    body += "end XknxVerif.Generated.ServiceFamily\n"
    return body


# --------------------------------------------------------------------------
# C20/C21/C22: every enum and structure-length constant the KNX/IP frame
# parsers declare, plus the service-type -> body-class dispatch of
# KNXIPFrame.from_knx (which service types have a body class at all).
# --------------------------------------------------------------------------

def _enum_ns(ns, enum_cls):
    rows = [f"({lean_str(m.name)}, {m.value})" for m in enum_cls]
    body = f"namespace {ns}\n"
    body += f"def members : List (String × Nat) := {lean_list(rows)}\n"
    body += f"def codes : List Nat := {lean_list(str(m.value) for m in enum_cls)}\n"
    for m in enum_cls:
        body += f"def {m.name.lower()} : Nat := {m.value}\n"
    body += f"end {ns}\n"
    return body


@section("KNXIPEnums")
def gen_knxip_enums():
    from xknx.knxip import knxip_enum as ke
    from xknx.knxip.error_code import ErrorCode
    from xknx.telegram.apci import ReturnCode

    root = "XknxVerif.Generated.KNXIP"
    out = ""
    for name, cls in [
        ("ServiceType", ke.KNXIPServiceType),
        ("ErrorCode", ErrorCode),
        ("ConnectRequestType", ke.ConnectRequestType),
        ("TunnellingLayer", ke.TunnellingLayer),
        ("DIBTypeCode", ke.DIBTypeCode),
        ("HostProtocol", ke.HostProtocol),
        ("KNXMedium", ke.KNXMedium),
        ("DIBServiceFamily", ke.DIBServiceFamily),
        ("SecureSessionStatusCode", ke.SecureSessionStatusCode),
        ("SRPType", ke.SearchRequestParameterType),
        ("TunnellingFeatureType", ke.TunnellingFeatureType),
        ("ReturnCode", ReturnCode),
    ]:
        out += _enum_ns(f"{root}.{name}", cls)
    return out


@section("KNXIPConst")
def gen_knxip_const():
    import xknx.knxip as k
    from xknx.knxip import (connect_request, connect_response, dib, secure_wrapper, srp, tunnelling_feature)
    from xknx.knxip.body import KNXIPBody
    from xknx.knxip.header import KNXIPHeader
    from xknx.knxip.hpai import HPAI

    consts = {
        "headerLength": KNXIPHeader.HEADERLENGTH,
        "protocolVersion": KNXIPHeader.PROTOCOLVERSION,
        "hpaiLength": HPAI.LENGTH,
        "criLength": connect_request.ConnectRequestInformation.CRI_LENGTH,
        "criTunnelLength": connect_request.ConnectRequestInformation.CRI_TUNNEL_LENGTH,
        "criTunnelExtLength": connect_request.ConnectRequestInformation.CRI_TUNNEL_EXT_LENGTH,
        "crdLength": connect_response.ConnectResponseData.CRD_LENGTH,
        "crdTunnelLength": connect_response.ConnectResponseData.CRD_TUNNEL_LENGTH,
        "dibHeaderLength": dib.DIB_HEADER_LENGTH,
        "dibDeviceInfoLength": dib.DIBDeviceInformation.LENGTH,
        "connectionStateResponseLength": k.ConnectionStateResponse.LENGTH,
        "disconnectResponseLength": k.DisconnectResponse.LENGTH,
        "deviceConfigurationAckLength": k.DeviceConfigurationAck.BODY_LENGTH,
        "deviceConfigurationRequestHeaderLength": k.DeviceConfigurationRequest.HEADER_LENGTH,
        "tunnellingAckLength": k.TunnellingAck.BODY_LENGTH,
        "tunnellingRequestHeaderLength": k.TunnellingRequest.HEADER_LENGTH,
        "tunnellingFeatureHeaderLength": tunnelling_feature._TunnellingFeature.HEADER_LENGTH,
        "tunnellingFeatureIdLength": tunnelling_feature._TunnellingFeature.FEATURE_ID_LENGTH,
        "routingBusyLength": k.RoutingBusy.BODY_LENGTH,
        "routingLostMessageLength": k.RoutingLostMessage.BODY_LENGTH,
        "securityInformationLength": secure_wrapper.SECURITY_INFORMATION_LENGTH,
        "macLength": secure_wrapper.MESSAGE_AUTHENTICATION_CODE_LENGTH,
        "secureWrapperMinimumLength": secure_wrapper.SECURE_WRAPPER_MINIMUM_LENGTH,
        "sessionRequestLength": k.SessionRequest.LENGTH,
        "sessionResponseLength": k.SessionResponse.LENGTH,
        "sessionAuthenticateLength": k.SessionAuthenticate.LENGTH,
        "sessionStatusLength": k.SessionStatus.LENGTH,
        "timerNotifyLength": k.TimerNotify.LENGTH,
        "srpHeaderSize": srp.SRP.SRP_HEADER_SIZE,
        "srpServicePayloadLength": srp.SRP.SERVICE_PAYLOAD_LENGTH,
        "srpMacPayloadLength": srp.SRP.MAC_ADDRESS_PAYLOAD_LENGTH,
    }

    def subclasses(c):
        for s in c.__subclasses__():
            yield s
            yield from subclasses(s)

    # which service types have a body class (KNXIPFrame.from_knx dispatches on SERVICE_TYPE of these classes)
    impl = {}
    for c in subclasses(KNXIPBody):
        st = getattr(c, "SERVICE_TYPE", None)
        if st is not None and not c.__name__.startswith("_"):
            impl[st] = c.__name__
    body = "namespace XknxVerif.Generated.KNXIP.Const\n"
    for n, v in consts.items():
        body += f"def {n} : Nat := {int(v)}\n"
    rows = [f"({lean_str(c)}, {st.value})" for st, c in sorted(impl.items(), key=lambda kv: kv[0].value)]
    body += f"/-- body class name and service type code of every service type that has a body class -/\n"
    body += f"def implemented : List (String × Nat) := {lean_list(rows)}\n"
    body += "end XknxVerif.Generated.KNXIP.Const\n"
    return body
