"""Generated tables: KNX/IP enums used by several models."""
from harness.gen_tables import lean_list, lean_str, section


@section("ServiceFamily")
def gen_service_family():
    from xknx.knxip.knxip_enum import DIBServiceFamily

    rows = [f"({lean_str(m.name)}, {m.value})" for m in DIBServiceFamily]
    body = "namespace XknxVerif.Generated.ServiceFamily\n"
    body += f"def members : List (String × Nat) := {lean_list(rows)}\n"
    for m in DIBServiceFamily:
        body += f"def {m.name.lower()} : Nat := {m.value}\n"
    body += "end XknxVerif.Generated.ServiceFamily\n"
    return body
