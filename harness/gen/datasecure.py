"""Generated table for KNX Data Secure (C15-C19): enum members and constants the code declares."""
from harness.gen_tables import section, lean_list


@section("DataSecure")
def gen():
    from xknx.cemi.flags import CEMIAddressType, CEMIFrameFormat
    from xknx.secure import data_secure, data_secure_asdu as asdu
    from xknx.telegram.apci import APCIExtendedService, SecureAPDU

    def members(enum):
        return lean_list(f"({m.value}, \"{m.name}\")" for m in enum)

    return "\n".join([
        "namespace XknxVerif.Generated.DataSecure",
        f"/-- `SecurityAlgorithmIdentifier` members (value, name). -/",
        f"def algorithms : List (Nat × String) := {members(asdu.SecurityAlgorithmIdentifier)}",
        f"def algAuth : Nat := {int(asdu.SecurityAlgorithmIdentifier.CCM_AUTHENTICATION)}",
        f"def algEnc : Nat := {int(asdu.SecurityAlgorithmIdentifier.CCM_ENCRYPTION)}",
        f"/-- `SecurityALService` members. -/",
        f"def services : List (Nat × String) := {members(asdu.SecurityALService)}",
        f"def svcData : Nat := {int(asdu.SecurityALService.S_A_DATA)}",
        f"def apciSecHigh : Nat := {asdu._APCI_SEC_HIGH}",
        f"def apciSecLow : Nat := {asdu._APCI_SEC_LOW}",
        f"/-- `APCIExtendedService.APCI_SEC` (= `SecureAPDU.CODE`). -/",
        f"def apciSec : Nat := {int(SecureAPDU.CODE.value)}",
        f"def apciSecIsExt : Bool := {'true' if SecureAPDU.CODE is APCIExtendedService.APCI_SEC else 'false'}",
        f"def sequenceNumberMax : Nat := {data_secure._SEQUENCE_NUMBER_MAX}",
        f"def addressTypeGroupBit : Nat := {CEMIAddressType.GROUP.to_knx()}",
        f"def addressTypeIndividualBit : Nat := {CEMIAddressType.INDIVIDUAL.to_knx()}",
        f"/-- `CEMIFrameFormat` members. -/",
        f"def frameFormats : List (Nat × String) := {members(CEMIFrameFormat)}",
        "end XknxVerif.Generated.DataSecure",
        "",
    ])
