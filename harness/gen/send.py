"""Generated table for the send model (C11): limits the code declares."""
import inspect

from harness.gen_tables import lean_list, lean_str, section


@section("Send")
def gen_send():
    from xknx.cemi.const import MAX_NPDU_LENGTH
    from xknx.dpt import DPTArray, DPTBase, DPTBinary
    from xknx.telegram.apci import APCIService

    rows = []
    for d in DPTBase.dpt_class_tree():
        if inspect.isabstract(d):
            continue
        kind = "A" if d.payload_type is DPTArray else "B"
        rows.append(f"({lean_str(d.__name__)}, {lean_str(kind)}, {int(d.payload_length)})")
    body = "namespace XknxVerif.Generated.Send\n"
    body += f"def maxNpduLength : Nat := {int(MAX_NPDU_LENGTH)}\n"
    body += f"def apciBitmask : Nat := {int(DPTBinary.APCI_BITMASK)}\n"
    body += f"def groupWrite : Nat := {int(APCIService.GROUP_WRITE.value)}\n"
    body += f"def groupResponse : Nat := {int(APCIService.GROUP_RESPONSE.value)}\n"
    body += "/-- every concrete DPT class: name, payload kind (A = DPTArray, B = DPTBinary), declared payload_length -/\n"
    body += "def dptPayloads : List (String × String × Nat) := [\n  " + ",\n  ".join(rows) + "]\n"
    body += "end XknxVerif.Generated.Send\n"
    return body
