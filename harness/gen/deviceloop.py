"""
Data the device loop (C39) depends on, read off the imported modules / freshly constructed devices:
every `RemoteValueScaling` range a device class configures (for both values of each invert flag), the count range of
the set-point shift datapoint (DPT 6.010) and of the 1-octet counter used for fan steps, the climate defaults
(shift limits, temperature step) and the fan default turn-on speed, the members of the direction / mode enums.
"""
from fractions import Fraction

from harness.gen_tables import lean_int, lean_list, lean_str, section


def _scaling_rows():
    from xknx import XKNX
    from xknx.devices import Climate, Cover, Fan, Light
    from xknx.devices.fan import FanSpeedMode
    from xknx.remote_value import RemoteValueScaling

    x = XKNX()
    rows = []

    def add(dev, label):
        for rv in dev._iter_remote_values():
            if isinstance(rv, RemoteValueScaling):
                rows.append((label, rv.feature_name, int(rv.range_from), int(rv.range_to)))

    for ip in (False, True):
        for ia in (False, True):
            add(Cover(x, "c", invert_position=ip, invert_angle=ia), f"Cover(invert_position={ip},invert_angle={ia})")
    add(Light(x, "l"), "Light")
    add(Fan(x, "f"), "Fan")
    add(Climate(x, "k"), "Climate")
    add(Climate(x, "k", fan_speed_mode=FanSpeedMode.STEP), "Climate(STEP)")
    return rows


@section("DeviceLoop")
def deviceloop():
    from xknx.devices import climate, fan
    from xknx.dpt import DPTValue1Count, DPTValue1Ucount
    from xknx.remote_value.remote_value_setpoint_shift import SetpointShiftMode
    from xknx.remote_value.remote_value_step import RemoteValueStep
    from xknx.remote_value.remote_value_updown import RemoteValueUpDown

    rows = _scaling_rows()
    step = Fraction(str(climate.DEFAULT_TEMPERATURE_STEP))  # the decimal the source spells, not its binary64 value
    smin, smax = Fraction(str(climate.DEFAULT_SETPOINT_SHIFT_MIN)), Fraction(str(climate.DEFAULT_SETPOINT_SHIFT_MAX))
    body = "namespace XknxVerif.Generated.DeviceLoop\n\n"
    body += "/-- every RemoteValueScaling a device class configures: (device configuration, feature, range_from, range_to) -/\n"
    body += "def scalingRanges : List (String × String × Int × Int) := [\n  " + ",\n  ".join(
        f"({lean_str(a)}, {lean_str(b)}, {lean_int(c)}, {lean_int(d)})" for a, b, c, d in rows) + "]\n"
    body += "/-- DPT 6.010 (set-point shift count): value_min, value_max -/\n"
    body += f"def countMin : Int := {lean_int(int(DPTValue1Count.value_min))}\ndef countMax : Int := {lean_int(int(DPTValue1Count.value_max))}\n"
    body += "/-- DPT 5.010 (fan step): value_min, value_max -/\n"
    body += f"def ucountMin : Int := {lean_int(int(DPTValue1Ucount.value_min))}\ndef ucountMax : Int := {lean_int(int(DPTValue1Ucount.value_max))}\n"
    body += "/-- climate defaults: temperature step, shift limits (as the decimals the source spells: num, den) -/\n"
    body += f"def defaultStep : Int × Nat := ({lean_int(step.numerator)}, {step.denominator})\n"
    body += f"def defaultShiftMin : Int × Nat := ({lean_int(smin.numerator)}, {smin.denominator})\n"
    body += f"def defaultShiftMax : Int × Nat := ({lean_int(smax.numerator)}, {smax.denominator})\n"
    body += f"/-- Fan: DEFAULT_TURN_ON_SPEED -/\ndef fanTurnOnSpeed : Int := {lean_int(int(fan.DEFAULT_TURN_ON_SPEED))}\n"
    body += "/-- SetpointShiftMode members: (name, DPT class, payload length) -/\n"
    body += "def shiftModes : List (String × String × Nat) := " + lean_list(
        f"({lean_str(m.name)}, {lean_str(m.value.__name__)}, {int(m.value.payload_length)})" for m in SetpointShiftMode) + "\n"
    body += "/-- RemoteValueUpDown.Direction / RemoteValueStep.Direction members (name, wire value when not inverted) -/\n"
    body += "def upDown : List (String × Nat) := " + lean_list(f"({lean_str(m.name)}, {int(m.value)})" for m in RemoteValueUpDown.Direction) + "\n"
    body += "def stepDir : List (String × Nat) := " + lean_list(f"({lean_str(m.name)}, {int(m.value)})" for m in RemoteValueStep.Direction) + "\n"
    body += _climate_mode()
    body += "\nend XknxVerif.Generated.DeviceLoop\n"
    return body


def _climate_mode():
    from xknx import XKNX
    from xknx.devices import ClimateMode
    from xknx.dpt import DPTHVACContrMode, DPTHVACMode
    from xknx.dpt.dpt_20 import HVACControllerMode, HVACOperationMode
    from xknx.remote_value.remote_value_climate_mode import RemoteValueBinaryHeatCool, RemoteValueHVACStatus

    x = XKNX()
    cm = ClimateMode(x, "m", group_address_operation_mode_comfort="1/1/1", group_address_operation_mode_economy="1/1/2",
                     group_address_operation_mode_protection="1/1/3", group_address_operation_mode_standby="1/1/4",
                     group_address_heat_cool="1/1/5")
    st = RemoteValueHVACStatus(x, group_address="1/1/6")
    names = lambda ms: lean_list(str(int(m.value)) for m in ms)
    b = "/-- HVACOperationMode / HVACControllerMode members (name, wire value) -/\n"
    b += "def opModes : List (String × Nat) := " + lean_list(f"({lean_str(m.name)}, {int(m.value)})" for m in HVACOperationMode) + "\n"
    b += "def ctModes : List (String × Nat) := " + lean_list(f"({lean_str(m.name)}, {int(m.value)})" for m in HVACControllerMode) + "\n"
    b += "/-- what the mode objects declare as supported: DPT 20.102 / 20.105 valid values, the status object, the heat/cool bit -/\n"
    b += f"def opRvModes : List Nat := {names(DPTHVACMode.get_valid_values())}\n"
    b += f"def ctRvModes : List Nat := {names(DPTHVACContrMode.get_valid_values())}\n"
    b += f"def statusOpModes : List Nat := {names(st.supported_operation_modes())}\n"
    b += f"def statusCtModes : List Nat := {names(st.supported_controller_modes())}\n"
    b += f"def heatCoolCtModes : List Nat := {names(cm.remote_value_heat_cool.supported_controller_modes())}\n"
    b += "/-- the binary operation-mode objects of ClimateMode in iteration order: own mode -/\n"
    order = [rv for rv in cm._iter_remote_values() if hasattr(rv, "operation_mode")]
    b += f"def binaryOrder : List Nat := {names([rv.operation_mode for rv in order])}\n"
    b += f"def heatCoolOwn : Nat := {int(cm.remote_value_heat_cool.controller_mode.value)}\n"
    b += f"def initialOp : Nat := {int(cm.operation_mode.value)}\ndef initialCt : Nat := {int(cm.controller_mode.value)}\n"
    b += f"def heat : Nat := {int(HVACControllerMode.HEAT.value)}\ndef cool : Nat := {int(HVACControllerMode.COOL.value)}\n"
    b += f"def standby : Nat := {int(HVACOperationMode.STANDBY.value)}\n"
    return b
