"""Generated tables for the cEMI frame model."""
from harness.gen_tables import lean_list, lean_str, section


@section("Cemi")
def gen_cemi():
    from xknx.cemi import const, flags
    from xknx.cemi.cemi_frame import CEMIFrame, CEMIMPropInfo
    from xknx.profile.const import ResourceObjectType

    codes = const.CEMIMessageCode
    body = "namespace XknxVerif.Generated.Cemi\n"
    # by value (aliases collapse exactly as Enum lookup does)
    rows = [f"({lean_str(codes(v).name)}, {v})" for v in sorted({m.value for m in codes})]
    body += f"def messageCodes : List (String × Nat) := {lean_list(rows)}\n"
    for m in ("L_DATA_REQ", "L_DATA_IND", "L_DATA_CON", "M_PROP_READ_REQ", "M_PROP_READ_CON",
              "M_PROP_WRITE_REQ", "M_PROP_WRITE_CON", "M_PROP_INFO_IND"):
        body += f"def {m.lower()} : Nat := {codes[m].value}\n"
    body += f"def hasInfoCodes : List Nat := {lean_list(str(v) for v in sorted({m.value for m in codes if CEMIFrame._has_info(m)}))}\n"
    body += f"def objectTypes : List Nat := {lean_list(str(int(m)) for m in ResourceObjectType)}\n"
    body += f"def errorCodes : List Nat := {lean_list(str(int(m)) for m in const.CEMIErrorCode)}\n"
    body += f"def mpropInfoLength : Nat := {CEMIMPropInfo.LENGTH}\n"
    body += f"def maxNpduLength : Nat := {const.MAX_NPDU_LENGTH}\n"
    body += f"def standardFrameMaxNpduLength : Nat := {const.STANDARD_FRAME_MAX_NPDU_LENGTH}\n"
    for n in ("DO_NOT_REPEAT", "BROADCAST", "PRIORITY_MASK", "PRIORITY_OFFSET", "ACK_REQUESTED", "CONFIRM_ERROR",
              "HOP_COUNT_MASK", "HOP_COUNT_OFFSET", "EXTENDED_FRAME_FORMAT_MASK", "MAX_HOP_COUNT"):
        camel = n.lower().split("_")
        body += f"def {camel[0] + ''.join(w.capitalize() for w in camel[1:])} : Nat := {getattr(flags, n)}\n"
    body += f"def priorities : List Nat := {lean_list(str(int(m)) for m in flags.CEMIPriority)}\n"
    body += f"def frameTypeStandard : Nat := {int(flags.CEMIFrameType.STANDARD)}\n"
    body += f"def frameFormatStandard : Nat := {int(flags.CEMIFrameFormat.STANDARD)}\n"
    body += f"def frameFormatLteHee : Nat := {int(flags.CEMIFrameFormat.LTE_HEE)}\n"
    # which 4-bit EFF values the enum accepts, and as what
    eff = []
    for v in range(16):
        try:
            eff.append(f"(some {int(flags.CEMIFrameFormat(v))})")
        except ValueError:
            eff.append("none")
    body += f"def effTable : List (Option Nat) := {lean_list(eff)}\n"
    body += "end XknxVerif.Generated.Cemi\n"
    return body
