"""Generated tables for the APCI codec (C04-C06): everything apci.py *declares*."""
import inspect

from harness.gen_tables import lean_list, lean_str, section


def concrete_classes():
    from xknx.telegram import apci

    out = []
    for name, cls in inspect.getmembers(apci, inspect.isclass):
        if cls.__module__ != apci.__name__ or not issubclass(cls, apci.APCI):
            continue
        if inspect.isabstract(cls) or cls in (apci.APCI, apci.APCIRequest):
            continue
        out.append((name, cls))
    return sorted(out)


@section("APCI")
def gen():
    from xknx.dpt import DPTBinary
    from xknx.secure.data_secure_asdu import SecurityALService, SecurityAlgorithmIdentifier
    from xknx.telegram import apci

    def enum_tbl(e):
        return lean_list(f"({lean_str(m.name)}, {m.value})" for m in e)

    rows = []
    for name, cls in concrete_classes():
        code = cls.CODE
        rows.append(f"({lean_str(name)}, {lean_str(type(code).__name__ + '.' + code.name)}, {code.value})")
    return (
        "namespace XknxVerif.Generated.APCI\n\n"
        f"def apciService : List (String × Nat) := {enum_tbl(apci.APCIService)}\n\n"
        f"def apciUserService : List (String × Nat) := {enum_tbl(apci.APCIUserService)}\n\n"
        f"def apciExtendedService : List (String × Nat) := {enum_tbl(apci.APCIExtendedService)}\n\n"
        f"/-- `ReturnCode` member values -/\ndef returnCodes : List Nat := {lean_list(str(m.value) for m in apci.ReturnCode)}\n\n"
        f"def scfAlgorithms : List Nat := {lean_list(str(int(m)) for m in SecurityAlgorithmIdentifier)}\n\n"
        f"def scfServices : List Nat := {lean_list(str(int(m)) for m in SecurityALService)}\n\n"
        f"/-- `DPTBinary.APCI_BITMASK` -/\ndef apciBitmask : Nat := {DPTBinary.APCI_BITMASK}\n\n"
        "/-- every concrete `APCI` subclass of xknx.telegram.apci with its `CODE` -/\n"
        "def classCodes : List (String × String × Nat) := [\n  " + ",\n  ".join(rows) + "]\n\n"
        "end XknxVerif.Generated.APCI\n"
    )
