"""Generated table for the MCP list_dpts model: the DPT class tree in iteration order."""
from harness.gen_tables import lean_list, lean_str, section


@section("McpDpts")
def gen_mcp_dpts():
    from xknx.dpt import DPTBase
    from xknx.mcp.tools import _dpt_haystack

    def opt(n):
        return "none" if n is None else f"(some {int(n)})"

    rows = []
    for d in DPTBase.dpt_class_tree():
        rows.append(f"⟨{lean_str(d.dpt_number_str())}, {opt(d.dpt_main_number)}, {opt(d.dpt_sub_number)}, {lean_str(_dpt_haystack(d))}⟩")
    body = "namespace XknxVerif.Generated.McpDpts\n"
    body += "structure Row where\n  numberStr : String\n  main : Option Nat\n  sub : Option Nat\n  haystack : String\n  deriving Repr\n"
    body += "def table : List Row := [\n  " + ",\n  ".join(rows) + "]\n"
    body += "end XknxVerif.Generated.McpDpts\n"
    return body
