"""
Structure-aware construction of xknx devices of EVERY device class from small
JSON-able specs (shared by C37 / C38).  Everything is introspected from
`xknx.devices`: the class list, and per class the constructor parameters that
take group addresses.
"""
from __future__ import annotations

import inspect

import xknx.devices as _D
from xknx.devices import Device
from xknx.telegram.address import GroupAddress, InternalGroupAddress

# index -> address (group addresses incl. the boundary ones, and internal addresses)
ADDR_POOL = ["1/0/1", "1/0/2", "0/0/1", "31/7/255", "i-alpha", "i-beta", "1/0/3", "i-3"]


def addr_obj(i):
    a = ADDR_POOL[i]
    return InternalGroupAddress(a) if a.startswith("i-") else GroupAddress(a)


def addr_arg(i, form):
    """The same address in one of the notations the constructors accept."""
    a = ADDR_POOL[i]
    if a.startswith("i-"):
        return InternalGroupAddress(a) if form % 2 else a
    f = form % 4
    if f == 0:
        return a
    if f == 1:
        return GroupAddress(a)
    if f == 2:
        return GroupAddress(a).raw
    return str(GroupAddress(a).raw)


def device_classes():
    out = {}
    for n in _D.__all__:
        c = getattr(_D, n)
        if inspect.isclass(c) and issubclass(c, Device) and c is not Device:
            out[n] = c
    return dict(sorted(out.items()))


def ga_params(cls):
    return [p for p in inspect.signature(cls.__init__).parameters if "group_address" in p]


def sub_device_params(cls):
    """constructor parameters that take another device (Climate.mode: ClimateMode | None) -> that device's class name;
    such a composite device aggregates the sub-device's addresses in group_addresses()/has_group_address()"""
    names = set(device_classes())
    out = {}
    for p, v in inspect.signature(cls.__init__).parameters.items():
        a = str(v.annotation).replace(" | None", "").replace("Optional[", "").rstrip("]").strip().strip("'\"")
        if a in names:
            out[p] = a
    return out


def composite_classes():
    return {n: sub_device_params(c) for n, c in device_classes().items() if sub_device_params(c)}


# constructor arguments that are required or that keep a device passive (no tasks, no wall clock)
EXTRA = {
    "Sensor": [{"value_type": "temperature"}, {"value_type": "percent"}, {"value_type": "string"},
               {"value_type": "2byte_unsigned"}, {"value_type": "temperature", "always_callback": True}],
    "NumericValue": [{"value_type": "percent"}, {"value_type": "temperature"}, {"value_type": "pulse_2byte"}],
    "ExposeSensor": [{"value_type": "temperature"}, {"value_type": "binary"}, {"value_type": "percent"},
                     {"value_type": "string"}],
    "RawValue": [{"payload_length": 0}, {"payload_length": 1}, {"payload_length": 2}],
    "Notification": [{}, {"value_type": "latin_1"}],
    "DateDevice": [{"localtime": False}],
    "TimeDevice": [{"localtime": False}],
    "DateTimeDevice": [{"localtime": False}],
    "Scene": [{"scene_number": 1}, {"scene_number": 64}],
    "BinarySensor": [{}, {"invert": True}, {"ignore_internal_state": True}],
    "Switch": [{}, {"invert": True}],
    "Cover": [{}, {"invert_position": True, "invert_updown": True}],
    "Fan": [{}, {"max_step": 3}],
    "Climate": [{}, {"setpoint_shift_mode": "DPT6010"}, {"setpoint_shift_mode": "DPT9002"}],
    "Light": [{}, {"color_temperature_type": "UINT_2_BYTE"}, {"color_temperature_type": "FLOAT_2_BYTE"}],
}


def random_spec(rng, clsname, naddr, density=0.5):
    """{"cls", "extra": index into EXTRA, "ga": {param: [[idx|None, ...], form]}}"""
    cls = device_classes()[clsname]
    params = ga_params(cls)
    ga = {}
    for p in params:
        if rng.random() >= density:
            continue
        r = rng.random()
        if r < 0.65:
            lst = [rng.randrange(naddr)]
        elif r < 0.9:
            lst = [rng.choice([None, rng.randrange(naddr)])] + [rng.randrange(naddr) for _ in range(rng.randint(1, 3))]
        else:
            lst = [rng.randrange(naddr)] + [None, rng.randrange(naddr)]
        ga[p] = [lst, rng.randrange(8)]
    if not ga and params and rng.random() < 0.85:
        ga[rng.choice(params)] = [[rng.randrange(naddr)], rng.randrange(8)]
    return {"cls": clsname, "extra": rng.randrange(len(EXTRA.get(clsname, [{}]))), "ga": ga}


def spec_addresses(spec, specs=None):
    """Address indices a spec configures (what the device is expected to listen to); with `specs` (the pool) the addresses
    of its sub-devices (spec["sub"] = {param: pool index}) are included."""
    out = set()
    for lst, _form in spec["ga"].values():
        out.update(i for i in lst if i is not None)
    if specs is not None:
        for j in spec.get("sub", {}).values():
            out |= spec_addresses(specs[j], specs)
    return out


def build_pool(xknx, specs, prefix="d"):
    """Build every spec of a pool; composite devices get the already built pool member as their sub-device (the SAME object
    that is also registered on its own, as Home Assistant does with Climate + ClimateMode)."""
    built = [None] * len(specs)
    todo = list(range(len(specs)))
    for _round in range(len(specs) + 1):
        rest = []
        for i in todo:
            sub = specs[i].get("sub", {})
            if all(built[j] is not None for j in sub.values()):
                built[i] = build(xknx, specs[i], f"{prefix}{i}", {p: built[j] for p, j in sub.items()})
            else:
                rest.append(i)
        todo = rest
        if not todo:
            break
    if todo:
        raise ValueError("cyclic sub-device references")
    return built


def build(xknx, spec, name, sub=None):
    from xknx.devices.light import ColorTemperatureType
    from xknx.remote_value.remote_value_setpoint_shift import SetpointShiftMode

    cls = device_classes()[spec["cls"]]
    kw = dict(EXTRA.get(spec["cls"], [{}])[spec["extra"] % len(EXTRA.get(spec["cls"], [{}]))])
    if "setpoint_shift_mode" in kw:
        kw["setpoint_shift_mode"] = SetpointShiftMode[kw["setpoint_shift_mode"]]
    if "color_temperature_type" in kw:
        kw["color_temperature_type"] = ColorTemperatureType[kw["color_temperature_type"]]
    for p, (lst, form) in spec["ga"].items():
        if len(lst) == 1 and form < 6:
            kw[p] = addr_arg(lst[0], form)
        else:
            kw[p] = [None if i is None else addr_arg(i, form + k) for k, i in enumerate(lst)]
    kw.update(sub or {})
    return cls(xknx, name=name, **kw)


def addr_index_map(naddr):
    return {addr_obj(i): i for i in range(naddr)}
