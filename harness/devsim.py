"""
Real XKNX + real devices on the virtual-time loop with a stub KNX/IP interface (C41, C42).

* `Bus` replaces `xknx.knxip_interface` (a slot attribute of XKNX, so plain assignment works; nothing is
  patched at class level).  `send_cemi` records the frame and confirms it at once through the real
  `CEMIHandler.handle_cemi_frame` (L_DATA.con), so the real TelegramQueue / CEMIHandler / Devices path runs.
  While `connection_manager.connected` is clear it raises CommunicationError like a dropped tunnel.
* all times are multiples of GRID µs = 1/64 s, which is exact in binary floating point *and* in integer
  microseconds, so `time.time()` differences, `loop.time()` deadlines and `vloop.q` agree exactly.
* exceptions that xknx would only log (task died, callback raised) are collected in `Sim.errors`.
"""
from __future__ import annotations

import asyncio
import logging

from harness import vloop
from xknx import XKNX
from xknx.cemi import CEMIFrame, CEMIMessageCode
from xknx.core import XknxConnectionState
from xknx.exceptions import CommunicationError
from xknx.telegram import GroupAddress, Telegram, TelegramDirection
from xknx.telegram.apci import GroupValueRead, GroupValueResponse, GroupValueWrite

GRID = 15625  # µs; 1/64 s


def secs(us):
    """µs on the grid -> exact float seconds (None stays None)."""
    return None if us is None else us / 1_000_000


class Bus:
    def __init__(self, sim):
        self.sim = sim

    async def start(self):
        return None

    async def stop(self):
        return None

    async def send_cemi(self, cemi):
        xknx = self.sim.xknx
        if not xknx.connection_manager.connected.is_set():
            raise CommunicationError("stub interface: not connected")
        self.sim.on_bus(cemi)
        xknx.cemi_handler.handle_cemi_frame(CEMIFrame(code=CEMIMessageCode.L_DATA_CON, data=cemi.data))


class _ErrLog(logging.Handler):
    def __init__(self, sim):
        super().__init__(level=logging.ERROR)
        self.sim = sim

    def emit(self, record):
        cls = record.exc_info[0].__name__ if record.exc_info and record.exc_info[0] else "log"
        self.sim.errors.append(f"{cls}")


class Sim:
    """One scenario: XKNX started far enough for telegram queue, task registry and devices to run."""

    def __init__(self, loop):
        self.loop = loop
        self.t0 = loop.time()
        self.trace = []
        self.errors = []
        self.on_bus = lambda cemi: None
        self.tasks = []
        self.xknx = XKNX()
        self.xknx.knxip_interface = Bus(self)
        self._h = _ErrLog(self)
        self._loggers = [logging.getLogger(n) for n in ("xknx.log", "asyncio", "xknx.cemi", "xknx.telegram", "xknx.knx", "xknx.state_updater")]
        self._old = [(lg.propagate, lg.level) for lg in self._loggers]

    def now(self):
        return vloop.q(self.loop.time() - self.t0)

    def rec(self, *ev):
        self.trace.append(",".join(str(int(x)) if isinstance(x, bool) else str(x) for x in ev))

    async def start(self, connected=True):
        def factory(lp, coro, **kw):
            t = asyncio.Task(coro, loop=lp, **kw)
            self.tasks.append(t)
            return t

        self.loop.set_task_factory(factory)
        for lg in self._loggers:
            lg.addHandler(self._h)
            lg.propagate = False
        if connected:
            self.xknx.connection_manager.connection_state_changed(XknxConnectionState.CONNECTED)
        self.xknx.task_registry.start()
        await self.xknx.telegram_queue.start()
        self.xknx.state_updater.start()
        self.xknx.devices.async_start_device_tasks()
        self.xknx.started.set()

    def set_connected(self, up):
        self.xknx.connection_manager.connection_state_changed(
            XknxConnectionState.CONNECTED if up else XknxConnectionState.DISCONNECTED)

    def incoming(self, ga, payload_value, kind="write"):
        """Queue an incoming group telegram exactly as CEMIHandler.telegram_received does."""
        payload = {"write": GroupValueWrite, "response": GroupValueResponse}[kind](payload_value) if kind != "read" else GroupValueRead()
        self.xknx.telegrams.put_nowait(Telegram(destination_address=GroupAddress(ga), direction=TelegramDirection.INCOMING,
                                                payload=payload))

    async def sleep_until(self, t_us):
        d = t_us - self.now()
        if d > 0:
            await asyncio.sleep(d / 1_000_000)
        await self.loop.settle()

    async def finish(self):
        await self.loop.settle()
        for t in self.tasks:
            if t.done() and not t.cancelled() and t.exception() is not None:
                self.errors.append("task:" + type(t.exception()).__name__)
        self.xknx.started.clear()
        self.xknx.devices.async_remove_device_tasks()
        self.xknx.task_registry.stop()
        self.xknx.state_updater.stop()
        try:
            await self.xknx.telegram_queue.stop()
        finally:
            self.loop.set_task_factory(None)
            for lg, (prop, _lvl) in zip(self._loggers, self._old):
                lg.removeHandler(self._h)
                lg.propagate = prop


def run(scenario, case):
    """Run `await scenario(sim, case)` on a fresh virtual loop with time.time patched; returns (trace, errors)."""
    async def main(loop):
        sim = Sim(loop)
        try:
            await scenario(sim, case)
        finally:
            await sim.finish()
        return sim.trace, sim.errors

    return vloop.run(main, patch_clock=True)
