"""MANIFEST.setup_cmd: regenerate tables, build every proof module and the driver."""
import subprocess
import sys

from harness import framework


def main():
    with framework.LeanLock():
        info = framework.regenerate_tables()
        print("generated tables:", info)
        p = subprocess.run(["lake", "build"], cwd=framework.LEAN, check=False)
    return p.returncode


if __name__ == "__main__":
    sys.exit(main())
