"""
C39 helpers: tagged JSON values, exact-rational "nearest representable" references for the datapoint families the
devices use, and the generic pieces of the device loop runner.  Nothing here calls an xknx codec to compute an
expectation: the references are computed with `fractions.Fraction` from the range / resolution the DPT declares.
"""
from __future__ import annotations

import datetime
import math
import struct
from fractions import Fraction

TOL = Fraction(1, 10**9)  # tie tolerance (binary64 noise next to an exact tie); a whole step is never inside it

# --------------------------------------------------------------------------
# tagged values
# --------------------------------------------------------------------------


def I(n):
    return {"t": "int", "v": str(int(n))}


def F(x):
    x = float(x)
    if math.isnan(x):
        return {"t": "float", "v": "nan"}
    if math.isinf(x):
        return {"t": "float", "v": "inf" if x > 0 else "-inf"}
    return {"t": "float", "v": x.hex()}


def B(b):
    return {"t": "bool", "v": bool(b)}


def N():
    return {"t": "none"}


def num(x):
    """int stays int, float stays float"""
    return I(x) if isinstance(x, int) and not isinstance(x, bool) else F(x)


def dec(d):
    t = d["t"]
    if t == "none":
        return None
    if t == "bool":
        return bool(d["v"])
    if t == "int":
        return int(d["v"])
    if t == "float":
        return float(d["v"]) if d["v"] in ("nan", "inf", "-inf") else float.fromhex(d["v"])
    if t == "str":
        return d["v"]
    if t == "tuple":
        return tuple(dec(x) for x in d["v"])
    if t == "enum":
        from xknx.dpt.dpt_20 import HVACControllerMode, HVACOperationMode
        return {"HVACOperationMode": HVACOperationMode, "HVACControllerMode": HVACControllerMode}[d["cls"]][d["v"]]
    if t == "xyy":
        from xknx.dpt import XYYColor
        c = dec(d["color"])
        return XYYColor(color=c, brightness=dec(d["brightness"]))
    if t == "time":
        return datetime.time(*d["v"])
    if t == "date":
        return datetime.date(*d["v"])
    if t == "datetime":
        return datetime.datetime(*d["v"])
    raise ValueError(t)


def is_num(d):
    return d["t"] in ("int", "float")


def finite(d):
    return d["t"] == "int" or (d["t"] == "float" and d["v"] not in ("nan", "inf", "-inf"))


def frac(d):
    """exact rational of a finite tagged number"""
    return Fraction(dec(d))


def show(d):
    t = d["t"]
    if t in ("int", "float", "bool", "str"):
        return repr(dec(d))
    if t == "none":
        return "None"
    if t == "tuple":
        return "(" + ", ".join(show(x) for x in d["v"]) + ")"
    if t == "enum":
        return d["v"]
    if t == "xyy":
        return f"XYY({show(d['color'])},{show(d['brightness'])})"
    return str(d.get("v"))


# --------------------------------------------------------------------------
# exact references
# --------------------------------------------------------------------------


def rhe(x: Fraction) -> int:
    """round half to even, on an exact rational (written out, not Python's round)"""
    fl = x.numerator // x.denominator
    rem = x - fl
    if rem * 2 < 1:
        return fl
    if rem * 2 > 1:
        return fl + 1
    return fl if fl % 2 == 0 else fl + 1


def nearest_ints(x: Fraction, lo=None, hi=None, tol=TOL):
    """integers in [lo, hi] whose distance to x is minimal (ties and near-ties: all of them); ([], d) if empty domain"""
    fl = x.numerator // x.denominator
    cands = {fl, fl + 1}
    if lo is not None:
        cands = {max(c, lo) for c in cands}
    if hi is not None:
        cands = {min(c, hi) for c in cands}
    dmin = min(abs(x - c) for c in cands)
    return sorted(c for c in cands if abs(x - c) <= dmin + tol), dmin


class Ref:
    """what a loop may do for one requested value: refuse, or report one of `values` (with payload info for the check)"""

    def __init__(self, may_refuse, must_refuse, accept, why=""):
        self.may_refuse = may_refuse      # ConversionError is an allowed outcome
        self.must_refuse = must_refuse    # nothing representable is near: only refusal is right
        self.accept = accept              # callable(reported, payload_bytes|None) -> None | str(problem)
        self.why = why


def scaling_ref(rf, rt, v):
    """RemoteValueScaling-like datapoint: raws 0..255 stand for rf + raw*(rt-rf)/255; the device reads a raw back as the
    nearest integer of that.  v: Fraction or None (non-finite)."""
    D = rt - rf
    if v is None or D == 0:
        return Ref(True, True, None, "not a finite number / empty range")
    x = (v - rf) * 255 / D
    raws, _ = nearest_ints(x)
    inside = [r for r in raws if 0 <= r <= 255]
    outside = [r for r in raws if not 0 <= r <= 255]
    lo, hi = min(rf, rt), max(rf, rt)

    def accept(reported, payload):
        if payload is None or len(payload) != 1:
            return f"payload {payload!r} is not one octet"
        raw = payload[0]
        # clamping to the end of the range is the nearest representable value for a request beyond it
        ok_raws = set(inside) | ({0} if any(r < 0 for r in outside) else set()) | ({255} if any(r > 255 for r in outside) else set())
        if raw not in ok_raws:
            return f"sent raw {raw}, nearest raw to the request is {sorted(ok_raws)} (exact position {float(x):.6f})"
        want = rhe(Fraction(raw * D, 255)) + rf
        if reported != want or isinstance(reported, bool):
            return f"raw {raw} stands for {float(Fraction(raw * D, 255) + rf):.4f}, device reports {reported!r} instead of {want}"
        if v.denominator == 1 and lo <= v <= hi and abs(D) <= 255 and reported != v:
            return f"integer request {v} is representable but {reported!r} is reported"
        return None

    return Ref(bool(outside), not inside, accept, f"scaling {rf}..{rt}")


def int_ref(lo, hi, v):
    """integer datapoint (resolution 1, raw = value) with declared range lo..hi"""
    if v is None:
        return Ref(True, True, None, "not finite")
    ks, _ = nearest_ints(v)
    inside = [k for k in ks if lo <= k <= hi]
    trunc = int(v)  # toward zero: what an int()-typed datapoint does with a fraction (accepted, see notes: within one step)

    def accept(reported, payload):
        if isinstance(reported, bool) or reported != int(reported):
            return f"reports {reported!r}, not an integer"
        if v.denominator == 1:
            return None if reported == v else f"integer request {v} reported as {reported!r}"
        if reported in inside:
            return None
        if reported == trunc and lo <= trunc <= hi:
            return f"int-trunc: fractional request {float(v)!r} is truncated to {reported!r}, the nearest value is {inside}"
        return f"reports {reported!r} for {float(v)!r}; nearest {inside}"

    in_range = lo <= v <= hi
    return Ref(not in_range or not inside, not (lo - 1 < v < hi + 1), accept, f"int {lo}..{hi}")


DPT9_TOP = Fraction(2046 * 2 + 1, 2) * 2**15 / 100  # midpoint between the two largest mantissas at the largest exponent


def dpt9_ref(lo, hi, v):
    """KNX 2-octet float: 0.01 * m * 2^e, m in -2048..2047, e in 0..15; declared range lo..hi"""
    if v is None:
        return Ref(True, True, None, "not finite")
    lo, hi = Fraction(lo), Fraction(hi)
    if not lo <= v <= hi:
        return Ref(True, True, None, "outside the declared range")
    if abs(v) > DPT9_TOP:
        # the nearest pattern is 0x7FFF, which KNX reserves for "invalid": what the codec does there is C09's finding, not a device loop
        return Ref(True, False, lambda reported, payload: None, "reserved 0x7FFF")
    best = None
    for e in range(16):
        m0 = rhe(v * 100 / 2**e)
        for m in (m0 - 1, m0, m0 + 1):
            if -2048 <= m <= 2047:
                val = Fraction(m * 2**e, 100)
                d = abs(val - v)
                if best is None or d < best:
                    best = d
    dmin = best

    def accept(reported, payload):
        if not isinstance(reported, (int, float)) or isinstance(reported, bool) or not math.isfinite(reported):
            return f"reports {reported!r}"
        d = abs(Fraction(reported) - v)
        # the decoder divides an integer by 100 in binary64: allow that rounding
        slack = TOL * max(1, abs(v))
        if d <= dmin + slack:
            return None
        return f"reports {reported!r} for {float(v)!r}: off by {float(d):.6g}, the nearest 2-octet float is off by {float(dmin):.6g}"

    return Ref(False, False, accept, "dpt9")


def f32_ref(v):
    if v is None:
        # binary32 has infinities and NaN: accepting (and reporting) them or refusing them are both within the property
        return Ref(True, False, lambda reported, payload: None, "not finite")
    try:
        want = struct.unpack(">f", struct.pack(">f", float(v)))[0]
    except (OverflowError, struct.error):
        return Ref(True, True, None, "beyond binary32")

    def accept(reported, payload):
        # the DPT 14 decoder presents the binary32 value rounded to 7 significant digits (as ETS does): allow that
        if isinstance(reported, (int, float)) and not isinstance(reported, bool) and abs(reported - want) <= 5.1e-7 * abs(want):
            return None
        return f"reports {reported!r}, nearest binary32 is {want!r}"

    return Ref(False, False, accept, "f32")


def count_step_ref(step, lo, hi, v):
    """count x step datapoint (DPT 6.010 set-point shift): counts lo..hi stand for count*step; step: Fraction of the float"""
    if v is None or step == 0:
        return Ref(True, True, None, "not finite / zero step")
    x = v / step
    ks, _ = nearest_ints(x)
    inside = [k for k in ks if lo <= k <= hi]

    def accept(reported, payload):
        if payload is None or len(payload) != 1:
            return f"payload {payload!r} is not one octet"
        k = payload[0] - 256 if payload[0] > 127 else payload[0]
        if k not in inside:
            return (f"sent count {k} (= {float(k * step):.6g}); the request {float(v)!r} is {float(x):.12g} steps of {float(step)!r}, "
                    f"nearest count {inside}")
        if not isinstance(reported, (int, float)) or abs(Fraction(reported) - k * step) > TOL * max(1, abs(k * step)):
            return f"count {k} sent, device reports {reported!r} instead of {float(k * step)!r}"
        return None

    return Ref(any(not lo <= k <= hi for k in ks), not inside, accept, "count*step")


def clamp(v, lo, hi):
    if lo is not None and v < lo:
        return lo
    if hi is not None and v > hi:
        return hi
    return v
