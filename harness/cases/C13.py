"""C13 cEMI link frames round-trip and carry the correct frame type."""
from harness.cases import C12 as c12
from harness.lib import cemi_common as cc
from harness.lib.poison import poison
from xknx.cemi import CEMIFrame, CEMIMessageCode
from xknx.cemi.cemi_frame import CEMIInfo, CEMILData
from xknx.cemi.flags import CEMIFlags, CEMIPriority
from xknx.dpt import DPTArray, DPTBinary
from xknx.exceptions import ConversionError
from xknx.telegram import GroupAddress, IndividualAddress, apci, tpci
from xknx.telegram.apci import APCI

PROPERTY = "C13"
RULE = ("build: generated L_Data frames from telegram parts - destination kinds {group, broadcast, individual} x every TPCI class valid "
        "for the kind (sequence numbers 0..15) x payload pool (GroupValueWrite with every DPTArray length 0..260 so the APDU crosses 15/16 "
        "and 254/255, 6-bit values, reads/responses, a pool of management services) x all priorities x repeat/system-broadcast/ack/confirm "
        "flags x hop counts 0..9,15,16,32,255,-1 (given to the constructor or assigned to the public field afterwards) x message codes x additional info; each is serialised, compared with the model, parsed back and "
        "compared field-wise; reser: every frame accepted from C12's generator is re-serialised and compared with the input under the "
        "frame-type/reserved-bit mask; every parse is done twice with the first result's attributes overwritten in between (history independence, harness/lib/poison.py). non-trivial = distinct cases that serialise (or are rejected for length/hop count)")
TRUSTED = c12.TRUSTED + ["for `build`/`reser` lines the payload's canonical encoding payload.to_knx() and calculated_length() are inputs of "
                         "the model line (C05/C06 cover the APCI codec); C13's theorems assume exactly the codec laws stated in Props/C13.lean"]
CASE_TIMEOUT = 2.0
MODULES = ["XknxVerif.Props.C13", "XknxVerif.Props.C13APCI"]
NAMESPACES = ["XknxVerif.Props.C13"]


def setup():
    cc.instrument()


def teardown():
    cc.restore()


GROUP_TPCI = [("TDataGroup", None), ("TDataTagGroup", None)]
IND_DATA = [("TDataIndividual", None)] + [("TDataConnected", s) for s in range(16)]
IND_CTRL = [("TConnect", None), ("TDisconnect", None)] + [("TAck", s) for s in range(16)] + [("TNak", s) for s in range(16)]


def payload_pool(rng):
    pool = [apci.GroupValueRead(), apci.GroupValueWrite(DPTBinary(rng.randrange(64))), apci.GroupValueResponse(DPTBinary(1)),
            apci.GroupValueResponse(DPTArray((1, 2))), apci.IndividualAddressRead(),
            apci.IndividualAddressWrite(address=IndividualAddress(rng.randrange(65536))),
            apci.MemoryRead(address=0x1234, count=11), apci.MemoryWrite(address=0x60, data=bytes(range(5))),
            apci.DeviceDescriptorRead(descriptor=0), apci.Restart(), apci.PropertyValueRead(object_index=1, property_id=4, count=1, start_index=1),
            apci.AuthorizeRequest(key=0x11223344)]
    for h in c12.APDU_POOL:
        try:
            pool.append(cc._real_from_knx.__func__(bytes.fromhex(h)))
        except Exception:  # noqa: BLE001
            pass
    return pool


def generate(rng, tier):
    pool = payload_pool(rng)
    n = 3000 if tier == "quick" else 40000
    lens = list(range(0, 20)) + [30, 100, 200, 250, 251, 252, 253, 254, 255, 256, 260]
    for i in range(n):
        kind = rng.choice(["group", "group", "broadcast", "ind", "ind"])
        if kind == "group":
            dst, g, (cls, seq) = rng.choice([1, 0x0901, 0xFFFF, rng.randrange(1, 65536)]), "g", rng.choice(GROUP_TPCI)
        elif kind == "broadcast":
            dst, g, (cls, seq) = 0, "g", ("TDataBroadcast", None)
        else:
            dst, g = rng.choice([0, 0x1101, 0xFFFF, rng.randrange(65536)]), "i"
            cls, seq = rng.choice(IND_DATA + IND_CTRL)
        control = cls in ("TConnect", "TDisconnect", "TAck", "TNak")
        if control:
            pay = None
        elif rng.random() < 0.5:
            pay = ("gvw", rng.choice(lens) if i % 3 else lens[(i // 3) % len(lens)])
        else:
            pay = ("pool", rng.randrange(len(pool)))
        yield {"kind": "build", "code": rng.choice([0x29, 0x11, 0x2E]), "info": bytes(rng.randrange(256) for _ in range(rng.choice([0, 0, 0, 2, 5]))).hex(),
               "prio": rng.randrange(4), "rep": rng.randrange(2), "sb": rng.randrange(2), "ack": rng.randrange(2), "cerr": rng.randrange(2),
               "hop": rng.choice([0, 1, 5, 6, 7, 7, 6, 6, 8, 15, 9, 16, 32, 255, -1]), "via": rng.choice(["ctor", "assign"]), "src": rng.choice([0, 0x1101, 0xFFFF, rng.randrange(65536)]),
               "g": g, "dst": dst, "cls": cls, "seq": seq, "pay": pay}
    # re-serialisation: EVERY 16-bit control field on a fixed group frame and a fixed control frame (complete domain)
    for c in range(65536):
        yield {"kind": "reser", "raw": f"2900{c:04x}11010901010081"}
    for c in range(0, 65536, 7):
        yield {"kind": "reser", "raw": f"2e00{c:04x}1101110200c6"}
    # NPDU length 255 (reserved escape code): accepted by the parser, refused by the serialiser - documented exclusion
    yield {"kind": "reser", "raw": "2900bce011010901ff0080" + "ab" * 254}
    yield {"kind": "reser", "raw": "2900bce011010901fe0080" + "ab" * 253}
    yield {"kind": "reser", "raw": "2900b0601101110205" + "41fdfb000000"}   # A_MemoryExtended_Read count 251: decodes, to_knx refuses
    # re-serialisation of received frames: reuse C12's generator, keep what the implementation accepts
    for c in c12.generate(rng, tier):
        if len(c["raw"]) >= 14:
            yield {"kind": "reser", "raw": c["raw"]}


_pool_cache = {}


def mk_payload(case, rng_pool):
    p = case["pay"]
    if p is None:
        return None
    if p[0] == "gvw":
        return apci.GroupValueWrite(DPTArray(tuple((7 * k + 1) % 256 for k in range(p[1]))))
    return rng_pool[p[1]]


_POOL = None


def run_impl(case):
    global _POOL
    if case["kind"] == "reser":
        raw = bytes.fromhex(case["raw"])
        out, fr, tag = cc.parse(raw)
        if fr is None:
            return {"out": "rejected", "line": None}
        # history independence: the first result is modified, the same octets are parsed again (see harness/lib/poison.py)
        poison(fr)
        out_again, fr, tag = cc.parse(raw)
        if out_again != out:
            return {"out": f"aliased {out} || {out_again}", "line": None}
        d = fr.data
        if isinstance(d, CEMILData) and d.payload is not None:
            try:
                ap, alen = cc.hx(d.payload.to_knx()), d.payload.calculated_length()
            except ConversionError:
                # C05's antecedent: the decoded service refuses to encode again (e.g. A_MemoryExtended_Read count 251)
                return {"out": "payload-refuses", "line": f"cemifull reser {case['raw']}", "expect": "conv"}
        else:
            ap, alen = "none", 0
        try:
            raw2 = fr.to_knx()
            res = f"ok {cc.hx(raw2)}"
        except ConversionError:
            res = "conv"
        except Exception as e:  # noqa: BLE001
            res = f"other:{type(e).__name__}"
        case["_fr"] = fr
        # full model: parse with the APCI model, re-encode the decoded service with the APCI model, serialise
        return {"out": res, "line": f"cemifull reser {case['raw']}"}
    if _POOL is None:
        import random
        _POOL = payload_pool(random.Random(1))
    pay = mk_payload(case, _POOL)
    t = getattr(tpci, case["cls"])
    tp = t(sequence_number=case["seq"]) if case["seq"] is not None else t()
    dst = GroupAddress(case["dst"]) if case["g"] == "g" else IndividualAddress(case["dst"])
    refused_at_construction = False
    try:
        if case.get("via") == "assign":
            # the flags object is public and mutable (a router lowers the hop count of a received frame): build it with
            # defaults, then assign every field - validation that lives only in the constructor is bypassed this way
            flags = CEMIFlags()
            flags.priority, flags.repeat_on_error, flags.system_broadcast = CEMIPriority(case["prio"]), bool(case["rep"]), bool(case["sb"])
            flags.acknowledge_request, flags.confirm_error, flags.hop_count = bool(case["ack"]), bool(case["cerr"]), case["hop"]
        else:
            flags = CEMIFlags(priority=CEMIPriority(case["prio"]), repeat_on_error=bool(case["rep"]), system_broadcast=bool(case["sb"]),
                              acknowledge_request=bool(case["ack"]), confirm_error=bool(case["cerr"]), hop_count=case["hop"])
    except ConversionError:
        # refusing the out-of-range value where the flags are created is a rejection too
        refused_at_construction = True
        flags = CEMIFlags()
    fr = CEMIFrame(code=CEMIMessageCode(case["code"]), info=CEMIInfo(bytes.fromhex(case["info"])),
                   data=CEMILData(flags=flags, src_addr=IndividualAddress(case["src"]), dst_addr=dst, tpci=tp, payload=pay))
    encodable = True
    if pay is not None:
        try:
            ap, alen = cc.hx(pay.to_knx()), pay.calculated_length()
        except ConversionError:
            ap, alen, encodable = "refuse", 0, False  # the service object itself refuses to encode (C06's subject)
    else:
        ap, alen = "none", 0
    case["_encodable"] = encodable
    try:
        raw = fr.to_knx()
        res = f"ok {cc.hx(raw)}"
    except ConversionError:
        res = "conv"
    except Exception as e:  # noqa: BLE001
        res = f"other:{type(e).__name__}"
    if refused_at_construction:
        res = "conv"
    case["_fr"], case["_npdu"] = fr, alen
    # full model: the payload goes to Lean as a service object (class + field values); encoding, calculated length and the
    # frame are all computed by the cEMI + APCI models
    from harness import apci_lib
    try:
        svc = "none" if pay is None else apci_lib.canon_obj(pay)
    except TypeError:
        svc = None
    if svc is not None:
        line = (f"cemifull build {case['code']} {case['info'] or '-'} {case['prio']} {case['rep']} {case['sb']} {case['ack']} "
                f"{case['cerr']} {case['hop']} {case['src']} {case['g']} {case['dst']} {case['cls']} {case['seq'] or 0} {svc}")
    else:   # a field type the APCI harness library cannot render: fall back to the implementation-supplied encoding
        line = (f"cemi build {case['code']} {case['info'] or '-'} {case['prio']} {case['rep']} {case['sb']} {case['ack']} {case['cerr']} "
                f"{case['hop']} 0 {case['src']} {case['g']} {case['dst']} {case['cls']} {case['seq'] or 0} {ap} {alen}")
    if case["hop"] < 0:
        line = None     # the model's hop count is a natural number; the oracle still demands the rejection
    return {"out": res, "line": line}


def same_payload(a, b):
    if a is None or b is None:
        return a is b
    if type(a) is not type(b):
        return False
    return bytes(a.to_knx()) == bytes(b.to_knx())


def oracle(case, out):
    if out.startswith("other:"):
        return f"serialisation raised {out[6:]}"
    if case["kind"] == "build":
        fr, npdu = case.pop("_fr"), case.pop("_npdu")
        legal = npdu <= 254 and 0 <= case["hop"] <= 7 and case.pop("_encodable", True)
        if out == "conv":
            return None if not legal else f"frame with NPDU length {npdu}, hop count {case['hop']} was refused"
        if not legal:
            return f"frame with NPDU length {npdu}, hop count {case['hop']} was serialised instead of rejected"
        raw = bytes.fromhex(out.split()[1])
        o = 2 + len(fr.info.raw)
        ft_standard = bool(raw[o] & 0x80)
        if ft_standard != (npdu <= 15):
            return f"frame type bit says {'standard' if ft_standard else 'extended'} for NPDU length {npdu}"
        if bool(raw[o + 1] & 0x80) != (case["g"] == "g"):
            return "address type bit does not match the destination kind"
        out2, fr2, _ = cc.parse(raw)
        if fr2 is None:
            return f"serialised frame does not parse back: {out2}"
        poison(fr2)
        out3, fr2, _ = cc.parse(raw)
        if out3 != out2:
            return f"parsing the serialised octets again after the first result was modified gives a different frame (parsed frames share mutable state): {out3} vs {out2}"
        d, d2 = fr.data, fr2.data
        f1, f2 = d.flags, d2.flags
        same_flags = (f1.priority, f1.repeat_on_error, f1.system_broadcast, f1.acknowledge_request, f1.confirm_error, f1.hop_count,
                      f1.frame_format) == (f2.priority, f2.repeat_on_error, f2.system_broadcast, f2.acknowledge_request,
                                           f2.confirm_error, f2.hop_count, f2.frame_format)
        if not (fr2.code == fr.code and fr2.info.raw == fr.info.raw and d2.src_addr == d.src_addr and type(d2.dst_addr) is type(d.dst_addr)
                and d2.dst_addr == d.dst_addr and type(d2.tpci) is type(d.tpci) and d2.tpci == d.tpci and same_flags
                and same_payload(d2.payload, d.payload)):
            return f"parsed-back frame differs: {cc.render_frame(fr2)} vs {cc.render_frame(fr)}"
        return None
    # reser
    if out.startswith("aliased "):
        return ("parsing the same octets again after the first result was modified gives a different frame "
                f"(parsed frames share mutable state): {out[8:]}")
    if out in ("rejected", "payload-refuses"):
        return None
    fr = case.pop("_fr")
    raw = bytes.fromhex(case["raw"])
    if out == "conv":
        o = 2 + raw[1]
        if isinstance(fr.data, CEMILData) and raw[o + 6] == 255:
            return None  # NPDU length 255 is the reserved escape code (3/2/2): not a frame the specification allows
        return "a received (accepted) frame cannot be serialised again"
    raw2 = bytes.fromhex(out.split()[1])
    if len(raw2) != len(raw):
        return f"re-serialised frame has length {len(raw2)}, received {len(raw)}"
    if not isinstance(fr.data, CEMILData):
        return None if raw2 == raw else f"re-serialised management frame differs: {raw2.hex()}"
    o = 2 + raw[1]
    a, b = bytearray(raw[: o + 7]), bytearray(raw2[: o + 7])
    a[o] &= 0x3F
    b[o] &= 0x3F
    if a != b:
        return f"re-serialising changed header bits outside frame type / reserved bit: {raw2.hex()}"
    if fr.data.payload is None:
        return None if raw2[o + 7:] == raw[o + 7:] else "control TPDU changed"
    if (raw2[o + 7] & 0xFC) != (raw[o + 7] & 0xFC):
        return "transport bits changed by re-serialising"
    ap2 = bytes([raw2[o + 7] & 3]) + raw2[o + 8:]
    try:
        p2 = APCI.from_knx(ap2)
    except Exception as e:  # noqa: BLE001
        return f"re-serialised APDU no longer decodes: {type(e).__name__}"
    cc.take_calls()
    return None if same_payload(p2, fr.data.payload) else "re-serialised APDU decodes to a different service object"


def nontrivial(case, out):
    return out != "rejected"


def outcome_class(out):
    return out.split()[0]
