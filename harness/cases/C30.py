"""C30 Secure routing accepts only authenticated, timely frames (mode R, virtual time).

The real `SecureGroup` (real `UDPTransport.data_received_callback`, `handle_knxipframe`, `decrypt_frame`,
`SecureSequenceTimer`) runs on `harness/vloop.py`.  `UDPTransport.connect` is replaced (class level, restored) by
a stub installing a recording datagram socket.  A harness-side peer (harness/ipsec_ref.py) owns the backbone key
and builds every datagram: genuine / forged TimerNotify (own and foreign serial, the synchronisation tag or another),
1-3 synchronisation replies delivered in the same loop iteration, SecureWrappers whose timer sits around each
tolerance boundary (+-1 ms), forged / wrong-session / nested / unparsable wrappers, plain frames of every implemented
service.  `random.uniform` is scripted (draws reported to the monitor), `random.randbytes` is a counter.

All instants sit half a millisecond off the millisecond grid so that `int(loop.time() * 1000)` is exact.
"""
from __future__ import annotations

import asyncio
import logging
import random as _random

from harness import ipsec_ref as R
from harness import vloop
from xknx.exceptions import CommunicationError, IPSecureError
from xknx.io import ip_secure
from xknx.io.const import XKNX_SERIAL_NUMBER
from xknx.io.ip_secure import SecureGroup
from xknx.io.transport.udp_transport import UDPTransport
from xknx.knxip import KNXIPFrame, KNXIPServiceType

from harness.cases.C29 import FR, PLAIN_NAMES, INNER_OK, INNER_FORBIDDEN, INNER_UNPARSABLE, _svc_of

logging.getLogger("xknx").setLevel(logging.CRITICAL + 1)

PROPERTY = "C30"
EXHAUSTIVE = False
CASE_TIMEOUT = 20.0
RULE = ("generated multicast histories (<= 50 events) on a virtual clock: connect with latency tolerances 200..3000 ms (incl. values "
        "not divisible by 10), synchronisation answered by 0-3 replies in one loop iteration (genuine, forged MAC, foreign serial, "
        "other tag), timer notifies and wrappers with timer values at local +1/0/-1, local - sync tolerance +-1, local - latency "
        "+-1 and far away, forged / wrong key / session id != 0 / nested / remote-diagnosis / unparsable wrappers, plain frames of "
        "every implemented service, sends, waits across the notify timer, stop and reconnect. non-trivial = history with a "
        "completed synchronisation, a forwarded and a dropped wrapper")
TRUSTED = [
    "model XknxVerif.Model.SecureTimer hand-written; PLAIN_MULTICAST_SERVICES, FORBIDDEN_WRAPPED_SERVICES and the SecureSequenceTimer delay constants regenerated each run",
    "harness/ipsec_ref.py (independent crypto) builds and opens all frames; `macOk` is its verdict and is uninterpreted in the theorems",
    "UDPTransport.connect replaced by a stub installing a recording socket; random.uniform scripted on a millisecond grid and reported "
    "to the monitor as an input; random.randbytes is a counter; time is `_monotonic_ms()` as the implementation reads it",
    "datagrams aimed at the tolerance boundaries are built from the implementation's current timer value (adaptive input construction)",
]

SVC = KNXIPServiceType
KEY = bytes.fromhex("000102030405060708090a0b0c0d0e0f")
ADDR = ("192.168.1.50", 3671)
PEER = ("192.168.1.77", 3671)
PEER_SERIAL = bytes.fromhex("00fa12345678")
T0 = 1000.0005

_real_connect = UDPTransport.connect
_real_uniform = _random.uniform
_real_randbytes = _random.randbytes


def teardown():
    UDPTransport.connect = _real_connect
    _random.uniform = _real_uniform
    _random.randbytes = _real_randbytes


class _Sock:
    def __init__(self, world):
        self.world = world

    def sendto(self, data, addr=None):
        self.world.on_write(bytes(data))

    def close(self):
        pass

    def get_extra_info(self, _n):
        return ADDR


class _World:
    def __init__(self, loop, case):
        self.loop = loop
        self.trace = []
        self.call = None          # writes of the harness call in progress
        self.ctx = None           # "sync" | "ntf": writes from code running in loop callbacks
        self.ctx_writes = []
        self.draws = []
        self.fwd = None
        self.sync_tag = None
        self.connect_task = None
        self.updated = False
        self.last_wrap_tv = None
        self.last_reply = None    # network time announced by the latest genuine answer to our sync request
        self.log = []             # datagrams delivered so far: (raw, kind, inner token)
        self.log_mark = 0         # ... of which this many before the last stop()
        self.ks = list(case.get("ks", [500]))
        self.ki = 0
        self.nrand = 0
        world = self

        def uniform(a, b):
            lo, hi = round(a * 1000), round(b * 1000)
            k = world.ks[world.ki % len(world.ks)]
            world.ki += 1
            d = lo + (k * (hi - lo)) // 1000
            world.draws.append((lo, hi, d))
            return d / 1000.0

        def randbytes(n):
            world.nrand += 1
            return ((world.nrand * 257 + 11) % (1 << (8 * n))).to_bytes(n, "big")
        _random.uniform = uniform
        _random.randbytes = randbytes

        async def fake_connect(self_):
            self_.transport = _Sock(world)
            self_.local_addr_assigned = ADDR
        UDPTransport.connect = fake_connect
        self.latency = case.get("latency", 1000)
        self.group = SecureGroup(local_addr=("192.168.1.50", 0), remote_addr=("224.0.23.12", 3671),
                                 backbone_key=KEY, latency_ms=self.latency)
        self.timer = self.group.secure_timer
        self.group.register_callback(self.on_forward, None)
        self.trace.append(("new", self.mono(), self.latency, self.timer.sync_latency_tolerance_ms))

    def mono(self):
        return self.timer._monotonic_ms()

    def on_forward(self, frame, _src, _tr):
        self.fwd = frame.header.service_type_ident.value

    def on_write(self, data):
        svc = _svc_of(data)
        if svc == SVC.TIMER_NOTIFY.value and len(data) == 36:
            tv = int.from_bytes(data[6:12], "big")
            serial, tag, mac = data[12:18], data[18:20], data[20:36]
            ok = int(mac == R.timer_notify_mac(KEY, tv, serial, tag))
            rec = ("N", tv, serial, tag, ok)
        elif svc == R.WRAPPER_SVC:
            u = R.unwrap(KEY, data)
            ok = int(u is not None and u["mac_ok"] and u["session_id"] == 0 and u["serial"] == XKNX_SERIAL_NUMBER)
            rec = ("W", u["seq"] if u else -1, ok)
        else:
            rec = ("P", svc)
        if self.call is not None:
            self.call.append(rec)
        elif self.ctx == "sync" and rec[0] == "N":
            # the TimerNotify `synchronize` sends first: fresh tag, our serial
            self.ctx = None
            self.sync_tag = rec[3]
            good = rec[4] and rec[2] == XKNX_SERIAL_NUMBER
            self.trace.append(("conn", self.mono(), rec[1] if good else -1))
        elif self.ctx == "ntf":
            self.ctx_writes.append(rec)
        else:
            self.trace.append(("badwrite", self.mono(), rec[0]))

    def take_draw(self):
        d, self.draws = self.draws, []
        if not d:
            return "-"
        if len(d) > 1:
            return "multi"
        return "%d:%d:%d" % d[0]

    def probe(self):
        t = self.timer
        self.trace.append(("st", self.mono(), t._clock_difference, int(t.timekeeper), int(t.sched_update), int(t.timer_authenticated)))

    # ---- wrappers around what the code does from loop callbacks --------------------------------
    def install(self):
        cls = type(self.timer)
        world = self
        self._orig = (cls._notify_timer_expired, cls.synchronize, cls.update)
        real_expired, real_sync, real_update = self._orig

        def expired(self_, update):
            world.draws = []
            world.ctx, world.ctx_writes = "ntf", []
            try:
                real_expired(self_, update)
            finally:
                world.ctx = None
            w = world.ctx_writes
            tv = -1
            if len(w) == 1 and w[0][0] == "N" and w[0][4]:
                # an update notify repeats tag and serial of the frame that triggered it, a periodic one is our own
                if update is None and w[0][2] != XKNX_SERIAL_NUMBER:
                    tv = -2
                elif update is not None and (w[0][3], w[0][2]) != tuple(update):
                    tv = -3
                else:
                    tv = w[0][1]
            world.trace.append(("ntf", world.mono(), tv, world.take_draw()))
            world.probe()

        async def synchronize(self_):
            world.ctx = "sync"
            world.updated = False
            world.draws = []
            await real_sync(self_)
            world.ctx = None
            if world.draws:     # finished (not cancelled): the final reschedule drew a delay
                world.trace.append(("sres", world.mono(), int(world.updated), world.take_draw()))
                world.probe()

        def update(self_, new_value):
            world.updated = True
            real_update(self_, new_value)
        cls._notify_timer_expired, cls.synchronize, cls.update = expired, synchronize, update

    def uninstall(self):
        cls = type(self.timer)
        cls._notify_timer_expired, cls.synchronize, cls.update = self._orig

    # ---- inputs ------------------------------------------------------------------------------
    def do_conn(self):
        async def run():
            try:
                await self.group.connect()
            except Exception as e:  # noqa: BLE001
                self.trace.append(("cerr", self.mono(), type(e).__name__))
        self.connect_task = asyncio.create_task(run())

    def build(self, spec):
        k = spec["f"]
        local = self.timer.current_timer_value()
        if k == "replay":
            # a datagram recorded before the last stop(), octet for octet (the backbone key is static: its MAC still
            # verifies; what protects the new connection is the timer value it carries)
            if not self.log_mark:
                return None
            raw, kind, tok = self.log[spec["i"] % self.log_mark]
            if kind == "notify":
                tv, serial, tag, mac = int.from_bytes(raw[6:12], "big"), raw[12:18], raw[18:20], raw[20:36]
                return raw, ("rxn", tv, int(serial == XKNX_SERIAL_NUMBER), int(tag == self.sync_tag),
                             int(mac == R.timer_notify_mac(KEY, tv, serial, tag)))
            u = R.unwrap(KEY, raw)
            return raw, ("rxw", u["session_id"], u["seq"], int(u["mac_ok"]), tok)
        if k == "notify":
            tv = max(0, self._timer_of(spec, local))
            serial = XKNX_SERIAL_NUMBER if spec.get("own") else PEER_SERIAL
            tag = (self.sync_tag or b"\x00\x01") if spec.get("tagm") else b"\x5a\xa5"
            mac = R.timer_notify_mac(KEY, tv, serial, tag)
            if not spec.get("mac", 1):
                mac = bytes((mac[0] ^ 1,)) + mac[1:]
            raw = R.timer_notify_frame(KEY, tv, serial, tag, mac)
            ok = int(mac == R.timer_notify_mac(KEY, tv, serial, tag))
            self.log.append((raw, "notify", ""))
            if serial == XKNX_SERIAL_NUMBER and tag == self.sync_tag and ok:
                self.last_reply = tv
            return raw, ("rxn", tv, int(serial == XKNX_SERIAL_NUMBER), int(tag == self.sync_tag), ok)
        if k == "plain":
            raw = FR[spec["svc"]]
            return raw, ("rxp", _svc_of(raw))
        assert k == "wrap"
        tv = max(0, self._timer_of(spec, local))
        inner_name = spec["inner"]
        if inner_name == "nested":
            inner, tok = R.wrap(KEY, 0, bytes(6), PEER_SERIAL, b"\x00\x00", FR["routing_ind"]), f"s{R.WRAPPER_SVC}"
        elif inner_name == "garbage":
            inner, tok = bytes.fromhex("ffee01020304050607"), "u"
        elif inner_name == "truncated":
            inner, tok = FR["routing_ind"][:-3], "u"
        elif inner_name == "unknown_svc":
            inner, tok = bytes.fromhex("06100aaa0008") + b"\x00\x00", "u"
        elif inner_name == "bad_version":
            inner, tok = bytes.fromhex("061204210a") + FR["tunnel_ack"][5:], "u"
        else:
            inner = FR[inner_name]
            tok = f"s{_svc_of(inner)}"
        key = KEY if spec.get("key", "ok") == "ok" else bytes(x ^ 0x33 for x in KEY)
        raw = bytearray(R.wrap(key, int(spec.get("sid", 0)), tv.to_bytes(6, "big"), PEER_SERIAL, b"\x12\x34", inner))
        t = spec.get("tamper")
        if t == "mac":
            raw[-1] ^= 1
        elif t == "data":
            raw[22] ^= 0x80
        elif t == "timer":      # timer field rewritten after the MAC was made
            raw[8:14] = ((tv + 5000) % (1 << 48)).to_bytes(6, "big")
        elif t == "sid":
            raw[7] ^= 1
        raw = bytes(raw)
        u = R.unwrap(KEY, raw)
        self.last_wrap_tv = tv
        self.log.append((raw, "wrap", tok))
        return raw, ("rxw", u["session_id"], u["seq"], int(u["mac_ok"]), tok)

    def _timer_of(self, spec, local):
        if "abs" in spec:
            return int(spec["abs"])
        net = self.last_reply if self.last_reply is not None else local
        base = {"local": local, "sync": local - self.timer.sync_latency_tolerance_ms,
                "lat": local - self.timer.latency_tolerance_ms,
                # relative to the network time announced by the latest answer to our synchronisation request
                "net": net, "netlat": net - self.timer.latency_tolerance_ms,
                # relative to the timer value of the wrapper built just before (independent of the implementation's clock)
                "prevw": self.last_wrap_tv if self.last_wrap_tv is not None else local}[spec.get("base", "local")]
        return base + int(spec.get("off", 0))

    def do_dgrams(self, specs):
        """Deliver the datagrams back to back (no loop iteration in between)."""
        for spec in specs:
            b = self.build(spec)
            if b is None:
                continue
            raw, pre = b
            self.fwd = None
            self.draws = []
            self.call = []
            try:
                self.group.data_received_callback(raw, PEER)
                out = "f" if self.fwd is not None else "d"
            except Exception as e:  # noqa: BLE001
                out = "x:" + type(e).__name__
            writes, self.call = self.call, None
            if writes:
                out = "bad:write"
            t = self.mono()
            if pre[0] == "rxp":
                self.trace.append((pre[0], t) + tuple(pre[1:]) + (out,))
            else:
                self.trace.append((pre[0], t) + tuple(pre[1:]) + (self.take_draw(), out))
            self.probe()

    def do_send(self):
        frame, _ = KNXIPFrame.from_knx(FR["routing_ind"])
        self.draws = []
        self.call = []
        try:
            self.group.send(frame)
            out = None
        except IPSecureError:
            out = "e:ipsec"
        except CommunicationError:
            out = "e:comm"
        except Exception as e:  # noqa: BLE001
            out = "e:other:" + type(e).__name__
        writes, self.call = self.call, None
        if out is None:
            if len(writes) == 1 and writes[0][0] == "W" and writes[0][2]:
                out = f"w{writes[0][1]}"
            else:
                out = "bad:" + str(writes)[:40]
        elif writes:
            out = "bad:write+exc"
        self.trace.append(("snd", self.mono(), self.take_draw(), out))


async def _main(loop, case):
    w = _World(loop, case)
    w.install()
    is_open = False
    try:
        for step in case["steps"]:
            k = step["k"]
            if k in ("dgrams", "snd", "stop") and not is_open:
                continue      # no socket: nothing can arrive, the telegram queue does not send (see notes/C30.md)
            if k == "conn":
                if w.connect_task is not None and not w.connect_task.done():
                    continue
                w.do_conn()
                is_open = True
            elif k == "dgrams":
                w.do_dgrams(step["frames"])
            elif k == "snd":
                w.do_send()
            elif k == "stop":
                w.group.stop()
                is_open = False
                w.log_mark = len(w.log)
                w.trace.append(("stop", w.mono()))
            elif k == "abandon":
                # abandon the pending synchronisation (stop() cancels its future; cancelling the connect task does too) and
                # hand genuine answers to the receive path BEFORE synchronize() has run again (same loop iteration):
                # `_expected_notify_handler` is still set, its future is already done
                pending_sync = (w.connect_task is not None and not w.connect_task.done()
                                and w.timer._expected_notify_handler is not None)
                if not (is_open and pending_sync):
                    continue
                if step["how"] == "stop":
                    w.group.stop()
                else:
                    w.connect_task.cancel()
                w.do_dgrams(step["frames"])
                await loop.settle()
                if step["how"] != "stop":
                    w.group.stop()
                is_open = False
                w.log_mark = len(w.log)
                w.trace.append(("stop", w.mono()))      # the monitor's `stop`: stop() and its consequences have settled
            elif k == "sleep":
                await asyncio.sleep(step["ms"] / 1000.0)
            await loop.settle()
            w.probe()
        if w.connect_task is not None and not w.connect_task.done():
            w.connect_task.cancel()
        w.group.stop()
    finally:
        w.uninstall()
    return w.trace


def _fmt(trace):
    return ";".join(",".join(str(x) for x in o) for o in trace)


def run_impl(case):
    try:
        trace = vloop.run(lambda loop: _main(loop, case), start=T0)
    finally:
        teardown()
    out = _fmt(trace)
    return {"out": out, "line": "c30 monitor " + out, "expect": "accept"}


# --------------------------------------------------------------------------------------------------
# oracle: the property restated on the trace (independent of the Lean monitor)
# --------------------------------------------------------------------------------------------------

PLAIN_OK = {0x0201, 0x0202, 0x0203, 0x0204, 0x020B, 0x020C}   # discovery and self-description (KNX 03.08.09 §2.6.2)
FORBIDDEN = {0x0950, 0x0740, 0x0741, 0x0742, 0x0743}


def _parse(out):
    return [tok.split(",") for tok in out.split(";") if tok]


def oracle(case, out):
    tr = _parse(out)
    st = None                  # last probe: (clockDiff, timekeeper, schedUpdate, authenticated)
    latency = case.get("latency", 1000)
    last_out = None            # timer of the last outgoing wrapper since authentication of this connection
    # reference timer, from the trace alone: reference = monotonic time + ref_diff.  It starts as the unsynchronised
    # local timer (ref_diff 0), is set by the completion of a synchronisation to the authenticated answer, and is
    # raised by every timer value that was accepted as authentic and ahead (MAC-verified TimerNotify; forwarded wrapper)
    ref_diff = 0
    sync_pending = False
    reply = None               # timer value of the answer `synchronize` is holding
    synced = False             # a synchronisation of this object has COMPLETED (`sres` seen): only then is the timer
                               # authenticated - judged from the trace, not from the implementation's own flag
    for o in tr:
        k = o[0]
        if k in ("badwrite", "cerr"):
            return f"{k}: {o[2:]}"
        if k == "st":
            new = (int(o[2]), o[3] == "1", o[4] == "1", o[5] == "1")
            if st is not None and pending is not None:
                pk, pt, mac = pending
                if new[0] != st[0]:
                    if pk in ("rxn", "rxw") and not mac:
                        return f"clock difference moved from {st[0]} to {new[0]} by a frame whose MAC does not verify"
                    if pk not in ("rxn", "rxw", "sres"):
                        return f"clock difference moved from {st[0]} to {new[0]} at event {pk}"
                    if st[3] and new[0] < st[0] and pk != "sres":
                        return f"clock difference moved backwards from {st[0]} to {new[0]} after authentication"
                if pk == "rxn" and not mac and new != st:
                    return f"timer notify with invalid MAC changed the timer state {st} -> {new}"
            st = new
            pending = None
            continue
        t = int(o[1])
        if k == "rxp":
            want = "f" if int(o[2]) in PLAIN_OK else "d"
            if o[-1] != want:
                return (f"plain frame of service 0x{int(o[2]):04x} was " +
                        ("passed on" if o[-1] == "f" else f"not passed on ({o[-1]})"))
            pending = ("rxp", t, True)
        elif k == "rxn":
            if o[-1].startswith("x"):
                return f"receive path raised {o[-1][2:]} on a TimerNotify"
            if o[-1] != "d":
                return f"TimerNotify outcome {o[-1]}"
            if o[5] != "1" and o[6] != "-":
                return "timer notify with invalid MAC rescheduled the notify timer"
            if o[5] == "1":
                if sync_pending and o[3] == "1" and o[4] == "1":
                    if reply is None:
                        reply = int(o[2])          # the answer to our request; adopted when synchronize() resumes
                elif int(o[2]) > t + ref_diff:
                    ref_diff = int(o[2]) - t
            pending = ("rxn", t, o[5] == "1")
        elif k == "rxw":
            _, _t, sid, tv, mac, inner, draw, res = o
            if res.startswith("x"):
                return f"receive path raised {res[2:]} on a SecureWrapper"
            if res == "f":
                why = []
                if not synced:
                    why.append("the timer is not synchronised yet (synchronize() has not completed: the local timer "
                               "has not been moved to the network time)")
                if mac != "1":
                    why.append("its MAC does not verify")
                if sid != "0":
                    why.append(f"session id {sid} != 0")
                if not inner.startswith("s") or int(inner[1:]) in FORBIDDEN:
                    why.append(f"inner frame {inner} unparsable / nested / remote diagnosis")
                if st is not None and not int(tv) > t + st[0] - latency:
                    why.append(f"timer {tv} is not above local {t + st[0]} - latency {latency}")
                if not int(tv) > t + ref_diff - latency:
                    why.append(f"its timer {tv} is older than the latency tolerance ({latency} ms) allows against the timer "
                               f"established by authenticated frames ({t + ref_diff}: synchronised value / newest accepted "
                               f"timer value, advanced by the elapsed time)")
                if why:
                    return "wrapped frame passed on although " + ", ".join(why)
                if mac == "1" and int(tv) > t + ref_diff:
                    ref_diff = int(tv) - t
            elif res == "d":
                if (st is not None and synced and mac == "1" and sid == "0" and inner.startswith("s")
                        and int(inner[1:]) not in FORBIDDEN and int(tv) > t + st[0] - latency
                        and int(tv) > t + ref_diff - latency):
                    return f"authentic wrapped frame with timely timer {tv} (local {t + st[0]}) was dropped"
            else:
                return f"SecureWrapper outcome {res}"
            pending = ("rxw", t, mac == "1" and res == "f")
        elif k == "snd":
            res = o[-1]
            if res.startswith("bad") or res.startswith("e:other"):
                return f"send: {res}"
            if res.startswith("w"):
                tv = int(res[1:])
                if st is not None and st[3]:
                    if last_out is not None and tv < last_out:
                        return f"outgoing wrapper carries timer {tv} after {last_out}"
                    last_out = tv
            pending = ("snd", t, True)
        elif k == "ntf":
            if int(o[2]) < 0:
                return f"TimerNotify sent by the notify timer is malformed ({o[2]})"
            pending = ("ntf", t, True)
        elif k == "conn":
            if int(o[2]) < 0:
                return "synchronisation request malformed"
            sync_pending, reply = True, None
            last_out = None
            pending = ("conn", t, True)
        elif k == "sres":
            if o[2] == "1" and reply is not None:
                ref_diff = reply - t               # update(): the timer is SET to the authenticated answer
            sync_pending, reply = False, None
            synced = True
            last_out = None
            pending = ("sres", t, True)
        elif k == "stop":
            sync_pending, reply = False, None
            pending = ("stop", t, True)
    return None


pending = None


def nontrivial(case, out):
    tr = _parse(out)
    return (any(o[0] == "sres" for o in tr) and any(o[0] == "rxw" and o[-1] == "f" for o in tr)
            and any(o[0] == "rxw" and o[-1] == "d" for o in tr))


def outcome_class(out):
    tr = _parse(out)
    f = sum(1 for o in tr if o[0] == "rxw" and o[-1] == "f")
    d = sum(1 for o in tr if o[0] == "rxw" and o[-1] != "f")
    s = [o for o in tr if o[0] == "sres"]
    return f"fwd{min(f, 3)}-drop{min(d, 3)}-{'reply' if s and s[0][2] == '1' else ('timeout' if s else 'nosync')}"


def finding_key(case, msg):
    import json
    return "steps " + json.dumps(case["steps"], separators=(",", ":"))[:400]


def shrink(case, msg):
    steps = list(case["steps"])
    kind = " ".join(msg.split()[:4])

    def fails(st):
        c = dict(case, steps=st)
        try:
            m = oracle(c, run_impl(c)["out"])
            return m is not None and " ".join(m.split()[:4]) == kind
        except Exception:  # noqa: BLE001
            return False
    changed = True
    while changed and len(steps) > 1:
        changed = False
        for i in range(len(steps)):
            cand = steps[:i] + steps[i + 1:]
            if fails(cand):
                steps, changed = cand, True
                break
        if not changed:
            # single datagrams inside a step
            for i, stp in enumerate(steps):
                if stp["k"] == "dgrams" and len(stp["frames"]) > 1:
                    for j in range(len(stp["frames"])):
                        cand = steps[:i] + [dict(stp, frames=stp["frames"][:j] + stp["frames"][j + 1:])] + steps[i + 1:]
                        if fails(cand):
                            steps, changed = cand, True
                            break
                if changed:
                    break
    return dict(case, steps=steps, shrunk_from=len(case["steps"]))


# --------------------------------------------------------------------------------------------------
# generator
# --------------------------------------------------------------------------------------------------

OFFS = [1, 0, -1, 2, -2, 50, -50]
PLAIN30 = [n for n in PLAIN_NAMES if n != "timer_notify"]
LATENCIES = [1000, 1000, 1000, 2000, 500, 200, 3000, 1234, 995, 1005, 250]


def _timer_spec(rng):
    r = rng.random()
    if r < 0.75:
        return {"base": rng.choice(["local", "local", "sync", "lat", "lat"]), "off": rng.choice(OFFS)}
    if r < 0.9:
        return {"base": "local", "off": rng.choice([5000, 60000, -5000, -60000, 3600000, -3600000])}
    return {"abs": rng.choice([0, 1, 1000000, 5000000, 1 << 32, (1 << 40)])}


def _notify(rng, sync=False):
    spec = {"f": "notify", "mac": 0 if rng.random() < 0.2 else 1}
    spec.update(_timer_spec(rng))
    if sync:
        spec["own"] = 0 if rng.random() < 0.15 else 1
        spec["tagm"] = 0 if rng.random() < 0.15 else 1
    else:
        spec["own"] = 1 if rng.random() < 0.15 else 0
        spec["tagm"] = 1 if rng.random() < 0.15 else 0
    return spec


def _wrap(rng):
    spec = {"f": "wrap", "inner": rng.choice(["routing_ind"] * 6 + INNER_OK)}
    spec.update(_timer_spec(rng))
    r = rng.random()
    if r < 0.08:
        spec["tamper"] = rng.choice(["mac", "data", "timer", "sid"])
    elif r < 0.13:
        spec["key"] = "bad"
    elif r < 0.18:
        spec["sid"] = rng.choice([1, 255, 65535])
    elif r < 0.24:
        spec["inner"] = rng.choice(INNER_FORBIDDEN)
    elif r < 0.30:
        spec["inner"] = rng.choice(INNER_UNPARSABLE)
    return spec


def _dgram(rng, sync=False):
    r = rng.random()
    if r < 0.3:
        return {"f": "plain", "svc": rng.choice(PLAIN30)}
    if r < (0.75 if sync else 0.55):
        return _notify(rng, sync)
    return _wrap(rng)


def _three_step(rng, steps, latency):
    """Inside the window of a pending update notify: (1) a stale authentic frame (rejected, schedules the update notify),
    (2) an authentic wrapper far ahead of the local timer (forwarded, the timer must follow it), (3) an authentic wrapper
    older than the tolerance against (2) but within it against the timer as it was before (2)."""
    ahead = latency + rng.choice([1, 50, 500, 5000, 60000, 2 * latency])
    if rng.random() < 0.6:
        stale = {"f": "wrap", "inner": "routing_ind", "base": "lat", "off": rng.choice([0, -1, -50, -5000])}
    else:
        stale = {"f": "notify", "mac": 1, "own": 0, "tagm": 0, "base": "lat", "off": rng.choice([0, -1, -50, -5000])}
    far = {"f": "wrap", "inner": "routing_ind", "base": "local", "off": ahead}
    delta = rng.choice([0, 1, 50, ahead // 2, ahead - latency, ahead - 1])
    between = {"f": "wrap", "inner": "routing_ind", "base": "prevw", "off": -latency - max(0, min(delta, ahead - 1))}
    gap = rng.choice([0, 0, 1, 10, 40])
    if gap == 0:
        steps.append({"k": "dgrams", "frames": [stale, far, between]})
    else:
        steps.append({"k": "dgrams", "frames": [stale]})
        steps.append({"k": "sleep", "ms": gap})
        steps.append({"k": "dgrams", "frames": [far]})
        steps.append({"k": "sleep", "ms": gap})
        steps.append({"k": "dgrams", "frames": [between]})
    return 3


def _gen_case(rng, big):
    steps = []
    case = {"latency": rng.choice(LATENCIES), "ks": [rng.choice([0, 1000, 500, rng.randrange(1001)]) for _ in range(rng.randrange(1, 5))]}
    if rng.random() < 0.25:
        steps.append({"k": "dgrams", "frames": [_dgram(rng) for _ in range(rng.randrange(1, 4))]})
    if rng.random() < 0.1:
        steps.append({"k": "snd"})
    steps.append({"k": "conn"})
    if rng.random() < 0.1:
        # the synchronisation is abandoned and its (genuine) answer arrives before synchronize() runs again
        if rng.random() < 0.5:
            steps.append({"k": "sleep", "ms": rng.choice([1, 100, 1500])})
        ans = [{"f": "notify", "mac": 0 if rng.random() < 0.15 else 1, "own": 1, "tagm": 1, "base": "local",
                "off": rng.choice([0, 1, -50, 5000, 60000, -60000, 1800000])} for _ in range(rng.choice([1, 1, 2]))]
        steps.append({"k": "abandon", "how": rng.choice(["stop", "cancel"]), "frames": ans})
        steps.append({"k": "conn"})
    m = rng.random()
    if m < 0.2:
        steps.append({"k": "sleep", "ms": 20000})          # not answered: becomes time keeper
    else:
        if rng.random() < 0.3:
            steps.append({"k": "sleep", "ms": rng.choice([1, 100, 1500])})
        n = rng.choice([1, 1, 2, 2, 3])
        if rng.random() < 0.35:
            # the answer to our request and, in the same batch (synchronize() has not resumed yet), authentic wrappers whose
            # timer lies around the unsynchronised local timer and around the network time the answer announces
            delta = rng.choice([1800000, -1800000, 60000, -60000, 5000, 3600000])
            ans = {"f": "notify", "mac": 1, "own": 1, "tagm": 1, "base": "local", "off": delta}
            ws = [{"f": "wrap", "inner": "routing_ind", "base": rng.choice(["local", "local", "net", "netlat"]),
                   "off": rng.choice([1, 0, -1, 2, 50, -50, 5000, -5000, 60000])} for _ in range(rng.randrange(1, 4))]
            steps.append({"k": "dgrams", "frames": [ans] + ws})
        else:
            steps.append({"k": "dgrams", "frames": [_notify(rng, True) for _ in range(n)] + ([_dgram(rng, True)] if rng.random() < 0.3 else [])})
        steps.append({"k": "sleep", "ms": 20000 if rng.random() < 0.5 else rng.choice([0, 10, 5000])})
    n = 0
    budget = rng.randrange(5, 50 if big else 25)
    while n < budget:
        r = rng.random()
        if r < 0.12:
            n += _three_step(rng, steps, case["latency"])
        elif r < 0.55:
            c = rng.randrange(1, 4)
            steps.append({"k": "dgrams", "frames": [_dgram(rng) for _ in range(c)]})
            n += c
        elif r < 0.7:
            steps.append({"k": "snd"})
            n += 1
        elif r < 0.92:
            steps.append({"k": "sleep", "ms": rng.choice([1, 99, 100, 101, 200, 1300, 10000, 10150, 10300, 11400, 12000, 30000])})
            n += 1
        elif r < 0.97:
            steps.append({"k": "stop"})
            steps.append({"k": "conn"})
            steps.append({"k": "dgrams", "frames": [_notify(rng, True) for _ in range(rng.choice([0, 1, 2]))] or [_dgram(rng)]})
            steps.append({"k": "sleep", "ms": rng.choice([0, 20000])})
            # datagrams recorded on the earlier connection of this object, played back into the new one
            steps.append({"k": "dgrams", "frames": [{"f": "replay", "i": rng.randrange(64)} for _ in range(rng.randrange(0, 5))]
                          or [_dgram(rng)]})
            n += 4
        else:
            steps.append({"k": "stop"})
            n += 1
    case["steps"] = steps
    return case


def generate(rng, tier):
    # the duplicated synchronisation reply of DESIGN §4 always runs
    yield {"latency": 1000, "ks": [500], "steps": [{"k": "conn"}, {"k": "dgrams", "frames": [
        {"f": "notify", "own": 1, "tagm": 1, "abs": 5000000}, {"f": "notify", "own": 1, "tagm": 1, "abs": 5000001}]}, {"k": "snd"}]}
    n = 700 if tier == "quick" else 40000
    for _ in range(n):
        yield _gen_case(rng, tier != "quick" or rng.random() < 0.3)
