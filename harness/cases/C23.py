"""C23 Server-sent tunnel and management frames are delivered once, in order (mode F: whole history = one line)."""
from __future__ import annotations

import asyncio
import itertools
import json
import logging

from harness import vloop
from harness.tstub import GW, Gateway, StubUDP

from xknx import XKNX
from xknx.io.device_management import DeviceManagement
from xknx.io.device_management_connection import UDPDeviceManagementConnection
from xknx.io.tunnel import UDPTunnel
from xknx.knxip import (
    DeviceConfigurationAck,
    DeviceConfigurationRequest,
    DisconnectRequest,
    TunnellingAck,
    TunnellingRequest,
)

PROPERTY = "C23"
RULE = ("request/reconnect histories (in-order streams through a lossy, duplicating, reordering channel; arbitrary and "
        "boundary counters; counters relative to the expected one; wrap 255->0; reconnects with channel change; foreign "
        "channel ids) replayed against the real UDPTunnel, DeviceManagement and UDPDeviceManagementConnection over a "
        "stubbed datagram endpoint, each created with route_back False and True, the next connection of the same object "
        "reached by server disconnect, user disconnect+connect or heartbeat failure; the cEMI octets of the requests are "
        "a generator axis, and so is the timing of frames around a reconnect (same datagram batch as the ConnectResponse, "
        "1-3 loop callbacks later, during the disconnect exchange); payloads: (id-tagged 5 octets, empty, one octet, junk, a valid L_Data frame, 250 octets, mixed per "
        "request) - passed up = the callback received exactly those octets; one history = one model line; non-trivial = distinct history with at least one "
        "delivered frame and one non-delivered request")
TRUSTED = ["model XknxVerif.Model.SeqRecv is hand-written; tied by replaying generated histories on the real handlers",
           "harness/tstub.py: the asyncio datagram endpoint is replaced by an in-memory object; frames cross it as bytes"]
CASE_TIMEOUT = 20.0

# how the SAME object gets its next connection: server DisconnectRequest (+auto-reconnect), user disconnect()+connect(),
# heartbeat failure; "+rb" = created with route_back=True (configuration axis added in round 2)
# "tunnel-inv": the reconnect is the tunnel's own reaction to a frame with an invalid sequence number (2 s timer)
IMPLS = {"tunnel": ["tunnel-srv", "tunnel-usr", "tunnel-srv+rb", "tunnel-usr+rb", "tunnel-hb", "tunnel-hb+rb", "tunnel-inv"],
         "mgmt": ["handler", "handler-new", "conn-srv", "conn-usr", "conn-srv+rb", "conn-usr+rb"]}


def payload(i: int, mode: str = "id") -> bytes:
    """cEMI octets of request `i`. The sequencing layer must not care what they parse to (round 3: payload axis)."""
    kind = mode if mode != "mix" else PL_KINDS[i % len(PL_KINDS)]
    if kind == "empty":
        return b""
    if kind == "one":
        return bytes((i & 0xFF,))
    if kind == "junk":      # not a cEMI frame at all (unknown message code, truncated)
        return bytes((0xEE, 0xFF, i & 0xFF))
    if kind == "ldata":     # a valid L_Data.ind GroupValueWrite
        return _ldata(i)
    if kind == "long":
        return bytes((0x29, 0x00, (i >> 16) & 0xFF, (i >> 8) & 0xFF, i & 0xFF)) + bytes(245)
    return bytes((0x29, 0x00, (i >> 16) & 0xFF, (i >> 8) & 0xFF, i & 0xFF))


PL_KINDS = ["id", "empty", "one", "junk", "ldata", "long"]
PL_MODES = PL_KINDS + ["mix"]


def _ldata(i: int) -> bytes:
    from xknx.cemi import CEMIFrame, CEMILData, CEMIMessageCode
    from xknx.dpt import DPTArray
    from xknx.telegram import GroupAddress, Telegram
    from xknx.telegram.apci import GroupValueWrite
    return CEMIFrame(code=CEMIMessageCode.L_DATA_IND, data=CEMILData.init_from_telegram(
        Telegram(destination_address=GroupAddress("1/2/3"),
                 payload=GroupValueWrite(DPTArray((i >> 8 & 0xFF, i & 0xFF)))))).to_knx()


def unpayload(b: bytes) -> int:
    if len(b) != 5 or b[:2] != b"\x29\x00":
        return -1
    return int.from_bytes(b[2:], "big")


# ---------------------------------------------------------------------------
# implementation runner
# ---------------------------------------------------------------------------

class _Tunnel(UDPTunnel):
    __slots__ = ()

    def _init_transport(self):
        self.transport = StubUDP()


class _Conn(UDPDeviceManagementConnection):
    __slots__ = ("got",)

    def _init_transport(self):
        self.transport = StubUDP()

    def _cemi_received(self, raw_cemi):  # what the handler passes up
        self.got(raw_cemi)


class Rec:
    """Collects what the handler does during the current event."""

    def __init__(self):
        self.cur = []
        self.now = None   # (id, octets) of the request being injected

    def deliver(self, raw):
        # passed up = the callback got exactly the octets of the request just injected (whatever they parse to)
        ok = self.now is not None and bytes(raw) == self.now[1]
        self.cur.append(("d", self.now[0] if ok else -1))

    def frame(self, frame, addr):
        b = frame.body
        if isinstance(b, (TunnellingAck, DeviceConfigurationAck)):
            # status is part of "an acknowledgement": anything but E_NO_ERROR is reported as such
            st = "" if b.status_code.value == 0 else f"!{b.status_code.value}"
            self.cur.append(("a", b.communication_channel_id, b.sequence_counter, st, type(b).__name__, addr))
        else:
            self.cur.append(("x", type(b).__name__))

    def take(self, want_ack_cls, seq):
        outs, self.cur = self.cur, []
        toks = []
        for o in outs:
            if o[0] == "a":
                tok = f"a{o[1]}:{o[2]}{o[3]}"
                if o[4] != want_ack_cls:
                    tok += "?" + o[4]
                if o[5] != GW:
                    tok += "?addr"
                toks.append(tok)
            elif o[0] == "d":
                toks.append(f"d{seq}:{o[1]}")
            else:
                toks.append("x" + o[1])
        # ACK/delivery order within one event is not fixed by the property: canonical order
        return "+".join(sorted(toks)) if toks else "-"


async def _run(loop, kind, impl, ch0, events, pl="id", timing=None):
    impl, _, rb = impl.partition("+")
    route_back = rb == "rb"
    rec = Rec()
    state = {"expected": None}
    if kind == "tunnel":
        xk = XKNX()
        t = _Tunnel(xk, cemi_received_callback=rec.deliver, gateway_ip=GW[0], gateway_port=GW[1],
                    local_ip="192.168.1.1", auto_reconnect=True, auto_reconnect_wait=1, route_back=route_back)
        gw = Gateway(t.transport, on_data=rec.frame)
        req_cls, ack_cls = TunnellingRequest, "TunnellingAck"

        async def connect(ch, first, pre=(), post=(), lag=0):
            """`pre`: request events delivered during the disconnect exchange of this reconnect (old connection);
            `post`: request events delivered in the same datagram batch as the ConnectResponse (lag 0) or `lag` loop
            callbacks later. Returns the per-event outputs of pre, of the connect itself, and of post."""
            gw.next_channel = ch
            res = {"pre": [], "c": None, "post": []}

            def burst(evs, key):
                for ev in evs:
                    c_, seq, i = (int(x) for x in ev[1:].split(":"))
                    inject(c_, seq, i)
                    res[key].append(rec.take(ack_cls, seq))
                    rec.now = None

            def on_disc():
                gw.on_disconnect_request = None
                rec.cur = [o for o in rec.cur if o[0] != "x"]
                burst(pre, "pre")

            def after_resp(n=[lag]):
                gw.after_connect_response = None
                if n[0] > 0:
                    n[0] -= 1
                    loop.call_soon(after_resp)
                    return
                rec.cur = [o for o in rec.cur if o[0] != "x"]
                res["c"] = rec.take(ack_cls, 0)
                burst(post, "post")
            if pre:
                gw.on_disconnect_request = on_disc
            if post:
                gw.after_connect_response = after_resp
            await _connect(ch, first)
            await loop.settle()
            if (pre and len(res["pre"]) != len(pre)) or (post and len(res["post"]) != len(post)):
                raise RuntimeError("harness: timing hook did not fire")
            if res["c"] is None:
                res["c"] = rec.take(ack_cls, 0)
            return res

        async def _connect(ch, first):
            if first:
                await t.connect()
            elif impl == "tunnel-inv":   # an out-of-order frame (not part of the history: it must cause nothing) arms the 2 s timer
                t.transport.inject(req_cls(communication_channel_id=t.communication_channel,
                                           sequence_counter=(t._sequence.expected + 100) % 256, raw_cemi=b"\x29\x00"))
                before = gw.connects
                for _ in range(10):
                    if gw.connects > before:
                        break
                    await asyncio.sleep(0.5)
                await loop.settle()
                if t._reconnect_task is not None:
                    await t._reconnect_task
            elif impl == "tunnel-usr":
                await t.disconnect()
                await t.connect()
            elif impl == "tunnel-hb":  # the gateway stops answering the heartbeat; the tunnel gives up and reconnects
                before = gw.connects
                gw.answer_state = False
                for _ in range(400):
                    if gw.connects > before:
                        break
                    await asyncio.sleep(1.0)
                gw.answer_state = True
                await loop.settle()
                if t._reconnect_task is not None:
                    await t._reconnect_task
            else:  # the server closes the channel; auto-reconnect establishes a new one
                t.transport.inject(DisconnectRequest(communication_channel_id=t.communication_channel))
                await loop.settle()
                if t._reconnect_task is not None:
                    await t._reconnect_task
            assert t.communication_channel == ch, (t.communication_channel, ch)
            rec.cur = [o for o in rec.cur if o[0] != "x"]  # control frames of the (re)connect itself

        def inject(ch, seq, i):
            rec.now = (i, payload(i, pl))
            t.transport.inject(req_cls(communication_channel_id=ch, sequence_counter=seq, raw_cemi=rec.now[1]))

        def expected():
            return t._sequence.expected

        async def finish():
            await t.disconnect()
    elif impl in ("handler", "handler-new"):
        tr = StubUDP()
        await tr.connect()
        gw = Gateway(tr, on_data=rec.frame)
        box = {"dm": None}
        req_cls, ack_cls = DeviceConfigurationRequest, "DeviceConfigurationAck"

        async def connect(ch, first):
            dm = box["dm"]
            if dm is None or impl == "handler-new":
                if dm is not None:
                    dm.stop()
                dm = box["dm"] = DeviceManagement(tr, ch, cemi_received_callback=rec.deliver, data_endpoint=GW)
                dm.start()
            else:  # same instance reused for a new connection
                dm.stop()
                dm.communication_channel = ch
                dm.start()

        def inject(ch, seq, i):
            rec.now = (i, payload(i, pl))
            tr.inject(req_cls(communication_channel_id=ch, sequence_counter=seq, raw_cemi=rec.now[1]))

        def expected():
            return box["dm"]._sequence.expected

        async def finish():
            box["dm"].stop()
    else:
        c = _Conn(gateway_ip=GW[0], gateway_port=GW[1], local_ip="192.168.1.1", route_back=route_back)
        c.got = rec.deliver
        gw = Gateway(c.transport, on_data=rec.frame)
        req_cls, ack_cls = DeviceConfigurationRequest, "DeviceConfigurationAck"

        async def connect(ch, first):
            gw.next_channel = ch
            if not first:
                if impl == "conn-usr":
                    await c.disconnect()
                else:
                    c.transport.inject(DisconnectRequest(communication_channel_id=c.communication_channel))
                    await loop.settle()
            await c.connect()
            assert c.communication_channel == ch
            rec.cur = [o for o in rec.cur if o[0] != "x"]

        def inject(ch, seq, i):
            rec.now = (i, payload(i, pl))
            c.transport.inject(req_cls(communication_channel_id=ch, sequence_counter=seq, raw_cemi=rec.now[1]))

        def expected():
            return c._device_management._sequence.expected

        async def finish():
            await c.disconnect()

    await connect(ch0, True)
    rec.take(ack_cls, 0)
    outs = []
    timing = timing if (timing and kind == "tunnel") else None
    dx = timing.get("dx", 0) if timing else 0
    if dx and impl not in ("tunnel-usr", "tunnel-hb", "tunnel-inv"):
        dx = 0      # only these reconnects have a disconnect exchange with the old channel still up
    n, held = 0, []
    while n < len(events):
        ev = events[n]
        if ev[0] == "c":
            if timing:
                post = []
                while len(post) < timing.get("burst", 0) and n + 1 + len(post) < len(events) \
                        and events[n + 1 + len(post)][0] == "r":
                    post.append(events[n + 1 + len(post)])
                res = await connect(int(ev[1:]), False, pre=held, post=post, lag=timing.get("lag", 0))
                outs.extend(res["pre"])
                outs.append(res["c"])
                outs.extend(res["post"])
                n += 1 + len(post)
                held = []
                continue
            await connect(int(ev[1:]), False)
            outs.append(rec.take(ack_cls, 0))
            n += 1
            continue
        if dx:
            # the last `dx` requests before a reconnect are held back and delivered during its disconnect exchange
            j = n
            while j < len(events) and events[j][0] == "r":
                j += 1
            if j < len(events) and j - n <= dx:
                held = events[n:j]
                n = j
                continue
        ch, seq, i = (int(x) for x in ev[1:].split(":"))
        inject(ch, seq, i)
        await loop.settle()
        outs.append(rec.take(ack_cls, seq))
        rec.now = None
        n += 1
    outs = [o for o in outs if o is not None]
    e = expected()
    await finish()
    return ",".join(outs) + f" e={e}"


def run_impl(case):
    _, _, kind, ch0, evs = case["op"].split(" ")
    impl = case.get("impl") or IMPLS[kind][0]
    return vloop.run(_run, kind, impl, int(ch0), evs.split(","), case.get("pl", "id"), case.get("timing"))


# ---------------------------------------------------------------------------
# oracle: the property text on the observed behaviour (independent of the Lean model)
# ---------------------------------------------------------------------------

def oracle(case, out):
    _, _, kind, ch0, evs = case["op"].split(" ")
    body, etok = out.rsplit(" ", 1)
    outs = body.split(",")
    evs = evs.split(",")
    if len(outs) != len(evs):
        return f"{len(evs)} events but {len(outs)} outcome records"
    chan, d = int(ch0), 0  # own channel; frames passed up on this connection
    for n, (ev, o) in enumerate(zip(evs, outs)):
        if ev[0] == "c":
            if o != "-":
                return f"event {n} ({ev}): a (re)connect acknowledged/delivered something: {o}"
            chan, d = int(ev[1:]), 0
            continue
        ch, seq, i = (int(x) for x in ev[1:].split(":"))
        if kind == "mgmt" and ch != chan:
            want = "-"
            why = f"request for channel {ch} on a connection with channel {chan} must be ignored"
        elif seq == d % 256:
            want = f"a{ch}:{seq}+d{seq}:{i}"
            why = f"counter {seq} is the expected one ({d} frames passed up so far): acknowledge with {seq}, pass up once"
            d += 1
        elif seq == (d - 1) % 256:
            want = f"a{ch}:{seq}"
            why = f"counter {seq} is one before the expected {d % 256}: acknowledge again, do not pass up"
        else:
            want = "-"
            why = f"counter {seq} is neither expected ({d % 256}) nor the one before: no acknowledgement, not passed up"
        got = "+".join(sorted(o.split("+"))) if o != "-" else "-"   # ACK/delivery order is not fixed by the property
        if got != want:
            return f"event {n} ({ev}): {why}; observed {o}"
    if etok != f"e={d % 256}":
        return f"after the history the handler expects {etok[2:]}, but {d} frames were passed up on this connection"
    return None


def nontrivial(case, out):
    return "d" in out and ",-" in "," + out.rsplit(" ", 1)[0]


def finding_key(case, msg):
    return (case["op"] + "|" + case.get("impl", "") + ("|" + case["pl"] if case.get("pl", "id") != "id" else "")
            + ("|" + json.dumps(case["timing"], sort_keys=True) if case.get("timing") else ""))


def shrink(case, msg):
    """Drop events while the oracle still fails."""
    pre, evs = case["op"].rsplit(" ", 1)
    evs = evs.split(",")

    def fails(es):
        if not es:
            return False
        c = dict(case, op=pre + " " + ",".join(es))
        try:
            m2 = oracle(c, run_impl(c))   # still failing, and still at an event if the original failure was at one
            return m2 is not None and m2.startswith("event") == str(msg).startswith("event")
        except Exception:  # noqa: BLE001
            return False
    i = 0
    while i < len(evs) and len(evs) > 1:
        cand = evs[:i] + evs[i + 1:]
        if fails(cand):
            evs = cand
        else:
            i += 1
    c = dict(case, op=pre + " " + ",".join(evs))
    c["violation_on_shrunk_input"] = oracle(c, run_impl(c))
    return c


# ---------------------------------------------------------------------------
# generators
# ---------------------------------------------------------------------------

class Hist:
    """Builds a history while tracking what a correct receiver expects (generator-side knowledge only)."""

    def __init__(self, ch0):
        self.ch, self.exp, self.evs, self.n = ch0, 0, [], 0

    def req(self, seq, ch=None):
        ch = self.ch if ch is None else ch
        self.n += 1
        self.evs.append(f"r{ch}:{seq % 256}:{self.n}")
        if ch == self.ch and seq % 256 == self.exp:
            self.exp = (self.exp + 1) % 256

    def rel(self, k, ch=None):
        self.req(self.exp + k, ch)

    def connect(self, ch):
        self.evs.append(f"c{ch}")
        self.ch, self.exp = ch, 0


def case(kind, impl, h, ch0, pl="id"):
    c = {"op": f"seqrecv run {kind} {ch0} {','.join(h.evs)}", "impl": impl}
    if pl != "id":
        c["pl"] = pl
    return c


def channel_stream(rng, h, n, p_loss, p_dup, p_swap, p_stray, foreign):
    """A server sending 0,1,2,… and repeating unacknowledged frames, through a faulty channel."""
    pending = []
    sent = 0
    server = h.exp
    while sent < n:
        if rng.random() < p_stray:
            pending.append(("abs", rng.choice([0, 1, 2, 127, 128, 253, 254, 255, rng.randrange(256)])))
        pending.append(("abs", server))
        r = rng.random()
        if r < p_loss:
            pending.pop()          # lost: the server repeats it once
            pending.append(("abs", server))
        elif r < p_loss + p_dup:
            pending.append(("abs", server))   # duplicated (ACK lost / network duplicate)
        server = (server + 1) % 256
        sent += 1
        if len(pending) >= 2 and rng.random() < p_swap:
            pending[-1], pending[-2] = pending[-2], pending[-1]
        while len(pending) > 2:
            _, s = pending.pop(0)
            h.req(s, foreign() if foreign and rng.random() < 0.05 else None)
    for _, s in pending:
        h.req(s)


def generate(rng, tier):
    thorough = tier == "thorough"
    # (1) exhaustive small: every sequence over counters relative to the expected one, both kinds, every impl
    rel = [0, -1, 1, -2, 128]
    maxlen = 5 if thorough else 4
    seqs = [list(t) for n in range(1, maxlen + 1) for t in itertools.product(rel, repeat=n)]
    for s in seqs:
        for kind in ("tunnel", "mgmt"):
            impls = IMPLS[kind] if thorough or len(s) == 3 else IMPLS[kind][:1]
            for impl in impls:
                h = Hist(3)
                for r in s:
                    h.rel(r)
                yield case(kind, impl, h, 3)
                if len(s) <= 3 and impl == impls[0]:   # payload axis on the exhaustive small histories
                    for pl in PL_MODES[1:]:
                        yield case(kind, impl, h, 3, pl)
    # (2) the same relative alphabet right before and across the wrap (255 delivered frames first), with a reconnect inside
    for kind in ("tunnel", "mgmt"):
        for impl in IMPLS[kind]:
            for s in [x for x in seqs if len(x) == 3][:: (1 if thorough else 5)]:
                h = Hist(200)
                for _ in range(254):
                    h.rel(0)
                for r in s:
                    h.rel(r)
                h.rel(0)
                h.rel(0)
                h.connect(201)
                for r in s:
                    h.rel(r)
                yield case(kind, impl, h, 200, PL_MODES[(len(h.evs) + sum(s)) % len(PL_MODES)])
    # (2b) round 2: >= 1 accepted frame, a reconnect of the SAME object, then 0,1,stale,2 on the new connection, a second
    #      reconnect, then stale-on-fresh,0,1 - every impl (incl. route_back and heartbeat-failure reconnects)
    for kind in ("tunnel", "mgmt"):
        for impl in IMPLS[kind]:
            for pre in ((1, 3, 255, 256, 300) if thorough else (1, 3, 256)):
                for same_ch in (False, True):
                    h = Hist(9)
                    for _ in range(pre):
                        h.rel(0)
                    h.connect(9 if same_ch else 10)
                    h.rel(0); h.rel(0); h.rel(-1); h.rel(0)
                    h.req(pre)        # what a receiver that did not reset would expect
                    h.req(pre - 1)
                    h.connect(11)
                    h.rel(-1); h.rel(0); h.rel(0)
                    for pl in (PL_MODES if thorough or pre == 3 else ("id", "mix", "empty")):
                        yield case(kind, impl, h, 9, pl)
    # (2c) round 4: timing of server frames around a reconnect of the same tunnel object: `burst` frames in the same
    #      datagram batch as the ConnectResponse (lag 0) or 1..3 loop callbacks later; `dx` frames of the old connection
    #      during the disconnect exchange (user / heartbeat / invalid-sequence reconnects)
    for impl in IMPLS["tunnel"]:
        for lag in (0, 1, 2, 3):
            for burst in ((1, 2, 4) if thorough or lag < 2 else (2,)):
                for dx in (0, 1, 2):
                    if dx and impl.partition("+")[0] == "tunnel-srv":
                        continue
                    h = Hist(9)
                    h.rel(0); h.rel(0); h.rel(-1); h.rel(0); h.rel(0)
                    h.connect(10)
                    h.rel(0); h.rel(0); h.rel(-1); h.rel(0); h.rel(5)
                    h.connect(10)
                    h.rel(-1); h.rel(0); h.rel(0)
                    c = case("tunnel", impl, h, 9, ("id", "mix")[(lag + burst + dx) % 2])
                    c["timing"] = {"burst": burst, "lag": lag, "dx": dx}
                    yield c
    # (3) faulty-channel streams, long enough to wrap, with reconnects and foreign channels
    n = 3000 if thorough else 80
    for j in range(n):
        kind = "mgmt" if j % 2 else "tunnel"
        impl = IMPLS[kind][(j // 2) % len(IMPLS[kind])]
        ch0 = rng.choice([0, 1, 7, 254, 255])
        h = Hist(ch0)
        for seg in range(rng.choice([1, 1, 2, 3])):
            if seg:
                h.connect(rng.choice([ch0, 0, 1, 255, rng.randrange(256)]))
            length = rng.choice([5, 40, 300, 600]) if j % 4 == 0 else rng.choice([5, 20, 60])
            channel_stream(rng, h, length, rng.choice([0, .1, .3]), rng.choice([0, .1, .3]),
                           rng.choice([0, .1, .3]), rng.choice([0, .05, .2]),
                           foreign=lambda: rng.choice([h.ch ^ 1, 0, 255, rng.randrange(256)]))
        yield case(kind, impl, h, ch0, rng.choice(PL_MODES + ["mix", "mix"]))
    # (4) malformed / adversarial stream: arbitrary counters and channels, boundary values
    m = 2000 if thorough else 60
    bd = [0, 1, 2, 127, 128, 253, 254, 255]
    for j in range(m):
        kind = "mgmt" if j % 2 else "tunnel"
        impl = IMPLS[kind][(j // 2) % len(IMPLS[kind])]
        ch0 = rng.randrange(256)
        h = Hist(ch0)
        for _ in range(rng.choice([1, 3, 10, 50, 300])):
            r = rng.random()
            if r < 0.05:
                h.connect(rng.choice([ch0, rng.randrange(256)]))
            elif r < 0.45:
                h.rel(rng.choice([0, 0, 0, -1, 1, -2, 2]))
            elif r < 0.75:
                h.req(rng.choice(bd))
            elif r < 0.9:
                h.req(rng.randrange(256))
            else:
                h.req(rng.choice([h.exp, h.exp - 1, rng.randrange(256)]), rng.choice([h.ch ^ 1, (h.ch + 1) % 256, 0, 255]))
        yield case(kind, impl, h, ch0, rng.choice(PL_MODES + ["mix", "mix"]))


_old_disable = None


def setup():
    global _old_disable
    _old_disable = logging.root.manager.disable
    logging.disable(logging.CRITICAL)


def teardown():
    logging.disable(_old_disable or 0)
