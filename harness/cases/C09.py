"""C09 Numeric datapoints encode every in-range value within one resolution step.

One case = one DPTNumeric class x one block of values (ints as a range, or a list of
canonical ints / float bit patterns).  Per value v:  to_knx(v) -> p -> from_knx(p) -> v'.
Outcome per value: `p>v'` | `conv` | `other:<Exception>`; the Lean model must
reproduce the line exactly.

Oracle (the property, on the implementation only; exact rational arithmetic):
  * value_min <= v <= value_max  =>  accepted, payload is a DPTArray of payload_length octets,
    decodes, and |v' - v| < step(v)
  * v more than one step outside the declared range  =>  ConversionError
  * v less than one step outside: either of the two (a value within one step of a bound may be
    rounded onto the bound; it must not be wrapped: v' has to lie inside the declared range)
  * never any other exception;
  * nan (unordered) and, for the IEEE binary32 codec of DPT 14, +-inf are special values, not numbers of the range:
    they may be accepted (then they must decode to themselves) or refused with a conversion error.
step(v): the declared `resolution` for the integer / fixed-point types; for DPT 5.001/5.003 the true raw
step (value_max-value_min)/255 when that is coarser than the declared resolution; for DPT 9 the step
0.01*2^e of the exponent band v falls in; for DPT 14 one unit in the 7th significant digit (the decoder
rounds to 7 digits) or the binary32 ulp, whichever is larger.
"""
import math
import struct
from fractions import Fraction

from harness import dptlib as D
from xknx.dpt.payload import DPTArray

PROPERTY = "C09"
MODULES = ["XknxVerif.Props.C09"]
DRIVE_PROCS = 8
CASE_TIMEOUT = 30.0
RULE = ("every DPTNumeric class x {all integers of the declared range +-3 steps when the range spans <= 70000 (quick) / <= 7.1e6 "
        "(thorough; for DPT 9 once per distinct declared range); else boundaries, powers of two, multiples of the resolution +-1 and "
        "random integers} + floats: uniform in range, k*res +- ulp, (k+1/2)*res +- ulp, range bounds +- ulp / +- res/2 / +- res, "
        "DPT 9 exponent-band edges, binary32 neighbours for DPT 14, far outside values, +-inf, nan; one case = one class x one value "
        "block; non-trivial = blocks with at least one accepted value")
TRUSTED = ["model XknxVerif.Model.DPT.* is hand-written and parameterised by Generated/DPTTable.lean (value_min/value_max/resolution "
           "regenerated from the classes); float arithmetic mirrored by XknxVerif.Py.SoftFloat, validated bit-exactly by this run",
           "the oracle's reading of 'one resolution step of the nearest representable value' is stated in harness/cases/C09.py"]

_stats = {"values": 0, "accepted": 0, "classes": set()}
NUM_CLASSES = [c for c in D.CLASSES if D.is_numeric(c)]


# ---------------------------------------------------------------------------
# step / oracle
# ---------------------------------------------------------------------------

def dec_frac(x):
    """Declared constant as the decimal the source text states (0.01 -> 1/100)."""
    if isinstance(x, int):
        return Fraction(x)
    return Fraction(repr(x))


def f16_step(v):
    """0.01 * 2^e for the smallest exponent e whose mantissa range holds v*100."""
    x = Fraction(v) * 100
    e = 0
    while e < 15 and not (-2048 * (1 << e) <= x <= 2047 * (1 << e)):
        e += 1
    return Fraction(1 << e, 100)


def f32_step(v):
    a = abs(Fraction(v))
    if a == 0:
        return Fraction(1, 1 << 149)
    n, d = a.numerator, a.denominator
    e = n.bit_length() - d.bit_length()
    while Fraction(2) ** e > a:
        e -= 1
    while Fraction(2) ** (e + 1) <= a:
        e += 1
    ulp = Fraction(2) ** (max(e, -126) - 23)
    dd = 0  # smallest dd with a <= 10^dd
    while Fraction(10) ** dd < a:
        dd += 1
    while Fraction(10) ** (dd - 1) >= a:
        dd -= 1
    return max(ulp, Fraction(10) ** (dd - 7))


def step_at(cls, fam, v):
    if fam == "f16":
        return f16_step(v)
    if fam == "f32":
        return f32_step(v)
    res = dec_frac(cls.resolution)
    if fam == "scaling":
        return max(res, Fraction(cls.value_max - cls.value_min, 255))
    return res


def _fast_step(cls, fam, v):
    """Float approximation of step_at, never larger than the exact step (used only to accept quickly)."""
    if fam == "f16":
        x = abs(v * 100.0) * (1 - 1e-9)
        e = 0
        while e < 15 and x > 2047 * (1 << e):
            e += 1
        return (1 << e) / 100
    if fam == "f32":
        a = abs(v)
        if a == 0 or a > 3.5e38:
            return 0.0
        ulp = math.ldexp(1.0, max(math.frexp(a)[1] - 1, -126) - 23)
        dec = 10.0 ** (math.floor(math.log10(a) - 1e-9) + 1 - 7)
        return max(ulp, dec)
    res = float(cls.resolution)
    if fam == "scaling":
        return max(res, (cls.value_max - cls.value_min) / 255)
    return res


def verdict(cls, fam, v, st, p, st2, v2):
    """None or violation text."""
    # fast path: clearly fine (in range, right shape, decoded value in range and well within one step);
    # everything else goes through the exact rational check below
    if st == "ok" and st2 == "ok" and v == v and v2 == v2:
        lo, hi = cls.value_min, cls.value_max
        if lo <= v <= hi and lo <= v2 <= hi and type(p) is DPTArray and len(p.value) == cls.payload_length:
            d = abs(v2 - v)
            if isinstance(d, int):
                if d < cls.resolution and all(type(b) is int and 0 <= b <= 255 for b in p.value):
                    return None
            elif d < 0.99 * _fast_step(cls, fam, v) and all(type(b) is int and 0 <= b <= 255 for b in p.value):
                return None
    if st.startswith("other:"):
        return f"to_knx({v!r}) raised {st[6:]} (not a conversion error)"
    if st == "parse":
        return f"to_knx({v!r}) raised CouldNotParseTelegram"
    lo, hi = cls.value_min, cls.value_max
    if isinstance(v, float) and v != v:
        if st == "ok" and st2 not in ("ok",):
            return f"to_knx(nan) produced {D.payload_canon(p)} which from_knx refuses ({st2})"
        return None
    inside = lo <= v <= hi
    if isinstance(v, float) and math.isinf(v):
        if fam == "f32":
            # IEEE special values are transported as such by the binary32 codec (pinned by the repo's tests); they are
            # not numbers of the range.  Accepted => must come back as the same infinity; refused => conversion error.
            if st == "ok" and (st2 != "ok" or v2 != v):
                return f"{v!r} encodes to {D.payload_canon(p)} which decodes to {v2!r} ({st2})"
            return None
        if inside:
            if st != "ok":
                return f"{v!r} lies in the declared range [{lo}, {hi}] but is refused"
            if st2 != "ok" or v2 != v:
                return f"{v!r} encodes to {D.payload_canon(p)} which decodes to {v2!r} ({st2})"
            return None
        if st == "ok":
            return f"{v!r} is outside the declared range [{lo}, {hi}] but is accepted as {D.payload_canon(p)}"
        return None
    fv = Fraction(v)
    step = step_at(cls, fam, fv)
    far = (not math.isinf(lo) and fv < Fraction(lo) - step) or (not math.isinf(hi) and fv > Fraction(hi) + step)
    if st == "conv":
        if inside:
            return f"{v!r} lies in the declared range [{lo}, {hi}] but is refused with a conversion error"
        return None
    # accepted
    if far:
        return f"{v!r} is more than one step outside the declared range [{lo}, {hi}] but is accepted as {D.payload_canon(p)}"
    if not isinstance(p, DPTArray) or len(p.value) != cls.payload_length or not all(isinstance(b, int) and 0 <= b <= 255 for b in p.value):
        return f"{v!r} encodes to {D.payload_canon(p)}, not a DPTArray of {cls.payload_length} octets"
    if st2 != "ok":
        return f"{v!r} encodes to {D.payload_canon(p)} which from_knx refuses ({st2})"
    if isinstance(v2, float) and (v2 != v2 or math.isinf(v2)):
        return f"{v!r} encodes to {D.payload_canon(p)} which decodes to {v2!r}"
    if not (lo <= v2 <= hi):
        return f"{v!r} encodes to {D.payload_canon(p)} which decodes to {v2!r}, outside the declared range [{lo}, {hi}]"
    if not abs(Fraction(v2) - fv) < step:
        return f"{v!r} encodes to {D.payload_canon(p)} which decodes to {v2!r}: off by {float(abs(Fraction(v2) - fv))!r}, step is {float(step)!r}"
    return None


# ---------------------------------------------------------------------------
# values
# ---------------------------------------------------------------------------

def vtok(v):
    return f"i{v}" if isinstance(v, int) else D.fbits(v)


def untok(t):
    return int(t[1:]) if t[0] == "i" else D.unfbits(t)


def expand_values(spec):
    if spec[0] == "I":
        lo, hi = spec[1:].split(":")
        yield from range(int(lo), int(hi) + 1)
    else:
        for t in spec[1:].split(","):
            yield untok(t)


def _ulps(x):
    return [math.nextafter(x, -math.inf), x, math.nextafter(x, math.inf)]


def float_values(cls, fam, rng, n):
    lo, hi = cls.value_min, cls.value_max
    res = float(cls.resolution)
    out = [0.0, -0.0, 5e-324, 1e-9, -1e-9, 0.5, -0.5, 0.49999999999999994, 1.5, 2.5, math.inf, -math.inf, math.nan,
           1e10, -1e10, 1e20, -1e20, 3.4028234663852886e38, -3.4028234663852886e38, 3.4028235677973366e38, 3.402823669209385e38,
           1e39, -1e39, 1.7976931348623157e308, -1.7976931348623157e308, float(2**31), float(2**32), float(2**63), float(2**64),
           -float(2**31) - 1.0, -float(2**63)]
    flo = -3.4e38 if math.isinf(lo) else float(lo)
    fhi = 3.4e38 if math.isinf(hi) else float(hi)
    for b in (flo, fhi):
        out += _ulps(b)
        for k in (0.25, 0.5, 0.75, 1.0, 1.5, 2.0):
            st = res if fam not in ("f16", "f32") else float(step_at(cls, fam, Fraction(b)))
            out += [b - k * st, b + k * st]
    if fam == "f32":
        for _ in range(n):
            bits = rng.getrandbits(32)
            f = struct.unpack(">f", struct.pack(">I", bits))[0]
            if f != f or math.isinf(f):
                continue
            out += [f, math.nextafter(f, math.inf), math.nextafter(f, -math.inf)]
            out.append(f * (1 + rng.uniform(-6e-8, 6e-8)))
        for _ in range(n // 2):
            out.append(rng.choice((-1, 1)) * 10 ** rng.uniform(-46, 38.5))
            d = rng.randrange(-44, 39)
            out += _ulps(float(f"1e{d}")) + [float(f"9.9999995e{d}"), float(f"9.9999994e{d}"), float(f"1.00000005e{d}")]
    else:
        for _ in range(n):
            out.append(rng.uniform(flo, fhi))
        span = fhi - flo
        for _ in range(n):
            if fam == "f16":
                e = rng.randrange(16)
                m = rng.randrange(-2048, 2048)
                base = m * (1 << e) / 100
                st = (1 << e) / 100
            else:
                k = rng.randrange(int(flo / res) if res else 0, int(fhi / res) + 1) if span / res < 1e17 else 0
                base, st = k * res, res
            out += _ulps(base)
            out += _ulps(base + st / 2)
            out.append(base + rng.uniform(0, st))
        if fam == "f16":
            for e in range(16):
                for mm in (2046.5, 2047, 2047.25, 2047.49, 2047.5, 2047.51, 2048, 2048.5, -2047.5, -2048, -2048.49, -2048.5, -2048.51, -2049):
                    out += _ulps(mm * (1 << e) / 100)
    return out


def int_values(cls, fam, rng, tier, full_f16):
    """-> list of specs"""
    lo, hi = cls.value_min, cls.value_max
    res = cls.resolution
    ires = max(1, math.ceil(res))
    specs = []
    if math.isinf(lo) or math.isinf(hi):
        ilo, ihi = -(2**130), 2**130
        span = None
    else:
        ilo, ihi = math.floor(lo), math.ceil(hi)
        span = ihi - ilo
    limit = 70000 if tier == "quick" else 7_100_000
    if span is not None and span <= limit and (fam != "f16" or full_f16):
        a, b = ilo - 3 * ires, ihi + 3 * ires
        blk = 2048
        for x in range(a, b + 1, blk):
            specs.append(f"I{x}:{min(b, x + blk - 1)}")
        return specs
    vals = set()
    for b in (ilo, ihi):
        for d in range(-3 * ires, 3 * ires + 1):
            vals.add(b + d)
        for k in (1, 2, 3):
            vals.add(b + k * ires)
            vals.add(b - k * ires)
    for d in range(-300, 301):
        vals.add(d)
    for e in range(0, 131):
        for d in (-1, 0, 1):
            vals.add(2**e + d)
            vals.add(-(2**e) + d)
    n = 3000 if tier == "quick" else 30000
    for _ in range(n):
        x = rng.randrange(ilo, ihi + 1)
        vals.add(x)
        if ires > 1:
            k = x // ires * ires
            vals.update((k - 1, k, k + 1))
    for d in (10**30, 10**40, -10**30, -10**40, 2**1024, -2**1024):
        vals.add(d)
    vals = sorted(vals)
    for i in range(0, len(vals), 1024):
        specs.append("V" + ",".join(vtok(v) for v in vals[i:i + 1024]))
    return specs


def generate(rng, tier):
    seen_f16 = set()
    for cls in NUM_CLASSES:
        name, fam = cls.__name__, D.FAM[cls.__name__]
        key = (cls.value_min, cls.value_max)
        full_f16 = tier == "thorough" and fam == "f16" and key not in seen_f16
        seen_f16.add(key)
        for spec in int_values(cls, fam, rng, tier, full_f16):
            yield {"op": f"dpt enc {name} {spec}"}
        n = 150 if tier == "quick" else 1500
        fl = float_values(cls, fam, rng, n)
        for i in range(0, len(fl), 512):
            yield {"op": f"dpt enc {name} V" + ",".join(vtok(v) for v in fl[i:i + 512])}


# ---------------------------------------------------------------------------
# implementation
# ---------------------------------------------------------------------------

def run_impl(case):
    _, _op, name, spec = case["op"].split(" ")
    cls = D.BY_NAME[name]
    fam = D.FAM[name]
    toks, first = [], None
    for v in expand_values(spec):
        st, p = D.encode(cls, v)
        st2, v2 = (None, None)
        if st == "ok":
            _stats["accepted"] += 1
            st2, v2 = D.decode(cls, p)
            tok = f"{D.payload_canon(p, fam == 'f32')}>{D.canon(v2) if st2 == 'ok' else st2}"
        else:
            tok = st
        toks.append(tok)
        if first is None:
            bad = verdict(cls, fam, v, st, p, st2, v2)
            if bad:
                first = (vtok(v), bad)
    _stats["values"] += len(toks)
    _stats["classes"].add(name)
    r = D.rle(toks)
    if first:
        return {"out": f"{r} !{first[0]} !{first[1]}", "expect": r}
    return {"out": r, "expect": r}


def oracle(case, out):
    if " !" in out:
        _, first, why = out.split(" !", 2)
        name = case["op"].split(" ")[2]
        return f"{name}: value {first}: {why}"
    return None


def nontrivial(case, out):
    return ">" in out.split(" !")[0]


def shrink(case, msg):
    res = run_impl(case)
    if " !" in res["out"]:
        first = res["out"].split(" !")[1]
        parts = case["op"].split(" ")
        return {"op": " ".join(parts[:3] + ["V" + first])}
    return case


def finding_key(case, msg):
    parts = case["op"].split(" ")
    return f"{parts[1]} {parts[2]}"


def outcome_class(out):
    if " !" in out:
        return "violation"
    return "accepted" if ">" in out else "all-refused"


def evidence_extra():
    unm = sorted({f"{c.__name__}:{D.FAM[c.__name__]}" for c in NUM_CLASSES if D.FAM[c.__name__].startswith("unmodelled")})
    return {"value_evaluations": _stats["values"], "values_accepted": _stats["accepted"],
            "classes_covered": len(_stats["classes"]), "classes_total": len(NUM_CLASSES), "unmodelled_classes": unm}
