"""C05 Decoded application PDUs re-encode to the same octets (reserved bits aside)."""
from __future__ import annotations

from harness import apci_lib as L
from harness import apci_streams as S

PROPERTY = "C05"
MODULES = ["XknxVerif.Props.C05"]
CASE_TIMEOUT = 5.0
RULE = ("same input space as C04 (all byte strings of length 0..2; every APCI code x lengths x fillers; well-formed frames "
        "of every class with reserved/transport bits set and mutated; thorough: all 2^24 three-octet APDUs). For every accepted "
        "input: obj.to_knx() must have the input's length, equal it outside the per-service reserved-bit mask (Python-side table "
        "written from the KNX specifications, harness/apci_lib.py SPEC_RESERVED), calculated_length() == len-1, and decode to a "
        "field-wise equal object; the Lean model's re-encoding and its derived mask ('apci mask') are compared with both. "
        "Non-trivial = distinct accepted input (decodes to an object).")
TRUSTED = ["model XknxVerif.Model.APCI.* is hand-written (layout table + generic interpreter); tied by this differential run",
           "the reserved-bit table SPEC_RESERVED was written from the field descriptions quoted in xknx's docstrings and the KNX "
           "Application Layer / Logical Tag Extended layouts; the 6 bit field of 4 bit services without payload is treated as unused",
           "harness/apci_lib.py canonicalisation of service objects (field-wise structural equality, no __eq__)"]

RECOGNISED = None
_STASH = {}


def setup():
    S.setup()


def teardown():
    S.teardown()


def generate(rng, tier):
    yield from S.decode_stream(rng, tier, "C05")


def run_impl(case):
    out = S.run_decode_case(case, "C05")
    t = case["op"].split()
    _STASH.clear()
    if t[1] == "dec":
        _STASH[case["op"]] = oracle_one(bytes.fromhex(t[2].replace("-", "")), out)
    return out


def oracle(case, out):
    um = L.unmodelled_classes()
    if um:
        return f"service classes with field types the harness does not model: {um}"
    if case["op"].startswith("apci sweep"):
        return S.SWEEP_ORACLE.pop(case["op"], None)
    return _STASH.get(case["op"])


def oracle_one(raw, out):
    if out == "other:SharedMutableState":
        return (f"APDU {raw.hex()}: decoding the same octets again after the first result was modified gives a different object "
                "(decoded objects share mutable state), so the decoded PDU does not re-encode to the received octets")
    if not out.startswith("ok "):
        return None
    body, cls, enc, cl = L.split_dec(out)
    if enc == "refused":
        return None  # "whenever it can be encoded again"
    r = bytes.fromhex(enc[1:])
    if len(r) != len(raw):
        return f"{raw.hex()} decodes to {body}, which encodes to {r.hex()}: length {len(r)} != {len(raw)}"
    mask = L.spec_mask(cls, raw)
    for i, (a, b, m) in enumerate(zip(raw, r, mask)):
        if (a ^ b) & ~m & 0xFF:
            return (f"{raw.hex()} decodes to {body}, which encodes to {r.hex()}: octet {i} differs in non-reserved bits "
                    f"{(a ^ b) & ~m & 0xFF:#04x}")
    if cl != str(len(r) - 1):
        return f"{body}: calculated_length() = {cl} but to_knx() has {len(r)} octets"
    out2 = L.dec_outcome(r)
    if not out2.startswith("ok ") or L.split_dec(out2)[0] != body:
        return f"{raw.hex()} decodes to {body}; re-encoded {r.hex()} decodes to {out2[:200]}"
    return None


def nontrivial(case, out):
    return out.startswith("ok ") or case["op"].startswith("apci sweep")


def outcome_class(out):
    if out.startswith("ok "):
        return "ok:" + out.split(" ")[1] + (":refused" if out.endswith("refused -") or " => refused " in out else "")
    return out.split(" ")[0][:12]


def shrink(case, msg):
    return S.shrink_decode(case, msg, oracle_one)


def evidence_extra():
    return S.evidence_extra()
