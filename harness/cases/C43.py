"""C43 Point-to-point management connections follow the transport-layer protocol (mode R, virtual time).

A case is a script of user operations and injected transport frames:

    o A          await management.connect(A)            (A in 1,2 = connection peers; 3 = never connected)
    c A          await management.disconnect(A)         (skipped while a request on A is in flight)
    q A K        start `conn.request(K)` as a task      (K: D DeviceDescriptorRead, M MemoryRead, R Restart (no RESPONSE_TYPE))
    i A F        management.process(frame F from A)     (F: C, X, A<n>, N<n>, D<n>.<apdu>, B, I)
    y            one `await asyncio.sleep(0)`
    s            settle (run until nothing is runnable at this instant)
    w <ticks>    sleep <ticks> * 2**-20 s of virtual time

All virtual instants are exact multiples of 2**-20 s ("ticks") so that ties between the harness and the
timeouts of the code are real ties.  The recorded trace (inputs with the anchored pre-state, telegrams sent,
request outcomes) is projected per connection peer and replayed through the Lean monitor `XknxVerif.P2P`.
"""
from __future__ import annotations

import asyncio
import logging

from harness import vloop

from xknx import XKNX
from xknx.exceptions import (
    ManagementConnectionError,
    ManagementConnectionRefused,
    ManagementConnectionTimeout,
)
from xknx.management import management as mgmt
from xknx.telegram import GroupAddress, IndividualAddress, Telegram, TelegramDirection, apci, tpci

PROPERTY = "C43"
CASE_TIMEOUT = 10.0
RULE = ("scripts of <=~80 steps: 1-2 management connections, 1-20 sequential requests each, and injected transport frames "
        "(T_ACK/T_NAK with every number, duplicated / out-of-order / foreign-source / non-connection-oriented data, "
        "T_Connect, T_Disconnect at every position, wrap 15->0) separated by nothing / one loop iteration / settle / "
        "exact waits around the ACK and connection timeouts; families: clean exchanges with one perturbation each, "
        "disconnect-at-every-position, every ACK number at send numbers 0 and 15, timing boundaries (+-1 tick), random soup. "
        "non-trivial = the trace contains at least one request that reached the bus and one received frame")
TRUSTED = ["monitor XknxVerif.Model.P2P is hand-written; timeouts regenerated from xknx.management.management each run",
           "harness/vloop.py virtual-time loop; the stub cEMI handler records telegrams and never fails or suspends",
           "per-peer projection of the trace is done by the harness (Management's dispatch by source address is checked "
           "only through the projections being accepted)",
           "pre-state (_connected, _expected_sequence_number, presence in Management._connections) is read from the real objects"]
ASSUMPTIONS = ["requests on one connection are sequential and the user does not close a connection with a request in flight",
               "cemi_handler.send_telegram succeeds (send failures are outside the property's quantifier)"]

TICK = 2.0 ** -20
ACK = round(mgmt.MANAGAMENT_ACK_TIMEOUT / TICK)
CONN = round(mgmt.MANAGAMENT_CONNECTION_TIMEOUT / TICK)
ADDR = {1: IndividualAddress("1.1.1"), 2: IndividualAddress("1.1.2"), 3: IndividualAddress("1.1.3")}
RADDR = {v: k for k, v in ADDR.items()}

REQ = {"D": (lambda: apci.DeviceDescriptorRead(descriptor=0), 1, 1),
       "M": (lambda: apci.MemoryRead(address=0x60, count=1), 2, 2),
       "R": (lambda: apci.Restart(), 9, 0)}
RESP = {1: lambda: apci.DeviceDescriptorResponse(), 2: lambda: apci.MemoryResponse(address=0x60, data=b"\x01"),
        3: lambda: apci.AuthorizeResponse(level=1)}
APDU_CODE = {type(None): 0, apci.DeviceDescriptorResponse: 1, apci.MemoryResponse: 2, apci.AuthorizeResponse: 3,
             apci.DeviceDescriptorRead: 1, apci.MemoryRead: 2, apci.Restart: 9, apci.IndividualAddressResponse: 4}


def apdu_code(payload):
    return APDU_CODE.get(type(payload), 99)


class Stub:
    """Replacement for xknx.cemi_handler: records what is sent."""

    def __init__(self, rec):
        self.rec = rec

    async def send_telegram(self, telegram):
        self.rec.sent(telegram)


class Rec:
    def __init__(self, loop):
        self.loop = loop
        self.t0 = loop.time()
        self.ev = []
        self.user_op = False

    def now(self):
        x = (self.loop.time() - self.t0) / TICK
        r = round(x)
        if abs(x - r) > 1e-6:
            raise RuntimeError(f"virtual instant not on the tick grid: {x}")
        return r

    def log(self, *f):
        self.ev.append(":".join(str(x) for x in f))

    def sent(self, tg):
        a = RADDR.get(tg.destination_address, 0)
        t = tg.tpci
        if isinstance(t, tpci.TConnect):
            self.log("uc", self.now(), a)
        elif isinstance(t, tpci.TDisconnect):
            self.log("ux" if self.user_op else "x", self.now(), a)
        elif isinstance(t, tpci.TAck):
            self.log("a", self.now(), a, t.sequence_number)
        elif isinstance(t, tpci.TDataConnected):
            self.log("d", self.now(), a, t.sequence_number, apdu_code(tg.payload))
        else:
            self.log("z", self.now(), a, type(t).__name__)


def build_frame(a, f):
    src = ADDR[a]
    dst = IndividualAddress(0)
    payload = None
    if f == "C":
        t = tpci.TConnect()
    elif f == "X":
        t = tpci.TDisconnect()
    elif f[0] == "A":
        t = tpci.TAck(int(f[1:]))
    elif f[0] == "N":
        t = tpci.TNak(int(f[1:]))
    elif f[0] == "D":
        n, code = f[1:].split(".")
        t = tpci.TDataConnected(int(n))
        payload = RESP[int(code)]()
    elif f == "B":
        t = tpci.TDataBroadcast()
        dst = GroupAddress("0/0/0")
        payload = apci.IndividualAddressResponse()
    elif f == "I":
        t = tpci.TDataIndividual()
        payload = apci.DeviceDescriptorResponse()
    else:
        raise ValueError(f)
    return Telegram(destination_address=dst, source_address=src, direction=TelegramDirection.INCOMING, tpci=t, payload=payload)


def classify(exc):
    if isinstance(exc, ManagementConnectionRefused):
        return "ref"
    if isinstance(exc, ManagementConnectionTimeout):
        return "to"
    if isinstance(exc, ManagementConnectionError):
        return "err"
    return "other-" + type(exc).__name__


async def scenario(loop, case):
    rec = Rec(loop)
    xknx = XKNX()
    xknx.cemi_handler = Stub(rec)
    rate = int(case.get("rate", 0))
    conns, tasks, frames = {}, {}, {}
    keep = []

    async def do_req(a, kind):
        mk, code, exp = REQ[kind]
        rec.log("q", rec.now(), a, code, exp)
        try:
            r = await conns[a].request(mk())
        except asyncio.CancelledError:
            rec.log("r", rec.now(), a, "other-CancelledError")
            raise
        except Exception as e:  # noqa: BLE001
            rec.log("r", rec.now(), a, classify(e))
        else:
            fid = frames.get(id(r), -1)
            rec.log("r", rec.now(), a, "ok", fid, getattr(r.tpci, "sequence_number", -1), apdu_code(r.payload))

    def busy(a):
        return a in tasks and not tasks[a].done()

    for fid, step in enumerate(case["steps"]):
        op = step.split()
        k = op[0]
        if k == "y":
            await asyncio.sleep(0)
        elif k == "s":
            await loop.settle()
        elif k == "w":
            await asyncio.sleep(int(op[1]) * TICK)
        elif k == "o":
            a = int(op[1])
            if busy(a):
                continue
            rec.user_op = True
            try:
                conns[a] = await xknx.management.connect(ADDR[a], rate)
                rec.log("o", rec.now(), a, 1)
            except ManagementConnectionError:
                rec.log("o", rec.now(), a, 0)
            finally:
                rec.user_op = False
        elif k == "c":
            a = int(op[1])
            if busy(a):
                continue
            rec.user_op = True
            try:
                had = ADDR[a] in xknx.management._connections
                await xknx.management.disconnect(ADDR[a])
                rec.log("c", rec.now(), a, 0 if had else 2)
            except ManagementConnectionRefused:
                rec.log("c", rec.now(), a, 1)
            finally:
                rec.user_op = False
        elif k == "q":
            a = int(op[1])
            if a not in conns or busy(a) or xknx.management._connections.get(ADDR[a]) is not conns[a]:
                continue
            tasks[a] = asyncio.create_task(do_req(a, op[2]))
        elif k == "i":
            a = int(op[1])
            tg = build_frame(a, op[2])
            keep.append(tg)
            frames[id(tg)] = fid
            conn = xknx.management._connections.get(ADDR[a])
            pre = (1, int(conn._connected), conn._expected_sequence_number) if conn is not None else (0, 0, 0)
            raised = ""
            try:
                xknx.management.process(tg)
            except Exception as e:  # noqa: BLE001
                raised = ":" + type(e).__name__
            conn2 = xknx.management._connections.get(ADDR[a])
            post = conn2._expected_sequence_number if conn2 is not None and conn2 is conn else pre[2]
            rec.log("i", rec.now(), a, fid, op[2], *pre, post)     # anchored state before, and the expected number after
            if raised:
                rec.ev[-1] += raised
        else:
            raise ValueError(step)
    await loop.settle()
    if any(not t.done() for t in tasks.values()):
        await asyncio.sleep(64.0)
        await loop.settle()
    rec.log("f", rec.now())
    rec.unfinished = [a for a, t in tasks.items() if not t.done()]
    for t in tasks.values():
        if not t.done():
            t.cancel()
    return rec


def project(events, peer):
    """Events of one connection peer (renamed 0) plus those of addresses that are no connection peer in this case."""
    out = []
    for e in events:
        f = e.split(":")
        if f[0] in ("f", "unfinished"):
            out.append(e)
            continue
        a = int(f[2])
        if a == peer:
            f[2] = "0"
        elif a in (1, 2):
            continue
        if f[0] in ("uc", "ux", "z") or (a != peer and f[0] not in ("i", "a", "x")):
            continue
        if f[0] == "i":
            f = f[:8] + f[9:]       # the monitor gets the pre-state only
        out.append(":".join(f))
    return out


def run_impl(case):
    logging.getLogger("xknx").setLevel(logging.CRITICAL)
    logging.getLogger("asyncio").setLevel(logging.CRITICAL)
    rec = vloop.run(scenario, case, patch_clock=True, epoch=0.0)
    events = rec.ev
    if rec.unfinished:
        events = [*events, "unfinished:" + ",".join(map(str, rec.unfinished))]
    rate = int(case.get("rate", 0))
    rate_ticks = round((1 / rate) / TICK) if rate else 0
    peers = sorted({int(e.split(":")[2]) for e in events if e[0] in "ocq" and e[1] == ":"} & {1, 2}) or [1]
    segs = " | ".join(" ".join(project(events, p)) for p in peers)
    return {"out": " ".join(events), "line": f"p2p monitor {rate_ticks} {segs}", "expect": "accept"}


# --------------------------------------------------------------------------------------------------
# Oracle: the property restated on the recorded behaviour (independent of the Lean monitor)
# --------------------------------------------------------------------------------------------------

KNOWN_ACK = "ack-without-connection"


def oracle(case, out):
    msgs = check_trace(case, out)
    if not msgs:
        return None
    strong = [m for m in msgs if not m.startswith(KNOWN_ACK)]
    return (strong or msgs)[0]


def check_trace(case, out):
    rate = int(case.get("rate", 0))
    rate_ticks = round((1 / rate) / TICK) if rate else 0
    bound = rate_ticks + 2 * ACK + CONN
    msgs = []
    ev = [e.split(":") for e in out.split()]
    rx = {}          # fid -> (addr, frame, hasconn, connected, exp, epoch)
    epoch = {1: 0, 2: 0, 3: 0}   # connection lifetime counter per address
    is_open = {1: False, 2: False, 3: False}
    returned = set()
    pend = {}        # addr -> (t0, expect)
    sent = {}        # (addr, epoch) -> list of (n, apdu, request index)
    reqno = {1: 0, 2: 0, 3: 0}
    exp_seen = {}
    stored = {}      # (addr, epoch) -> step of the in-sequence response waiting for a request
    cur = {}         # addr -> transmissions and received frames of the request in flight
    due_ack, got_ack, due_disc, got_disc = [], [], [], []
    for f in ev:
        k = f[0]
        if k == "unfinished":
            msgs.append(f"request on connection {f[1]} never finished")
            continue
        t = int(f[1])
        if k == "f":
            continue
        a = int(f[2])
        if k == "o" and f[3] == "1":
            epoch[a] += 1
            is_open[a] = True
        elif k == "c":
            is_open[a] = False
        elif k == "i":
            fid, frame, hc, cn, exp, pexp = int(f[3]), f[4], int(f[5]), int(f[6]), int(f[7]), int(f[8])
            if len(f) > 9:
                msgs.append(f"process() raised {f[9]} on frame {frame} from {a} (step {fid})")
            if hc and frame[0] == "D" and pexp != exp:
                # the connection took this frame as the next in-sequence response: it waits for the request that uses it
                if pexp != (exp + 1) % 16 or int(frame[1:].split(".")[0]) != exp:
                    msgs.append(f"expected number moved from {exp} to {pexp} on frame {frame} (step {fid})")
                stored[(a, epoch[a])] = fid
            elif hc and pexp != exp:
                msgs.append(f"expected number moved from {exp} to {pexp} on the non-data frame {frame} (step {fid})")
            if hc and a in cur:
                cur[a]["rx"].append((t, frame))
            rx[fid] = (a, frame, hc, cn, exp, epoch[a])
            if hc:
                # the anchored expected number is a modulo-16 counter of in-sequence data frames
                last = exp_seen.get((a, epoch[a]))
                if last is None:
                    if exp != 0:
                        msgs.append(f"expected number of a new connection to {a} is {exp}, not 0")
                else:
                    d = (exp - last[0]) % 16
                    if d not in ((0, 1) if last[1] else (0,)):
                        msgs.append(f"expected number of connection {a} went from {last[0]} to {exp} (step {fid})")
                exp_seen[(a, epoch[a])] = (exp, frame[0] == "D" and int(frame[1:].split(".")[0]) == exp)
            if frame[0] == "D":
                n = int(frame[1:].split(".")[0])
                if hc and cn and n in (exp, (exp - 1) % 16):
                    due_ack.append((a, n))
                elif not hc:
                    due_ack.append((a, n, "noconn"))
            if frame == "C" and not hc:
                due_disc.append(a)
        elif k == "a":
            got_ack.append((a, int(f[3])))
        elif k == "x":
            got_disc.append(a)
        elif k == "q":
            pend[a] = (t, int(f[4]))
            reqno[a] += 1
            cur[a] = {"tx": [], "rx": []}
        elif k == "d":
            sent.setdefault((a, epoch[a]), []).append((int(f[3]), int(f[4]), reqno[a]))
            if a in cur:
                cur[a]["tx"].append((t, int(f[3]), len(cur[a]["rx"])))
        elif k == "r":
            if a not in pend:
                msgs.append(f"result without request on {a}")
                continue
            t0, expect = pend.pop(a)
            kind = f[3]
            acked = ack_decided(cur.pop(a, None))
            key = (a, epoch[a])
            if kind == "err" and acked:
                stored.pop(key, None)       # acknowledged, then failed: the pending response was handed to it and rejected
            if kind == "ok":
                if stored.get(key) != int(f[4]):
                    msgs.append(f"request on {a} returned the telegram of step {f[4]}, which is not the pending in-sequence "
                                f"response (pending: step {stored.get(key)}): a response already handed to an earlier request, "
                                f"or one the connection never took")
                stored.pop(key, None)
            if kind.startswith("other"):
                msgs.append(f"request failed with {kind[6:]}, not a management error")
            if t - t0 > bound:
                msgs.append(f"request on {a} finished after {t - t0} ticks (> {bound})")
            if kind == "ok":
                fid, n, code = int(f[4]), int(f[5]), int(f[6])
                if fid not in rx:
                    msgs.append("request returned a telegram that was never received")
                    continue
                ra, frame, hc, cn, exp, ep = rx[fid]
                if fid in returned:
                    msgs.append(f"received frame (step {fid}) satisfied two requests")
                returned.add(fid)
                if ra != a or ep != epoch[a] or not hc:
                    msgs.append(f"request on {a} returned frame {frame} of another source/connection (step {fid})")
                elif frame[0] != "D":
                    msgs.append(f"request returned a non connection-oriented frame {frame} as response (step {fid})")
                elif n != exp:
                    msgs.append(f"response carries number {n}, expected number was {exp} (step {fid})")
                if expect and code != expect:
                    msgs.append(f"response of type {code} returned, expected type {expect}")
    for a in list(pend):
        msgs.append(f"request on {a} has no result")
    # (iv) outgoing numbering per connection lifetime
    for (a, ep), lst in sent.items():
        nxt, i = 0, 0
        while i < len(lst):
            n, code, rq = lst[i]
            if n != nxt:
                msgs.append(f"data frame to {a} carries number {n}, should be {nxt}")
                break
            j = i + 1
            while j < len(lst) and lst[j][2] == rq:
                if lst[j][0] != n or lst[j][1] != code:
                    msgs.append(f"repetition to {a} carries number {lst[j][0]} instead of {n}")
                j += 1
            if j - i > 2:
                msgs.append(f"data frame number {n} to {a} sent {j - i} times")
            nxt = (nxt + 1) % 16
            i = j
    # (v) acknowledgements
    need = [(d[0], d[1]) for d in due_ack if len(d) == 2]
    noconn = [(d[0], d[1]) for d in due_ack if len(d) == 3]
    rest = list(got_ack)
    for d in need:
        if d in rest:
            rest.remove(d)
        else:
            msgs.append(f"in-sequence data frame number {d[1]} from {d[0]} on an open connection was not acknowledged")
    for d in rest:
        if d in noconn:
            noconn.remove(d)
            msgs.append(f"{KNOWN_ACK}: T_ACK {d[1]} sent to {d[0]} which has no connection")
        else:
            msgs.append(f"T_ACK {d[1]} sent to {d[0]} for a frame that is not the expected or preceding number of an open connection")
    if sorted(due_disc) != sorted(got_disc):
        msgs.append(f"T_Disconnect refusals sent to {sorted(got_disc)}, incoming T_Connect without connection from {sorted(due_disc)}")
    return msgs


def ack_decided(req):
    """Was the request's data frame acknowledged with its own number? The first T_ACK / T_NAK / T_Disconnect received
    within ACK_TIMEOUT after a transmission decides; later ones are ignored."""
    if not req or not req["tx"]:
        return False
    for i, (t_tx, n, pos) in enumerate(req["tx"]):
        end = req["tx"][i + 1][2] if i + 1 < len(req["tx"]) else len(req["rx"])
        for t, frame in req["rx"][pos:end]:
            if t >= t_tx + ACK:
                break
            if frame == "X":
                return False
            if frame[0] == "N":
                return False
            if frame[0] == "A":
                return int(frame[1:]) == n
    return False


def finding_key(case, msg):
    if msg.startswith(KNOWN_ACK):
        return KNOWN_ACK
    return " ".join(case.get("steps", []))[:200]


def nontrivial(case, out):
    return " d:" in out and " i:" in out


def outcome_class(out):
    ks = sorted({e.split(":")[3] for e in out.split() if e.startswith("r:")})
    return ",".join(k.split("-")[0] for k in ks) or "no-request"


def shrink(case, msg):
    def cls(m):
        return (m or "").split("(")[0].split(":")[0][:30]
    want = cls(msg)
    steps = list(case["steps"])

    def fails(st):
        c = dict(case, steps=st)
        try:
            r = run_impl(c)
            return cls(oracle(c, r["out"])) == want
        except Exception:  # noqa: BLE001
            return False
    changed = True
    while changed and len(steps) > 1:
        changed = False
        for i in range(len(steps) - 1, -1, -1):
            st = steps[:i] + steps[i + 1:]
            if fails(st):
                steps = st
                changed = True
    return dict(case, steps=steps)


# --------------------------------------------------------------------------------------------------
# Generators
# --------------------------------------------------------------------------------------------------

SEPS = ["", "", "y", "s", "s"]
BOUNDARY_WAITS = [1, 2, ACK - 1, ACK, ACK + 1, 2 * ACK - 1, 2 * ACK, 2 * ACK + 1, CONN - 1, CONN, CONN + 1,
                  CONN - ACK, ACK + CONN, 2 * ACK + CONN, 2 ** 16, 2 ** 16 - 1, 2 ** 20, 2 ** 20 - 1, 1000]


class Script:
    """Builds a script while tracking what an ideal peer would do next."""

    def __init__(self, rng, peer=1, rate=0):
        self.rng, self.peer, self.rate = rng, peer, rate
        self.steps = []
        self.send = 0   # number of our next data frame
        self.exp = 0    # number the peer uses for its next data frame

    def sep(self):
        s = self.rng.choice(SEPS)
        if s:
            self.steps.append(s)

    def add(self, *st):
        self.steps.extend(st)

    def rx(self, f, a=None):
        self.steps.append(f"i {a or self.peer} {f}")

    def clean_round(self, kind="D", sep=None):
        code = REQ[kind][2] or 1
        self.add(f"q {self.peer} {kind}", "y")
        self.rx(f"A{self.send}")
        if sep is None:
            self.sep()
        elif sep:
            self.add(sep)
        self.rx(f"D{self.exp}.{code}")
        self.add("s")
        if self.rate:
            self.add(f"w {round(1 / self.rate / TICK)}")
        self.send = (self.send + 1) % 16
        self.exp = (self.exp + 1) % 16

    def perturbed_round(self):
        rng = self.rng
        kind = rng.choice("DDDMR")
        code = REQ[kind][2] or 1
        p = self.peer
        s, e = self.send, self.exp
        self.add(f"q {p} {kind}")
        self.steps.append(rng.choice(["y", "y", "s"]))
        m = rng.randrange(23)
        advanced_exp = True
        if m == 0:      # data before ack
            self.rx(f"D{e}.{code}"); self.sep(); self.rx(f"A{s}")
        elif m == 1:    # first ack lost: arrives after repetition
            self.add(f"w {rng.choice([ACK, ACK + 1, ACK - 1, ACK + 1000])}"); self.rx(f"A{s}"); self.sep(); self.rx(f"D{e}.{code}")
        elif m == 2:    # no ack at all
            self.add(f"w {rng.choice([2 * ACK, 2 * ACK + 1, 2 * ACK - 1])}"); self.rx(f"A{s}"); advanced_exp = False
        elif m == 3:    # wrong ack number
            self.rx(f"A{rng.randrange(16)}"); self.sep(); self.rx(f"D{e}.{code}")
        elif m == 4:    # nak
            self.rx(f"N{rng.choice([s, rng.randrange(16)])}"); self.sep(); self.rx(f"D{e}.{code}")
        elif m == 5:    # duplicate ack
            self.rx(f"A{s}"); self.sep(); self.rx(f"A{s}"); self.sep(); self.rx(f"D{e}.{code}")
        elif m == 6:    # duplicated data
            self.rx(f"A{s}"); self.sep(); self.rx(f"D{e}.{code}"); self.sep(); self.rx(f"D{e}.{code}")
        elif m == 7:    # old / future data first
            self.rx(f"A{s}"); self.sep(); self.rx(f"D{(e + rng.choice([15, 1, 2, 8])) % 16}.{code}"); self.sep(); self.rx(f"D{e}.{code}")
        elif m == 8:    # foreign source data and acks
            self.rx(f"A{s}", 3); self.rx(f"D{e}.{code}", 3); self.sep(); self.rx(f"A{s}"); self.rx(f"D{e}.{code}")
        elif m == 9:    # disconnect somewhere
            seq = [f"A{s}", f"D{e}.{code}"]
            seq.insert(rng.randrange(3), "X")
            for f in seq:
                self.rx(f); self.sep()
        elif m == 10:   # wrong response type
            self.rx(f"A{s}"); self.sep(); self.rx(f"D{e}.{rng.choice([1, 2, 3])}")
        elif m == 11:   # non connection-oriented frames from the peer
            self.rx(f"A{s}"); self.sep(); self.rx(rng.choice("CBI")); self.sep(); self.rx(f"D{e}.{code}")
        elif m == 12:   # response late
            self.rx(f"A{s}"); self.add(f"w {rng.choice([CONN - 1, CONN, CONN + 1])}"); self.rx(f"D{e}.{code}")
        elif m == 13:   # ack at the deadlines
            self.add(f"w {rng.choice(BOUNDARY_WAITS)}"); self.rx(f"A{s}"); self.sep(); self.rx(f"D{e}.{code}")
        elif m == 14:   # two data frames in a row (second one while the first is unconsumed)
            self.rx(f"A{s}"); self.rx(f"D{e}.{code}"); self.rx(f"D{(e + 1) % 16}.{code}"); self.exp = (self.exp + 1) % 16 if rng.random() < 0.3 else self.exp
        elif m == 15:   # ack, response, disconnect back to back
            self.rx(f"D{e}.{code}"); self.rx("X"); self.rx(f"A{s}")
        elif m == 16:   # incoming connect from stranger in the middle
            self.rx("C", 3); self.rx(f"A{s}"); self.sep(); self.rx(f"D{e}.{code}")
        elif m == 17:   # ack timeout boundary then ack twice
            self.add(f"w {ACK}"); self.rx(f"A{s}"); self.rx(f"A{s}"); self.sep(); self.rx(f"D{e}.{code}")
        elif m in (19, 20):   # in-sequence response of the wrong type, then a request expecting exactly that type
            other = "M" if kind != "M" else "D"
            oc = REQ[other][2]
            self.rx(f"A{s}"); self.sep(); self.rx(f"D{e}.{oc}"); self.add("s")
            if self.rate:
                self.add(f"w {round(1 / self.rate / TICK)}")
            s2, e2 = (s + 1) % 16, (e + 1) % 16
            self.add(f"q {p} {other}", "y"); self.rx(f"A{s2}"); self.sep()
            if rng.random() < 0.7:
                self.rx(f"D{e2}.{oc}")
            s, e = s2, e2
        elif m == 18:   # response exactly at connection timeout, then ack again
            self.rx(f"A{s}"); self.add("s", f"w {CONN}"); self.rx(f"D{e}.{code}"); self.rx(f"A{s}")
        else:
            self.rx(f"A{s}"); self.sep(); self.rx(f"D{e}.{code}")
        self.add("s")
        if self.rate and rng.random() < 0.7:
            self.add(f"w {round(1 / self.rate / TICK)}")
        self.send = (s + 1) % 16
        if advanced_exp:
            self.exp = (e + 1) % 16


def case_of(steps, rate=0, fam=""):
    return {"op": "p2p scn", "rate": rate, "fam": fam, "steps": steps}


def generate(rng, tier):
    thorough = tier != "quick"
    rates = [0, 0, 1, 16]
    # F1: disconnect (and other single frames) at every position of a clean exchange, every separator
    base = ["o 1", "q 1 D", "y", "i 1 A0", "i 1 D0.1", "s", "q 1 M", "y", "i 1 A1", "i 1 D1.2", "s", "c 1"]
    for ins in ["i 1 X", "i 1 A0", "i 1 A1", "i 1 D0.1", "i 1 D1.1", "i 1 C", "i 1 B", "i 1 I", "i 3 D0.1", "i 3 C", "i 3 X",
                "i 2 D0.1", "i 1 N0", "y", "s", f"w {ACK}", f"w {CONN}"]:
        for pos in range(1, len(base) + 1):
            for sep in (["", "y"] if not thorough else ["", "y", "s"]):
                st = base[:pos] + [ins] + ([sep] if sep else []) + base[pos:]
                yield case_of(st, 0, "F1")
    # F2: every ack / nak number at send numbers 0 and 15, every data number at expected 0 and 15
    for start in (0, 15):
        sc = Script(rng)
        sc.add("o 1")
        for _ in range(start):
            sc.clean_round(sep="")
        pre = list(sc.steps)
        for n in range(16):
            for fr in ("A", "N"):
                yield case_of(pre + ["q 1 D", "y", f"i 1 {fr}{n}", "s", f"i 1 D{start}.1", "s", "c 1"], 0, "F2")
            yield case_of(pre + ["q 1 D", "y", f"i 1 A{start}", "s", f"i 1 D{n}.1", "s", f"i 1 D{n}.1", "s", "c 1"], 0, "F2")
            yield case_of(pre + [f"i 1 D{n}.1", "s", f"i 1 D{n}.1", f"i 1 D{(n + 1) % 16}.1", "s", "q 1 D", "y", f"i 1 A{start}", "s", "c 1"], 0, "F2")
    # F7: a response of the wrong type (rejected), then a request that expects exactly that type; also with the
    # rejected response arriving before the ACK, and with the first request failing in the ACK phase instead
    for k1, k2 in (("D", "M"), ("M", "D"), ("D", "R")):
        c2 = REQ[k2][2] or 2
        for first in ([f"i 1 A0", f"i 1 D0.{c2}"], [f"i 1 D0.{c2}", "i 1 A0"], [f"i 1 D0.{c2}", "i 1 N0"],
                      [f"i 1 D0.{c2}", "i 1 A5"], [f"i 1 D0.{c2}", f"w {2 * ACK}"]):
            for second in (["i 1 A1", f"i 1 D1.{c2}"], ["i 1 A1"], [f"i 1 D1.{c2}", "i 1 A1"]):
                for sep in ("", "y", "s"):
                    st = ["o 1", f"q 1 {k1}", "y"] + first + ["s", f"q 1 {k2}", "y"]
                    for x in second:
                        st += [x] + ([sep] if sep else [])
                    yield case_of(st + ["s", "c 1"], 0, "F7")
    # F3: timing boundaries
    for w1 in BOUNDARY_WAITS:
        for w2 in ([0] + BOUNDARY_WAITS if thorough else [0, ACK, CONN - 1, CONN, CONN + 1]):
            for rate in (0, 16):
                st = ["o 1", "q 1 D", "y", f"w {w1}", "i 1 A0"]
                if w2:
                    st += ["s", f"w {w2}"]
                st += ["i 1 D0.1", "i 1 A0", "s", "q 1 D", "y", "i 1 A1", "i 1 D1.1", "s"]
                yield case_of(st, rate, "F3")
    # F4: long sessions with perturbations (wrap included), one or two connections
    n_long = 400 if not thorough else 40000
    for _ in range(n_long):
        rate = rng.choice(rates)
        sc = Script(rng, 1, rate)
        sc.add("o 1")
        rounds = rng.choice([1, 2, 3, 3, 5, 18, 20]) if rng.random() < 0.8 else rng.randrange(1, 24)
        for _ in range(rounds):
            if rng.random() < 0.75:
                sc.clean_round(rng.choice("DDM"))
            else:
                sc.perturbed_round()
            if rng.random() < 0.05:
                sc.add("c 1", "o 1")
                sc.send = sc.exp = 0
        sc.add("c 1")
        yield case_of(sc.steps, rate, "F4")
    # F5: two connections interleaved
    for _ in range(150 if not thorough else 10000):
        rate = rng.choice(rates)
        a, b = Script(rng, 1, rate), Script(rng, 2, rate)
        a.add("o 1"); b.add("o 2")
        for sc in (a, b):
            for _ in range(rng.randrange(1, 5)):
                (sc.clean_round if rng.random() < 0.6 else sc.perturbed_round)()
        # interleave keeping each script's order; requests wait for their own connection only
        st, ia, ib = [], 0, 0
        while ia < len(a.steps) or ib < len(b.steps):
            if ib >= len(b.steps) or (ia < len(a.steps) and rng.random() < 0.5):
                st.append(a.steps[ia]); ia += 1
            else:
                st.append(b.steps[ib]); ib += 1
        yield case_of(st + ["s", "c 1", "c 2"], rate, "F5")
    # F6: random soup (malformed stream)
    frames = ["C", "X", "B", "I"] + [f"A{n}" for n in range(16)] + [f"N{n}" for n in (0, 1, 15)] + \
             [f"D{n}.{c}" for n in range(16) for c in (1, 2)] + [f"D{n}.3" for n in (0, 1, 15)]
    for _ in range(500 if not thorough else 40000):
        rate = rng.choice(rates)
        st = []
        for _ in range(rng.randrange(3, 40)):
            r = rng.random()
            if r < 0.5:
                near = rng.random() < 0.6
                f = rng.choice(frames)
                if near and f[0] in "ADN":
                    f = f[0] + str(rng.choice([0, 0, 1, 1, 2, 15])) + (f[f.index("."):] if "." in f else "")
                st.append(f"i {rng.choice([1, 1, 1, 1, 2, 3])} {f}")
            elif r < 0.62:
                st.append(f"q {rng.choice([1, 1, 2])} {rng.choice('DDMR')}")
            elif r < 0.70:
                st.append(f"o {rng.choice([1, 1, 2])}")
            elif r < 0.74:
                st.append(f"c {rng.choice([1, 1, 2, 3])}")
            elif r < 0.9:
                st.append(rng.choice(["y", "s"]))
            else:
                st.append(f"w {rng.choice(BOUNDARY_WAITS)}")
        if not any(s.startswith("o ") for s in st):
            st.insert(0, "o 1")
        yield case_of(st, rate, "F6")
