"""C02 Group address filters match exactly the addresses their pattern denotes."""
from __future__ import annotations

import fnmatch as _fnmatch
import itertools

from xknx.exceptions import ConversionError, CouldNotParseAddress
from xknx.telegram.address import GroupAddress, GroupAddressType, IndividualAddress, InternalGroupAddress
from xknx.telegram.address_filter import AddressFilter

PROPERTY = "C02"
EXHAUSTIVE = False
RULE = (
    "grammar-generated patterns (AST: 1..3 levels of comma-separated `*`, `n`, `a-b`, `b-a`, `-b`, `a-`; numbers from a "
    "boundary dictionary per level: 0, 1, level max -1/+0/+1, 65535) rendered to text and matched, in the notation with as "
    "many levels, against addresses derived from the pattern (every range end -1/+0/+1 per level, combined) plus main / "
    "middle boundaries +-1 plus random addresses; thorough: some patterns against all 65,536 addresses. Each filter is built "
    "twice with unrelated filters / notation switches in between (result must not depend on history). Separate streams: "
    "patterns in a notation with a different depth, malformed patterns (outside the grammar: model agreement only), "
    "str / int / object arguments to match(), internal-address globs (`* ? [seq] [!seq]`) against names derived from the "
    "pattern. non-trivial = distinct cases whose constructor succeeded and whose result string contains both matches and "
    "non-matches (sweeps) / is not an error (single matches)"
)
TRUSTED = [
    "model XknxVerif.Model.AddressFilter is hand-written (parser, matcher, fnmatch.translate's bracket handling as character "
    "classes); `re`'s execution of the translated pattern (atomic groups for interior `*`) is taken to be plain glob matching",
    "patterns outside the documented grammar (numbers above 65535, empty parts, extra '-', signs, whitespace) are checked "
    "for model agreement only; the property does not say what they denote",
]
CASE_TIMEOUT = 10.0

FMTS = {"LONG": GroupAddressType.LONG, "SHORT": GroupAddressType.SHORT, "FREE": GroupAddressType.FREE}
LEVELS = {"LONG": 3, "SHORT": 2, "FREE": 1}
FMT_OF_DEPTH = {3: "LONG", 2: "SHORT", 1: "FREE"}
LEVEL_MAX = {"LONG": [31, 7, 255], "SHORT": [31, 2047], "FREE": [65535]}
_ORIG_FMT = GroupAddress.address_format
MAXV = 65535


def tok(s: str) -> str:
    return ".".join(str(ord(c)) for c in s) if s else "-"


def untok(t: str) -> str:
    return "" if t == "-" else "".join(chr(int(x)) for x in t.split("."))


def exc_char(e: BaseException) -> str:
    if isinstance(e, CouldNotParseAddress):
        return "P"
    if isinstance(e, ConversionError):
        return "C"
    if type(e) is ValueError:
        return "V"
    if type(e) is ConnectionError:
        return "X"
    return f"<{type(e).__name__}>"


def exc_ctor(e: BaseException) -> str:
    if isinstance(e, CouldNotParseAddress):
        return "err parse"
    if isinstance(e, ConversionError):
        return "err conversion"
    return f"err other:{type(e).__name__}"


def m1(flt, a) -> str:
    try:
        r = flt.match(a)
    except Exception as e:  # noqa: BLE001
        return exc_char(e)
    if r is True:
        return "1"
    if r is False:
        return "0"
    return f"<{r!r}>"


def build_value(case, t):
    kind, _, rest = t.partition(":")
    if kind == "i":
        return bool(int(rest)) if case.get("as") == "bool" else int(rest)
    if kind == "s":
        return untok(rest)
    if kind == "ga":
        return GroupAddress(int(rest))
    if kind == "ia":
        return IndividualAddress(int(rest))
    if kind == "iga":
        a = InternalGroupAddress(untok(rest))
        assert a.raw == untok(rest)
        return a
    return {"none": None, "float": 1.5, "bytes": b"1/2/3", "list": [1]}[case.get("obj", "none")]


def disturb(fmt):
    """things that must not influence a later match: other filters, other matches, a notation switch and back"""
    for f in FMTS.values():
        GroupAddress.address_format = f
        try:
            AddressFilter("1-3,7/*").match(GroupAddress(2049))
            AddressFilter("i-t?st*").match(InternalGroupAddress("i-test1"))
            AddressFilter("5").match(5)
        except Exception:  # noqa: BLE001
            pass
    GroupAddress.address_format = fmt


def run_impl(case):
    t = case["op"].split()
    op = t[1]
    try:
        if op == "glob":
            pat = untok(t[2])
            return "".join("1" if _fnmatch.fnmatch(untok(n), pat) else "0" for n in t[3].split("|"))
        if op == "ranges":
            try:
                flt = AddressFilter(untok(t[2]))
            except Exception as e:  # noqa: BLE001
                return exc_ctor(e)
            if flt.internal_group_address_pattern is not None:
                return f"internal {tok(flt.internal_group_address_pattern)}"
            return "levels " + "/".join(",".join("%d:%d" % r.get_range() for r in lf.ranges) for lf in flt.level_filters)
        fmt = FMTS[t[2]]
        GroupAddress.address_format = fmt
        pattern = untok(t[3])
        try:
            flt = AddressFilter(pattern)
        except Exception as e:  # noqa: BLE001
            return exc_ctor(e)
        if op == "sweep":
            raws = [int(x) for x in t[4].split(",")]
            addrs = [GroupAddress(r) for r in raws]
            out = "".join(m1(flt, a) for a in addrs)
            # history independence: a fresh filter after unrelated activity, and the old filter again
            disturb(fmt)
            flt2 = AddressFilter(pattern)
            step = max(1, len(addrs) // 64)
            again = "".join(m1(flt2, a) for a in addrs[::step])
            old = "".join(m1(flt, a) for a in addrs[::step])
            if again != out[::step] or old != out[::step]:
                out += " HISTORY-DEPENDENT"
            return out
        if op == "one":
            v = build_value(case, t[4])
            out = m1(flt, v)
            disturb(fmt)
            if m1(AddressFilter(pattern), build_value(case, t[4])) != out:
                out += " HISTORY-DEPENDENT"
            return out
        raise AssertionError(op)
    finally:
        GroupAddress.address_format = _ORIG_FMT


def teardown():
    GroupAddress.address_format = _ORIG_FMT


# --------------------------------------------------------------------------
# the property, evaluated from the pattern's AST (independent of the model)
# --------------------------------------------------------------------------


def bounds(r):
    k = r[0]
    if k == "star":
        return 0, MAXV
    if k == "single":
        return r[1], r[1]
    if k == "between":
        return min(r[1], r[2]), max(r[1], r[2])
    if k == "upto":
        return 0, r[1]
    return r[1], MAXV  # from


def level_values(fmt, raw):
    if fmt == "LONG":
        return [raw >> 11, (raw >> 8) & 7, raw & 255]
    if fmt == "SHORT":
        return [raw >> 11, raw & 2047]
    return [raw]


def denotes(ast, fmt, raw):
    vals = level_values(fmt, raw)
    assert len(vals) == len(ast)
    return all(any(lo <= v <= hi for lo, hi in map(bounds, lvl)) for lvl, v in zip(ast, vals))


def glob_match(items, name):
    """textbook glob matching over an item list: ('lit', c) ('any',) ('star',) ('set', neg, chars, ranges)"""
    n, m = len(items), len(name)
    ok = [[False] * (m + 1) for _ in range(n + 1)]
    ok[n][m] = True
    for i in range(n - 1, -1, -1):
        it = items[i]
        for j in range(m, -1, -1):
            if it[0] == "star":
                ok[i][j] = ok[i + 1][j] or (j < m and ok[i][j + 1])
            elif j < m:
                c = name[j]
                if it[0] == "lit":
                    hit = c == it[1]
                elif it[0] == "any":
                    hit = True
                else:
                    hit = (c in it[2] or any(a <= c <= b for a, b in it[3])) != it[1]
                ok[i][j] = hit and ok[i + 1][j + 1]
    return ok[0][0]


def oracle(case, out):
    t = case["op"].split()
    op = t[1]
    if "HISTORY-DEPENDENT" in out:
        return "the same pattern, address and notation gave a different result after unrelated filter activity"
    if "<" in out:
        return f"match() returned / raised something undeclared: {out[:80]}"
    if op == "sweep" and case.get("ast") is not None and LEVELS[t[2]] == len(case["ast"]):
        if out.startswith("err"):
            return f"grammar pattern {untok(t[3])!r} was rejected: {out}"
        raws = [int(x) for x in t[4].split(",")]
        for r, ch in zip(raws, out):
            want = "1" if denotes(case["ast"], t[2], r) else "0"
            if ch != want:
                lv = "/".join(map(str, level_values(t[2], r)))
                return f"pattern {untok(t[3])!r} {t[2]} address {lv} (raw {r}): match gives {ch}, pattern denotes {want}"
        return None
    if op == "one" and case.get("glob") is not None:
        if out.startswith("err"):
            return f"glob pattern {untok(t[3])!r} was rejected: {out}"
        name = untok(t[4].partition(":")[2])
        items = [tuple(x) for x in case["glob"]]
        want = "1" if glob_match([("lit", "i"), ("lit", "-")] + items, name) else "0"
        if out != want:
            return f"glob {untok(t[3])!r} on {name!r}: match gives {out}, pattern denotes {want}"
        return None
    if op == "one" and case.get("expect") is not None and out != case["expect"]:
        return f"pattern {untok(t[3])!r} {t[2]} argument {t[4]}: match gives {out}, expected {case['expect']}"
    return None


def nontrivial(case, out):
    if out.startswith("err"):
        return False
    if case["op"].split()[1] == "sweep":
        return "1" in out and "0" in out
    return out[:1] in ("0", "1") or out.startswith(("levels", "internal"))


def finding_key(case, msg):
    t = case["op"].split()
    if t[1] in ("sweep", "one"):
        return f"af {t[1]} {t[2]} {untok(t[3])!r}"
    return case["op"][:200]


def outcome_class(out):
    if out.startswith("err"):
        return out
    if out.startswith(("levels", "internal")):
        return out.split()[0]
    s = set(out.split()[0])
    return "match:" + "".join(sorted(s))


def shrink(case, msg):
    """keep only the first address of a sweep on which the oracle complains"""
    t = case["op"].split()
    if t[1] != "sweep" or case.get("ast") is None:
        return case
    import re

    m = re.search(r"\(raw (\d+)\)", msg or "")
    if not m:
        return case
    return dict(case, op=" ".join(t[:4] + [m.group(1)]))


# --------------------------------------------------------------------------
# generators
# --------------------------------------------------------------------------


def render_range(r):
    k = r[0]
    if k == "star":
        return "*"
    if k == "single":
        return str(r[1])
    if k == "between":
        return f"{r[1]}-{r[2]}"
    if k == "upto":
        return f"-{r[1]}"
    return f"{r[1]}-"


def render(ast):
    return "/".join(",".join(render_range(r) for r in lvl) for lvl in ast)


def num(rng, mx):
    """a number of the grammar: a level value 0..65535 (larger numbers saturate in the code, the unit tests pin that;
    they are outside the grammar and live in the malformed stream)"""
    return min(MAXV, _num(rng, mx))


def _num(rng, mx):
    r = rng.random()
    if r < 0.45:
        return rng.randint(0, mx)
    if r < 0.8:
        return rng.choice([0, 1, 2, mx - 1, mx, mx + 1, mx // 2, mx // 2 + 1])
    if r < 0.9:
        return rng.choice([255, 256, 2047, 2048, 65534, 65535, 7, 8, 31, 32])
    return rng.randint(0, MAXV)


def gen_range(rng, mx):
    r = rng.random()
    if r < 0.12:
        return ["star"]
    if r < 0.42:
        return ["single", num(rng, mx)]
    if r < 0.75:
        a, b = num(rng, mx), num(rng, mx)
        if rng.random() < 0.15:
            b = a
        return ["between", a, b]
    if r < 0.87:
        return ["upto", num(rng, mx)]
    return ["from", num(rng, mx)]


def gen_ast(rng, depth=None):
    depth = depth or rng.choice([3, 3, 3, 2, 2, 1])
    mxs = LEVEL_MAX[FMT_OF_DEPTH[depth]]
    return [[gen_range(rng, mx) for _ in range(rng.choice([1, 1, 1, 2, 2, 3, 4]))] for mx in mxs]


BOUNDARY_RAWS = sorted({0, 1, 65534, 65535} | {x for m in range(0, 65537, 2048) for x in (m - 1, m, m + 1) if 0 <= x <= MAXV}
                       | {x for m in range(0, 65537, 8192) for d in (256, 512) for x in (m + d - 1, m + d) if 0 <= x <= MAXV})


def addresses_for(rng, ast, fmt, n_random):
    """addresses around every range end of the pattern, level by level, combined; plus boundaries and random ones"""
    mxs = LEVEL_MAX[fmt]
    per_level = []
    for i, mx in enumerate(mxs):
        vals = {0, mx}
        if i < len(ast):
            for r in ast[i]:
                lo, hi = bounds(r)
                for v in (lo - 1, lo, lo + 1, hi - 1, hi, hi + 1):
                    if 0 <= v <= mx:
                        vals.add(v)
        vals = sorted(vals)
        if len(vals) > 9:
            vals = sorted(set(rng.sample(vals, 9)) | {0, mx})
        per_level.append(vals)
    raws = set()
    combos = list(itertools.product(*per_level))
    if len(combos) > 400:
        combos = rng.sample(combos, 400)
    for c in combos:
        if fmt == "LONG":
            raws.add((c[0] << 11) | (c[1] << 8) | c[2])
        elif fmt == "SHORT":
            raws.add((c[0] << 11) | c[1])
        else:
            raws.add(c[0])
    raws.update(rng.sample(BOUNDARY_RAWS, 20))
    raws.update(rng.randrange(65536) for _ in range(n_random))
    return sorted(raws)


MALFORMED = ["", "/", "//", "///", ",", "-", "--", "1-2-3", "1--2", "1/2/3/4", "*/*/*/*", "1//3", "1,,2", ",1", "1,", " 1", "1 ", "1 - 2",
             " 1-2 ", "+5-7", "5-+7", "1_0", "1_0-2_0", "²", "²-3", "1-²", "①", "*-5", "5-*", "**", "*,*", "*/", "/*", "abc", "a-b", "x",
             "70000", "65536", "65535", "0-70000", "70000-80000", "70000-", "-70000", "99999999999999999999", "1-99999999999999999999",
             "٣", "٣-٥", "1/٢/3", "１-３", "0x10", "1e3", "1.5", "1/2/3\n", "1\n", "\n", "1-\n", "007", "0-007", "00/000/0000", "-0", "0-",
             "i", "i-", "I-x", "I", "ix", "1/i-x", "i/1", "i-x/1", "i- ", "i_", "i__", "İ-x", "*i", "-i", "i1/2/3", "i-1/2/3",
             "1/2/3-", "1/2/-", "1/-/3", "-/-/-", "-,-", "1-1", "5-2", "2-5", "1-2,3-4,5-6,7-8/9", "0-0", "65535-0", "1/2,", "1/,2/3",
             "1" * 4300, "1" * 4301, "1-" + "1" * 4301, "0" * 5000 + "-5"]


def glob_item(rng):
    r = rng.random()
    al = "atse1-_x.Z"
    if r < 0.45:
        return ("lit", rng.choice("atse1x"))
    if r < 0.6:
        return ("any",)
    if r < 0.78:
        return ("star",)
    neg = rng.random() < 0.3
    chars = "".join(rng.sample("atse1xZ", rng.randint(1, 3)))
    ranges = []
    if rng.random() < 0.5:
        a, b = sorted(rng.sample("0123456789" if rng.random() < 0.3 else "abcdefgstuvwxyz", 2))
        ranges.append((a, b))
    return ("set", neg, chars, ranges)


def render_glob(items):
    out = []
    for it in items:
        if it[0] == "lit":
            out.append(it[1])
        elif it[0] == "any":
            out.append("?")
        elif it[0] == "star":
            out.append("*")
        else:
            out.append("[" + ("!" if it[1] else "") + it[2] + "".join(f"{a}-{b}" for a, b in it[3]) + "]")
    return "".join(out)


def names_for(rng, items):
    """names close to the pattern: instantiate it, then mutate"""
    def inst():
        s = []
        for it in items:
            if it[0] == "lit":
                s.append(it[1])
            elif it[0] == "any":
                s.append(rng.choice("atse1xq\n"))
            elif it[0] == "star":
                s.append("".join(rng.choice("atse1x") for _ in range(rng.choice([0, 0, 1, 2, 3]))))
            else:
                pool = it[2] + "".join(a + b + chr((ord(a) + ord(b)) // 2) for a, b in it[3])
                s.append(rng.choice(pool) if rng.random() < 0.7 else rng.choice("atse1xqZ0m"))
        return "".join(s)
    out = []
    for _ in range(6):
        s = inst()
        r = rng.random()
        if r < 0.2 and s:
            p = rng.randrange(len(s))
            s = s[:p] + s[p + 1:]
        elif r < 0.4:
            p = rng.randrange(len(s) + 1)
            s = s[:p] + rng.choice("atse1xq") + s[p:]
        elif r < 0.5 and s:
            p = rng.randrange(len(s))
            s = s[:p] + rng.choice("atse1xqZ") + s[p + 1:]
        if s.strip() == s and s:
            out.append(s)
    return out or ["x"]


RAW_GLOBS = ["*", "?", "**", "*?*", "[", "]", "[]", "[!]", "[]]", "[!]]", "[a", "[a]", "[!a]", "[^a]", "[a-c]", "[c-a]", "[!c-a]", "[a-]", "[-a]",
             "[a-c-e]", "[a-bc-d]", "[z-ab-c]", "[z-a!b]", "[!z-ab]", "[a\\]", "[\\]", "[a-\\]", "[\\-a]", "[[]", "[[a]", "[]a]", "[]-a]",
             "[!-a]", "[!a-]", "[a-a]", "[--0]", "[+--]", "[*]", "[?]", "[a&&b]", "[a~~b]", "[a||b]", "[a--b]", "t[e]st", "t[!e]st", "t?st",
             "t*t", "*t*e*s*t*", "a[b-", "a[b-]c", "[a-c][d-f]", "[!a-c]*", "x[", "x[]", "[]x", "[[:alpha:]]", "[a-z-0]", "[0-9a-f]", "[f-a0-9]",
             "[a-b-]", "[-]", "[--]", "[---]", "[!-]", "[!--]", "[a-b--z]", "[%--]", ".", "\\", "\\*", "^", "$", "(", "a|b", "{a,b}", "[a-d-a]",
             "[b-ad-c]", "[d-c!]", "[!!]", "[!!-#]", "[a-!]", "[!b-a-]"]
GLOB_NAMES = ["", "a", "b", "c", "d", "e", "z", "-", "!", "]", "[", "\\", "^", "&", "~", "|", "*", "?", "ab", "test", "tst", "teest", "tast", "tt", "t",
              "a[b-", "a-c", "af", "0", "9", "g", "x[", "x[]", "[]x", ".", "$", "\n", "a\n", "+", ",", "%", "#", "a|b", ":", "a]", "b]", "[a"]


def generate(rng, tier):
    thorough = tier == "thorough"
    fm = list(FMTS)
    # 1. grammar patterns in the notation of their depth (the property)
    n_pat = 12000 if thorough else 2500
    for i in range(n_pat):
        ast = gen_ast(rng)
        fmt = FMT_OF_DEPTH[len(ast)]
        raws = addresses_for(rng, ast, fmt, 150 if thorough else 40)
        yield {"op": f"af sweep {fmt} {tok(render(ast))} {','.join(map(str, raws))}", "ast": ast}
    # 1b. some patterns against the complete address space
    for i in range(40 if thorough else 3):
        ast = gen_ast(rng, depth=[3, 2, 1][i % 3])
        fmt = FMT_OF_DEPTH[len(ast)]
        yield {"op": f"af sweep {fmt} {tok(render(ast))} {','.join(map(str, range(65536)))}", "ast": ast}
    # 1c. the documented examples
    for p, ast in [("1/*/2-5", [[["single", 1]], [["star"]], [["between", 2, 5]]]),
                   ("1/1-3,4,5/*", [[["single", 1]], [["between", 1, 3], ["single", 4], ["single", 5]], [["star"]]]),
                   ("1/2/-10", [[["single", 1]], [["single", 2]], [["upto", 10]]]),
                   ("*/2-5", [[["star"]], [["between", 2, 5]]]), ("1-3,4,5/*", [[["between", 1, 3], ["single", 4], ["single", 5]], [["star"]]]),
                   ("2/-10", [[["single", 2]], [["upto", 10]]]), ("2-5", [[["between", 2, 5]]]),
                   ("1-3,4,5", [[["between", 1, 3], ["single", 4], ["single", 5]]]), ("-10", [[["upto", 10]]]), ("10-", [[["from", 10]]])]:
        fmt = FMT_OF_DEPTH[len(ast)]
        assert render(ast) == p
        yield {"op": f"af sweep {fmt} {tok(p)} {','.join(map(str, addresses_for(rng, ast, fmt, 300)))}", "ast": ast}
    # 2. grammar patterns in a notation of another depth (outside the property: model agreement, declared errors)
    for _ in range(2000 if thorough else 400):
        ast = gen_ast(rng)
        fmt = rng.choice([f for f in fm if LEVELS[f] != len(ast)])
        raws = addresses_for(rng, ast, fmt, 20)[:80]
        yield {"op": f"af sweep {fmt} {tok(render(ast))} {','.join(map(str, raws))}", "ast": ast}
    # 3. parsed ranges of grammar and malformed patterns
    for _ in range(3000 if thorough else 600):
        yield {"op": f"af ranges {tok(render(gen_ast(rng)))}"}
    for p in MALFORMED:
        yield {"op": f"af ranges {tok(p)}"}
        for fmt in fm:
            yield {"op": f"af sweep {fmt} {tok(p)} {','.join(map(str, rng.sample(BOUNDARY_RAWS, 12) + [0, 1, 5, 7, 10, 2563, 65535]))}"}
    # 3b. mutated grammar patterns
    junk = ["-", ",", "/", "*", " ", "+", "_", "²", "٣", "x", "i", "\n", "0", "99999", "-5", "5-"]
    for _ in range(6000 if thorough else 1200):
        s = render(gen_ast(rng))
        for _ in range(rng.choice([1, 1, 2])):
            p = rng.randrange(len(s) + 1)
            r = rng.random()
            if r < 0.6:
                s = s[:p] + rng.choice(junk) + s[p:]
            elif r < 0.8 and s:
                s = s[:p] + s[p + 1:]
            else:
                s = s[:p] + s[p:][::-1]
        fmt = rng.choice(fm)
        yield {"op": f"af ranges {tok(s)}"}
        yield {"op": f"af sweep {fmt} {tok(s)} {','.join(map(str, rng.sample(BOUNDARY_RAWS, 8) + [rng.randrange(65536) for _ in range(8)]))}"}
    # 4. other argument types of match(): int / str go through parse_device_group_address
    for _ in range(1500 if thorough else 300):
        ast = gen_ast(rng)
        fmt = FMT_OF_DEPTH[len(ast)]
        raw = rng.choice(addresses_for(rng, ast, fmt, 5))
        text = {"LONG": f"{raw >> 11}/{(raw >> 8) & 7}/{raw & 255}", "SHORT": f"{raw >> 11}/{raw & 2047}", "FREE": str(raw)}[rng.choice(fm)]
        want = None if raw == 0 else ("1" if denotes(ast, fmt, raw) else "0")
        p = tok(render(ast))
        yield {"op": f"af one {fmt} {p} i:{raw}", "expect": want or "P"}
        yield {"op": f"af one {fmt} {p} s:{tok(text)}", "expect": want or "P"}
        yield {"op": f"af one {fmt} {p} ga:{raw}", "expect": "1" if denotes(ast, fmt, raw) else "0"}
        yield {"op": f"af one {fmt} {p} ia:{raw}", "expect": "0"}
        yield {"op": f"af one {fmt} {p} iga:{tok('i-' + str(raw))}", "expect": "0"}
    for v, extra in [("i:0", {}), ("i:1", {"as": "bool"}), ("i:0", {"as": "bool"}), ("i:-1", {}), ("i:65536", {}), ("s:" + tok("0/0/0"), {}),
                     ("s:" + tok("x"), {}), ("s:" + tok(""), {}), ("s:" + tok("²"), {}), ("s:" + tok("i-x"), {}), ("s:" + tok("1/2/3\n"), {}),
                     ("other", {"obj": "none"}), ("other", {"obj": "float"}), ("other", {"obj": "bytes"}), ("other", {"obj": "list"})]:
        for p in ["*", "*/*", "*/*/*", "0-", "i-*", "i-x", "1", "0"]:
            yield dict({"op": f"af one {rng.choice(fm)} {tok(p)} {v}"}, **extra)
    # 5. internal address globs with an AST (property oracle) against names derived from them
    for _ in range(8000 if thorough else 1500):
        items = [glob_item(rng) for _ in range(rng.randint(1, 6))]
        g = render_glob(items)
        pre = rng.choice(["i-", "i-", "i_", "i"])
        if pre == "i" and g[0] in "-_":
            pre = "i-"
        for name in names_for(rng, items):
            yield {"op": f"af one {rng.choice(fm)} {tok(pre + g)} iga:{tok('i-' + name)}", "glob": [list(x) for x in items]}
    # 6. raw glob texts (bracket corner cases of fnmatch.translate): model agreement
    for g in RAW_GLOBS:
        yield {"op": f"af glob {tok(g)} {'|'.join(tok(n) for n in GLOB_NAMES)}"}
        yield {"op": f"af ranges {tok('i-' + g)}"}
        for n in rng.sample(GLOB_NAMES, 8):
            if n.strip() and n.strip() == n:
                yield {"op": f"af one LONG {tok('i-' + g)} iga:{tok('i-' + n)}"}
    al = "ab-!]^[\\c*?z&~|0"
    for _ in range(30000 if thorough else 4000):
        g = "".join(rng.choice(al) for _ in range(rng.randint(1, 9)))
        names = ["".join(rng.choice("ab-!]^[\\cz&0\n") for _ in range(rng.randint(0, 4))) for _ in range(10)]
        yield {"op": f"af glob {tok(g)} {'|'.join(tok(n) for n in names)}"}
