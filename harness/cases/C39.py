"""C39 Device commands loop back to the state they requested.

Every device class that has a setter (found by introspection of `xknx.devices`) is built from a generated configuration
on a real XKNX, a setter is called, every telegram it queued is handed to the device registry as OUTGOING (what
`TelegramQueue.process_telegram_outgoing` does after sending) and the device's public state is read.  The oracle restates
the property on those observations with exact `Fraction` arithmetic over the range / resolution each datapoint declares:
the state equals the request, or the nearest value the datapoint represents, or the setter refused.  The arithmetic loops
(invert, RemoteValueScaling, set-point shift count x step, fan modes, climate clamp) are also run through the Lean model
`Model/DeviceLoop.lean` and must agree.
"""
from __future__ import annotations

import asyncio
import inspect
import json
import logging
import time
from fractions import Fraction

from harness import devpool
from harness.c39_lib import B, F, I, N, dec, finite, frac, is_num, num, show
from harness import c39_lib as L
from harness import c39_drivers as DR

PROPERTY = "C39"
RULE = ("every device class with a setter (introspected; a setter without a driver is listed in the evidence) x generated "
        "configurations (invert flags, scaling ranges incl. reversed, set-point shift mode DPT 6.010 count x step / DPT 9.002 / "
        "undetermined, step sizes, shift and temperature limits, fan percent / step mode and max_step, cover invert_position / "
        "invert_angle / invert_updown and address subsets, light colour modes, climate-mode address subsets) x 1-4 setter calls with "
        "values across, at and just outside each setter's range (integers, k*step +- ulp, ties, fractions), plus two-/three-step sequences "
        "on the SAME device (a command or incoming state telegram sets a non-default prior value, then the command under test with a "
        "falsy target - 0, 0.0, False, '', midnight, None components of colour values - or a partial update); non-trivial = distinct "
        "cases in which at least one call was accepted and queued a telegram")
TRUSTED = [
    "queued telegrams are handed to xknx.devices.process() as OUTGOING in queue order (TelegramQueue.process_telegram_outgoing "
    "after the interface accepted the frame); sending itself, rate limiting and eager decoding are C33/C38",
    "time.time is replaced by a scripted clock for the duration of a case (cover position estimate is read 1000 s after the command)",
    "generic numeric datapoints (NumericValue, ExposeSensor, hue/saturation, colour temperature, target temperature) are checked "
    "against a Fraction reference of their declared range/resolution; their codecs are not modelled in Lean here (C08/C09)",
    "binary64: the Lean model is exact rational arithmetic; a case whose exact position lies within 1e-9 of a rounding tie is "
    "compared by the oracle only (counted as float_gap)",
]
CASE_TIMEOUT = 5.0
MODULES = ["XknxVerif.Props.C39", "XknxVerif.Props.C39Modes"]
NAMESPACES = ["XknxVerif.Props.C39"]

T0 = 1_700_000_000.0

_loop = None
STATS = {"float_gap": 0, "refused_after_partial_send": 0, "unsupported_noop": 0, "model_lines": 0}


def setup():
    global _loop
    _loop = asyncio.new_event_loop()
    asyncio.set_event_loop(_loop)
    logging.getLogger("xknx").setLevel(logging.CRITICAL + 1)
    logging.getLogger("xknx.log").setLevel(logging.CRITICAL + 1)


def teardown():
    logging.getLogger("xknx").setLevel(logging.NOTSET)
    logging.getLogger("xknx.log").setLevel(logging.NOTSET)
    asyncio.set_event_loop(None)
    _loop.close()


# --------------------------------------------------------------------------
# discovery
# --------------------------------------------------------------------------


def discovered_setters():
    """{class: [public coroutine methods defined by the device class (not by Device)]}"""
    from xknx.devices import Device

    base = set(dir(Device))
    out = {}
    for n, c in devpool.device_classes().items():
        ms = [k for k, v in inspect.getmembers(c) if not k.startswith("_") and k not in base and inspect.iscoroutinefunction(v)]
        if ms:
            out[n] = sorted(ms)
    return out


def uncovered_setters():
    out = []
    for c, ms in discovered_setters().items():
        d = DR.DRIVERS.get(c)
        for m in ms:
            if d is None or m not in d.methods:
                out.append(f"{c}.{m}")
    return out


# --------------------------------------------------------------------------
# implementation runner
# --------------------------------------------------------------------------


def render_payload(p):
    from xknx.dpt import DPTArray, DPTBinary

    if isinstance(p, DPTBinary):
        return f"B:{int(p.value)}"
    if isinstance(p, DPTArray):
        try:
            return "A:" + bytes(p.value).hex()
        except Exception:  # noqa: BLE001
            return "A!:" + ",".join(str(x) for x in p.value)
    return "?"


def drain(xknx):
    out = []
    q = xknx.telegrams
    while not q.empty():
        out.append(q.get_nowait())
        q.task_done()
    return out


async def _scenario(case, drv, clock):
    from xknx import XKNX
    from xknx.exceptions import ConversionError, DeviceIllegalValue
    from xknx.telegram import Telegram, TelegramDirection
    from xknx.telegram.apci import GroupValueResponse, GroupValueWrite

    xknx = XKNX()
    dev = drv.build(xknx, case["cfg"])
    xknx.devices.async_add(dev)
    try:
        for param, payload in case.get("pre", []):
            t = Telegram(destination_address=DR.ga(drv, param), direction=TelegramDirection.INCOMING,
                         payload=GroupValueWrite(DR.payload_obj(payload)))
            xknx.devices.process(t)
        drain(xknx)
        recs = []
        obs = drv.observe(dev, clock)
        recs.append({"obs": obs})
        for m, args in case["calls"]:
            clock[0] += drv.dt
            try:
                await getattr(dev, m)(*[dec(a) for a in args])
                r = "ok"
            except ConversionError:
                r = "conv"
            except DeviceIllegalValue:
                r = "illegal"
            except Exception as e:  # noqa: BLE001
                r = f"exc:{type(e).__name__}"
            q = drain(xknx)
            sent = []
            for t in q:
                kind = "w" if isinstance(t.payload, GroupValueWrite) else ("r" if isinstance(t.payload, GroupValueResponse) else "?")
                sent.append([DR.ga_name(drv, t.destination_address), kind, render_payload(getattr(t.payload, "value", None)),
                             t.direction is TelegramDirection.OUTGOING])
            perr = None
            for t in q:
                try:
                    xknx.devices.process(t)
                except Exception as e:  # noqa: BLE001
                    perr = f"exc:{type(e).__name__}"
            extra = len(drain(xknx))
            obs = drv.observe(dev, clock)
            rec = {"r": r, "sent": sent, "obs": obs}
            if perr:
                rec["perr"] = perr
            if extra:
                rec["extra"] = extra
            recs.append(rec)
        return recs
    finally:
        try:
            dev.async_remove_tasks()
            xknx.task_registry.stop()
        except Exception:  # noqa: BLE001
            pass
        await asyncio.sleep(0)


def run_impl(case):
    drv = DR.DRIVERS[case["cls"]]
    clock = [T0]
    real = time.time
    time.time = lambda: clock[0]
    try:
        recs = _loop.run_until_complete(_scenario(case, drv, clock))
    finally:
        time.time = real
    tag = ",".join(r.get("r", "-") for r in recs[1:])
    out = f"{case['cls']} {tag} " + json.dumps(recs, sort_keys=True)
    line, expect = drv.model_line(case, recs)
    if line is not None:
        STATS["model_lines"] += 1
    return {"out": out, "line": line, "expect": expect}


def parse_out(out):
    cls, tag, js = out.split(" ", 2)
    return json.loads(js)


# --------------------------------------------------------------------------
# oracle
# --------------------------------------------------------------------------


def oracle(case, out):
    drv = DR.DRIVERS[case["cls"]]
    recs = parse_out(out)
    prev = recs[0]["obs"]
    for i, ((m, args), rec) in enumerate(zip(case["calls"], recs[1:])):
        what = f"{case['cls']}({DR.show_cfg(case)}).{m}({', '.join(show(a) for a in args)})" + (f" [call {i + 1}]" if len(case["calls"]) > 1 else "")
        if rec.get("perr"):
            return f"{what}: processing its own outgoing telegram raised {rec['perr'][4:]}"
        if rec["r"].startswith("exc:"):
            return f"{what}: setter raised {rec['r'][4:]} (neither accepted nor refused with a conversion error)"
        if any(not s[3] for s in rec["sent"]):
            return f"{what}: queued a telegram that is not OUTGOING"
        if rec["r"] in ("conv", "illegal") and rec["sent"]:
            STATS["refused_after_partial_send"] += 1  # outside the property text (the value was not accepted); reported in the evidence
        msg = drv.check(case, prev, m, args, rec)
        if msg:
            return f"{what}: {msg}"
        prev = rec["obs"]
    return None


def nontrivial(case, out):
    recs = parse_out(out)
    return any(r.get("r") == "ok" and r.get("sent") for r in recs[1:])


def outcome_class(out):
    a = out.split(" ", 2)
    return f"{a[0]}:{a[1][:24]}"


def finding_key(case, msg):
    if "int-trunc" in (msg or ""):
        return "int-datapoint-truncates-fraction"
    if "colour-shadowed" in (msg or ""):
        return "light-current-color-reads-other-colour-object"
    return json.dumps({"cls": case["cls"], "cfg": case["cfg"], "pre": case.get("pre", []), "calls": case["calls"]}, sort_keys=True)


def shrink(case, msg):
    """drop calls / pre-state while the oracle still complains"""
    import copy

    best = copy.deepcopy(case)

    def bad(c):
        try:
            r = run_impl(c)
            return oracle(c, r["out"])
        except Exception:  # noqa: BLE001
            return None

    changed = True
    while changed:
        changed = False
        for i in range(len(best["calls"]) - 1, -1, -1):
            if len(best["calls"]) <= 1:
                break
            c = copy.deepcopy(best)
            del c["calls"][i]
            if bad(c):
                best, changed = c, True
        for i in range(len(best.get("pre", [])) - 1, -1, -1):
            c = copy.deepcopy(best)
            del c["pre"][i]
            if bad(c):
                best, changed = c, True
    return best


# --------------------------------------------------------------------------
# generator
# --------------------------------------------------------------------------


def generate(rng, tier):
    from harness import c39_seq

    thorough = tier != "quick"
    # sequences on the SAME device: prior value, then the command under test (falsy targets, partial updates)
    yield from c39_seq.fixed_sequences()
    for name in sorted(DR.DRIVERS):
        drv = DR.DRIVERS[name]
        for _ in range(drv.weight * (80 if not thorough else 2500)):
            yield c39_seq.SEQ[name](rng, drv)
    for name in sorted(DR.DRIVERS):
        drv = DR.DRIVERS[name]
        yield from drv.boundary_cases()
        n = drv.weight * (250 if not thorough else 12000)
        for _ in range(n):
            cfg = drv.gen_cfg(rng)
            pre = drv.gen_pre(rng, cfg)
            calls = [drv.gen_call(rng, cfg) for _ in range(rng.choice([1, 1, 1, 2, 3, 4]))]
            yield {"cls": name, "cfg": cfg, "pre": pre, "calls": calls}


def evidence_extra():
    from harness.c39_base import L_STATS

    STATS["float_gap"] = DR.GAPS[0]
    STATS["unsupported_noop"] = L_STATS.get("unsupported_noop", 0)
    return {"device_setters": discovered_setters(), "setters_without_driver": uncovered_setters(), **STATS}
