"""C19 Data Secure output conforms to the KNX CCM construction.

Mode F.  The real `SecureData.init_from_plain_apdu(...).to_knx()` is compared with
  * the Lean `Spec.specSecure` running the Lean AES-128 (op `dsec spec`): the independent
    implementation written from the specification, proved equal to the xknx-shaped model in Props/C19;
  * a second, Python, from-the-specification reference in the oracle below (single-block AES only).
The crypto library itself (`aes enc|cbcmac|ctr`) is diffed against the `cryptography` package.
"""
from cryptography.hazmat.primitives.ciphers import Cipher, algorithms, modes

from harness.dsec_common import *  # noqa: F403

PROPERTY = "C19"
RULE = ("random keys/addresses/address types/frame formats/TPCI kinds (incl. all 16 connected sequence numbers)/"
        "sequence numbers (boundary dictionary 0,1,2^47,2^48-1)/SCF flag+service combinations, every APDU length "
        "0..240 for both algorithms, plus AES/CBC/CTR primitives vs the cryptography package; "
        "non-trivial = distinct op lines (every case computes a fresh MAC/ciphertext)")
TRUSTED = [
    "Lean AES-128 (XknxVerif.Crypto.AES128): S-box proved equal to the FIPS-197 definition, FIPS-197/SP800-38A vectors by kernel evaluation, diffed against OpenSSL (cryptography) on random inputs each run",
    "specSecure is a reading of KNX AN158 / 03_03_07 §5.1.3 (B0, contiguous A||P padding, key stream continuing after the 4-octet MAC); the AN158 Annex A example frame is in the corpus and decrypts under it",
    "cryptography's CTR streaming (two update() calls continue one key stream) and 128-bit big-endian counter, as modelled in Crypto/CTR.lean",
]
MODULES = ["XknxVerif.Props.C19"]

TPCIS = [["TDataGroup", 0], ["TDataBroadcast", 0], ["TDataTagGroup", 0], ["TDataIndividual", 0]] + \
        [["TDataConnected", s] for s in range(16)]
SEQS = [0, 1, 2, 255, 256, 2**47, 2**48 - 2, 2**48 - 1]
ADDRS = [0, 1, 0x00FF, 0x0100, 0x1101, 0x7FFF, 0x8000, 0xFFFF]


def E(key, blk):
    e = Cipher(algorithms.AES(key), modes.ECB()).encryptor()
    return e.update(blk) + e.finalize()


def xor(a, b):
    return bytes(x ^ y for x, y in zip(a, b))


def pyspec(key, scf, seq, sa, da, group, eff, tp, apdu):
    """KNX Data Secure S-A_Data ASDU from the specification (see Model/DataSecureSpec.lean header)."""
    seqb, sab, dab = seq.to_bytes(6, "big"), sa.to_bytes(2, "big"), da.to_bytes(2, "big")

    def tag(q, a, p):
        b0 = seqb + sab + dab + bytes([0, (0x80 if group else 0) + eff, tp + 3, 0xF1, 0, q])
        data = len(a).to_bytes(2, "big") + a + p
        data += bytes(-len(data) % 16)
        y = E(key, b0)
        for i in range(0, len(data), 16):
            y = E(key, xor(data[i:i + 16], y))
        return y[:4]

    if (scf >> 4) & 7 == 0:
        return seqb + apdu + tag(0, bytes([scf]) + apdu, b"")
    t = tag(len(apdu), bytes([scf]), apdu)
    ctr = seqb + sab + dab + bytes([0, 0, 0, 0, 1])
    s = b"".join(E(key, ctr + bytes([i])) for i in range((4 + len(apdu) + 15) // 16))
    x = xor(t + apdu, s)
    return seqb + x[4:] + x[:4]


def case(rng, alg, n):
    key = rng.randbytes(16)
    seq = rng.choice(SEQS) if rng.random() < 0.3 else rng.randrange(2**48)
    src = rng.choice(ADDRS) if rng.random() < 0.3 else rng.randrange(65536)
    dst = rng.choice(ADDRS) if rng.random() < 0.3 else rng.randrange(65536)
    group = rng.randrange(2)
    eff = rng.choice(FORMATS)
    tp = rng.choice(TPCIS)
    scf = scf_raw(alg, rng.choice(SERVICES), bool(rng.randrange(2)), bool(rng.randrange(2)))
    apdu = rng.randbytes(n)
    t = mk_tpci(tp).to_knx()
    return {"op": f"dsec spec {key.hex()} {scf} {seq} {src} {dst} {group} {eff} {t} {hx(apdu)}", "tpci": tp}


def generate(rng, tier):
    reps = 2 if tier == "quick" else 25
    for _ in range(reps):
        for n in range(0, 241):
            for alg in (ALG_AUTH, ALG_ENC):
                yield case(rng, alg, n)
    for n in (241, 250, 255):  # beyond what a frame can carry, still inside the one-octet length of B0
        for alg in (ALG_AUTH, ALG_ENC):
            yield case(rng, alg, n)
    # primitives against OpenSSL
    for _ in range(200 * reps):
        yield {"op": f"aes enc {rng.randbytes(16).hex()} {rng.randbytes(16).hex()}"}
    for _ in range(60 * reps):
        yield {"op": f"aes cbcmac {rng.randbytes(16).hex()} {hx(rng.randbytes(rng.randrange(1, 300)))}"}
    ctrs = [bytes(16), b"\xff" * 16, b"\x00" * 15 + b"\xff", b"\x12" * 8 + b"\xff" * 8, b"\xff" * 15 + b"\xfe",
            b"\x01" * 14 + b"\xff\xf0"]
    for i in range(60 * reps):
        c = ctrs[i] if i < len(ctrs) else rng.randbytes(16)
        yield {"op": f"aes ctr {rng.randbytes(16).hex()} {c.hex()} {hx(rng.randbytes(rng.randrange(0, 400)))}"}


def run_impl(c):
    t = c["op"].split()
    if t[0] == "aes":
        key = bytes.fromhex(t[2])
        if t[1] == "enc":
            return hx(E(key, bytes.fromhex(t[3])))
        if t[1] == "cbcmac":
            d = unhx(t[3])
            d += bytes(-len(d) % 16)
            e = Cipher(algorithms.AES(key), modes.CBC(bytes(16))).encryptor()
            return hx((e.update(d) + e.finalize())[-16:])
        e = Cipher(algorithms.AES(key), modes.CTR(bytes.fromhex(t[3]))).encryptor()
        return hx(e.update(unhx(t[4])) + e.finalize())
    _, _, key, scf, seq, src, dst, group, eff, _tp, apdu = t
    return real_secure(bytes.fromhex(key), int(scf), int(seq), int(src), int(dst), group == "1", int(eff),
                       c["tpci"], unhx(apdu))


def oracle(c, out):
    t = c["op"].split()
    if t[0] == "aes":
        return None
    _, _, key, scf, seq, src, dst, group, eff, tp, apdu = t
    want = "ok " + hx(pyspec(bytes.fromhex(key), int(scf), int(seq), int(src), int(dst), group == "1", int(eff),
                            int(tp), unhx(apdu)))
    if out != want:
        return (f"xknx ASDU differs from the KNX Data Secure construction for TPCI {c['tpci']} scf={int(scf):#04x} "
                f"len={len(unhx(apdu))}: xknx {out[:80]} spec {want[:80]}")
    return None


def finding_key(c, msg):
    return c["op"]


def shrink(c, msg):
    t = c["op"].split()
    if t[0] != "dsec":
        return c
    # shortest APDU that still fails
    for n in (0, 1, 2):
        t2 = list(t)
        t2[10] = hx(unhx(t[10])[:n])
        c2 = {"op": " ".join(t2), "tpci": c["tpci"]}
        if oracle(c2, run_impl(c2)):
            return c2
    return c


def teardown():
    close_loop()
