"""C38 Eager group-address decoding never changes what devices see.

Two streams:
  rv   one instance of every RemoteValue class x generated GA->DPT tables x telegrams; real
       GroupAddressDPT.set / set_decoded_data / RemoteValue.process, compared branch for branch with the Lean model
       (decoders are parameters of the model: the harness reports what the two decoders involved do with the payload),
       and with a fresh twin that sees no table (oracle);
  dev  one instance of every device class registered in a real XKNX, telegrams through
       telegram_queue.process_telegram_incoming after set_decoded_data, twin XKNX without table; all public state,
       callbacks and queued answers compared (oracle only).
A static introspection scan lists every RemoteValue subclass that sets dpt_class and overrides from_knx/to_knx
(the structural hypothesis `Faithful` of the theorems) — reported in the evidence, and exercised by the rv stream.
"""
from __future__ import annotations

import asyncio
import inspect
import logging
import re

import xknx.devices  # noqa: F401  (imports every remote value class)
from xknx import XKNX
from xknx.dpt import DPTArray, DPTBase, DPTBinary
from xknx.dpt.dpt_20 import HVACControllerMode, HVACOperationMode
from xknx.exceptions import ConversionError, CouldNotParseTelegram
from xknx.remote_value import RemoteValue
from xknx.telegram import IndividualAddress, Telegram, TelegramDirection
from xknx.telegram.apci import GroupValueRead, GroupValueResponse, GroupValueWrite, IndividualAddressRead

from harness import devpool as P

PROPERTY = "C38"
RULE = ("rv stream: every RemoteValue class (generic ones with several value types) x tables {matching DPT in every notation, "
        "mismatching DPT of the same / another payload length, invalid DPT, invalid address, same address twice with different DPTs, "
        "no entry} x telegrams {write, response, read, other APCI; group / internal / individual destination; payload valid for the "
        "remote value, valid for the table DPT only, wrong length, wrong kind (binary/array), undecodable} x prior value {none, same, "
        "different} x always_callback; dev stream: every device class, 1-4 telegrams each; multi stream: for every device class and "
        "every address parameter 2-3 devices sharing an address through that parameter (one of them also on a second address), "
        "3-5 telegrams (full update on the shared address, partial update - xyY / RGBW validity flags - on the second), four worlds "
        "{empty, matching, mismatching, generated table}, every device's public state and the decoded_data of every earlier "
        "telegram compared after each step; non-trivial = distinct case in which the "
        "table has an entry for the destination and the telegram reaches process() of a listening remote value/device")
TRUSTED = [
    "model XknxVerif.Model.EagerDecode is hand-written; datapoint decoders are uninterpreted parameters, the harness feeds the model "
    "the observed outcome class of transcoder.from_knx / remote_value.from_knx on the payload (value identities by Python ==)",
    "hypothesis Faithful (a remote value with dpt_class does not override from_knx) is established by introspection of all "
    "RemoteValue subclasses at run time, not proved",
    "values are immutable in the model and compared by ==; Python object identity / in-place mutation of a decoded value shared "
    "through telegram.decoded_data is covered by the multi stream (several devices, several telegrams), not by the theorems",
]
ASSUMPTIONS = ["datapoint decoders raise declared errors only (C07) — otherwise set_decoded_data propagates the exception "
               "(theorem setDecodedData_raises_iff); the oracle reports any such exception as a violation with the input"]
CASE_TIMEOUT = 20.0

# ----------------------------------------------------------------------------- introspection

def _subclasses(c):
    out = []
    for s in c.__subclasses__():
        out.append(s)
        out.extend(_subclasses(s))
    return out


RV_CLASSES = {c.__name__: c for c in sorted(set(_subclasses(RemoteValue)), key=lambda c: c.__name__)
              if not inspect.isabstract(c) and not c.__name__.startswith("_")}
ALL_DPTS = sorted({c for c in DPTBase.dpt_class_tree()}, key=lambda c: (c.dpt_main_number or 0, c.dpt_sub_number or 0, c.__name__))


def _dpt_id(c):
    if c not in ALL_DPTS:
        ALL_DPTS.append(c)
    return ALL_DPTS.index(c)


def static_scan():
    rows = []
    for c in sorted(set(_subclasses(RemoteValue)), key=lambda c: c.__name__):
        cls_dpt = c.__dict__.get("dpt_class", None)
        has_dpt = any(isinstance(k.__dict__.get("dpt_class"), type) for k in c.__mro__) or \
            any("dpt_class" in getattr(k, "__slots__", ()) for k in c.__mro__)
        ov_from = c.from_knx is not RemoteValue.from_knx
        ov_to = c.to_knx is not RemoteValue.to_knx
        rows.append({"class": c.__name__, "sets_dpt_class": bool(has_dpt), "overrides_from_knx": ov_from,
                     "overrides_to_knx": ov_to, "inconsistent": bool(has_dpt and (ov_from or ov_to)),
                     "class_level_dpt": getattr(cls_dpt, "__name__", None)})
    return rows


def evidence_extra():
    rows = static_scan()
    return {"remote_value_scan": {"classes": len(rows),
                                  "inconsistent": [r["class"] for r in rows if r["inconsistent"]],
                                  "with_dpt_class": [r["class"] for r in rows if r["sets_dpt_class"]],
                                  "own_codec": [r["class"] for r in rows if r["overrides_from_knx"]]},
            "rv_classes_exercised": sorted(RV_CLASSES), "device_classes_exercised": sorted(P.device_classes())}


# remote value constructors: name -> list of kwargs variants
def _rv_variants():
    from xknx.dpt import DPT2ByteFloat, DPT2ByteUnsigned, DPT4ByteFloat, DPTScaling  # noqa: F401
    v = {n: [{}] for n in RV_CLASSES}
    v["RemoteValueBinaryHeatCool"] = [{"controller_mode": HVACControllerMode.HEAT}, {"controller_mode": HVACControllerMode.COOL}]
    v["RemoteValueBinaryOperationMode"] = [{"operation_mode": HVACOperationMode.COMFORT}, {"operation_mode": HVACOperationMode.STANDBY}]
    v["RemoteValueByLength"] = [{"dpt_classes": (DPT2ByteFloat, DPT4ByteFloat)}, {"dpt_classes": (DPT2ByteUnsigned,)}]
    v["RemoteValueRaw"] = [{"payload_length": 0}, {"payload_length": 1}, {"payload_length": 2}]
    v["RemoteValueSensor"] = [{"value_type": t} for t in ("temperature", "percent", "string", "2byte_unsigned", "1.001", "9.004",
                                                          "time", "color_rgb", "5.010", "pulse_4_ucount", "latin_1", "17.001")]
    v["RemoteValueNumeric"] = [{"value_type": t} for t in ("temperature", "percent", "power", "percentV16", "7.001", "14.056")]
    v["RemoteValueString"] = [{}, {"value_type": "latin_1"}]
    v["RemoteValueScaling"] = [{}, {"range_from": 0, "range_to": 255}, {"range_from": 100, "range_to": 0}]
    v["RemoteValueSwitch"] = [{}, {"invert": True}]
    v["RemoteValueUpDown"] = [{}, {"invert": True}]
    v["RemoteValueStep"] = [{}, {"invert": True}]
    v["RemoteValueSetpointShift"] = [{}, {"setpoint_shift_step": 0.5}]
    return v


RV_VARIANTS = _rv_variants()


def _build_rv(xknx, name, variant, cb):
    kw = dict(RV_VARIANTS[name][variant % len(RV_VARIANTS[name])])
    return RV_CLASSES[name](xknx, group_address=P.addr_obj(0), group_address_state=[P.addr_obj(1), P.addr_obj(4)],
                            after_update_cb=cb, **kw)


def _dpt_notations(cls, k):
    """the same DPT class in the notations GroupAddressDPT.set accepts"""
    opts = []            # (a DPT class object is NOT a notation parse_transcoder accepts — it is in INVALID_DPTS)
    if cls.dpt_main_number is not None:
        opts.append({"main": cls.dpt_main_number, "sub": cls.dpt_sub_number})
        if cls.dpt_sub_number is not None:
            opts.append(f"{cls.dpt_main_number}.{cls.dpt_sub_number:03d}")
        else:
            opts.append(cls.dpt_main_number)
    if getattr(cls, "value_type", None):
        opts.append(cls.value_type)
    return opts[k % len(opts)]


INVALID_DPTS = ["nonsense", 9999, "9.9999", {"main": "x", "sub": None}, None, 3.14, [9, 1], "", (9, 1), "1.", {"main": None}, DPTBase, ALL_DPTS[40]]
INVALID_ADDRS = ["abc", "1/2/3/4", 70000, "32/0/0", -1, "i-", None, "0/0/0", 0, 1.5, "2/2048", "1/8/0"]


def _payload(spec):
    return DPTBinary(spec[1]) if spec[0] == "b" else DPTArray(tuple(spec[1]))


def _apci(kind, payload):
    if kind == "w":
        return GroupValueWrite(payload)
    if kind == "r":
        return GroupValueResponse(payload)
    if kind == "q":
        return GroupValueRead()
    return IndividualAddressRead()


def _dst(d):
    return IndividualAddress("1.2.3") if d == "x" else P.addr_obj(d)


def _table_arg(tbl, meta=None):
    """[[addr, dpt], ...] (JSON) -> mapping for GroupAddressDPT.set; `meta` receives, per mapping key, what the entry
    denotes according to the SPEC (address index or x, DPT id or x) — the model's input, independent of the implementation"""
    m = {}
    for a, d in tbl:
        addr = INVALID_ADDRS[a[1] % len(INVALID_ADDRS)] if a[0] == "bad" else P.addr_arg(a[1], a[2])
        if d[0] == "bad":
            dpt = INVALID_DPTS[d[1] % len(INVALID_DPTS)]
        else:
            dpt = _dpt_notations(ALL_DPTS[d[1] % len(ALL_DPTS)], d[2])
        try:
            hash(addr)
        except TypeError:
            continue
        m[addr] = dpt
        if meta is not None:
            meta[addr] = ("x" if a[0] == "bad" else str(a[1]), "x" if d[0] == "bad" else str(_dpt_id(ALL_DPTS[d[1] % len(ALL_DPTS)])))
    return m


def _run_tbl(case):
    logging.disable(logging.CRITICAL)
    try:
        g = XKNX().group_address_dpt
        toks = []
        for part in case["parts"]:              # several set() calls accumulate
            meta = {}
            m = _table_arg(part, meta)
            try:
                g.set(m)
            except Exception as e:  # noqa: BLE001
                return {"out": f"set-raised:{type(e).__name__}", "line": None, "diff": None, "hit": False}
            toks += [f"{meta[k][0]}:{meta[k][1]}" for k in m]
        n = len(P.ADDR_POOL)
        got = []
        for i in range(n):
            c = g.get(P.addr_obj(i))
            got.append("-" if c is None else str(_dpt_id(c)))
        out = ",".join(got)
        return {"out": out, "line": f"eager table {n} {','.join(toks) if toks else '-'}", "expect": out, "diff": None,
                "hit": any(x != "-" for x in got)}
    finally:
        logging.disable(logging.NOTSET)


# ----------------------------------------------------------------------------- generation

def _payload_for_dpt(rng, cls):
    pt = getattr(cls, "payload_type", None)
    if pt is DPTBinary:
        return ["b", rng.choice([0, 1, 1, 0, 2, 3, 7, 63])]
    n = getattr(cls, "payload_length", 1) or 1
    edge = rng.random()
    if edge < 0.15:
        return ["a", [0] * n]
    if edge < 0.3:
        return ["a", [255] * n]
    return ["a", [rng.randrange(256) for _ in range(n)]]


def _random_payload(rng):
    r = rng.random()
    if r < 0.3:
        return ["b", rng.choice([0, 1, 2, 63])]
    n = rng.choice([0, 1, 1, 2, 2, 3, 4, 4, 6, 8, 14, 15])
    return ["a", [rng.randrange(256) for _ in range(n)]]


def _dpt_index(cls):
    return ALL_DPTS.index(cls)


def _same_length_dpts(cls):
    pt, n = getattr(cls, "payload_type", None), getattr(cls, "payload_length", None)
    return [c for c in ALL_DPTS if c is not cls and getattr(c, "payload_type", None) is pt and getattr(c, "payload_length", None) == n]


def _gen_table(rng, dsts, match_cls):
    """table entries for the given destination indices; match_cls: the DPT the listener uses (or None)"""
    tbl = []
    for d in dsts:
        r = rng.random()
        entries = []
        if r < 0.30 and match_cls is not None:
            entries.append(["ok", _dpt_index(match_cls), rng.randrange(6)])
        elif r < 0.50 and match_cls is not None and _same_length_dpts(match_cls):
            entries.append(["ok", _dpt_index(rng.choice(_same_length_dpts(match_cls))), rng.randrange(6)])
        elif r < 0.68:
            entries.append(["ok", rng.randrange(len(ALL_DPTS)), rng.randrange(6)])
        elif r < 0.76:
            entries.append(["bad", rng.randrange(len(INVALID_DPTS))])
        elif r < 0.90:   # the same address twice, different DPTs / notations (last valid one wins)
            first = ["ok", rng.randrange(len(ALL_DPTS)), rng.randrange(6)]
            second = ["ok", _dpt_index(match_cls), rng.randrange(6)] if (match_cls is not None and rng.random() < 0.5) \
                else rng.choice([["ok", rng.randrange(len(ALL_DPTS)), rng.randrange(6)], ["bad", rng.randrange(len(INVALID_DPTS))]])
            entries += [first, second]
        # else: no entry
        for k, e in enumerate(entries):
            tbl.append([["ok", d, rng.randrange(8) + k], e])
    if rng.random() < 0.2:
        tbl.insert(rng.randrange(len(tbl) + 1), [["bad", rng.randrange(len(INVALID_ADDRS))], ["ok", rng.randrange(len(ALL_DPTS)), 0]])
    return tbl


def _rv_dpt_class(name, variant):
    """the DPT class an instance decodes with (None when it brings its own codec) — found on a throw-away instance"""
    rv = _build_rv(XKNX(), name, variant, None)
    c = getattr(rv, "dpt_class", None)
    if c is not None:
        return c
    c = getattr(rv, "_internal_dpt_class", None)
    if c is not None:
        return c
    return {"RemoteValueSwitch": "b", "RemoteValueUpDown": "b", "RemoteValueStep": "b", "RemoteValueBinaryHeatCool": "b",
            "RemoteValueBinaryOperationMode": "b"}.get(name, None)


def generate(rng, tier):
    thorough = tier == "thorough"
    from xknx.dpt import DPTScaling, DPTTemperature, DPTValue1Count
    own = {"RemoteValueScaling": DPTScaling, "RemoteValueColorRGBW": None, "RemoteValueRaw": None,
           "RemoteValueSetpointShift": DPTValue1Count, "RemoteValueByLength": DPTTemperature}
    reps = 150 if thorough else 30
    # table stream: GroupAddressDPT.set / get alone
    for _ in range(1500 if thorough else 300):
        parts = []
        for _p in range(rng.choice([1, 1, 2, 3])):
            part = _gen_table(rng, [rng.randrange(len(P.ADDR_POOL)) for _ in range(rng.randint(0, 6))], rng.choice(ALL_DPTS))
            rng.shuffle(part)
            parts.append(part)
        yield {"kind": "tbl", "parts": parts}
    for name in RV_CLASSES:
        for variant in range(len(RV_VARIANTS[name])):
            c = _rv_dpt_class(name, variant)
            binary = c == "b"
            mcls = c if isinstance(c, type) else own.get(name)
            for _ in range(reps):
                dst = rng.choice([0, 0, 1, 1, 4, 2, "x"])
                r = rng.random()
                if binary and r < 0.6:
                    pay = ["b", rng.choice([0, 1])]
                elif mcls is not None and r < 0.6:
                    pay = _payload_for_dpt(rng, mcls)
                elif name == "RemoteValueColorRGBW" and r < 0.6:
                    pay = ["a", [rng.randrange(256) for _ in range(6)]]
                elif name == "RemoteValueRaw" and r < 0.6:
                    n = RV_VARIANTS[name][variant]["payload_length"]
                    pay = ["b", rng.randrange(2)] if n == 0 else ["a", [rng.randrange(256) for _ in range(n)]]
                else:
                    pay = _random_payload(rng)
                from xknx.dpt import DPTSwitch
                tbl = _gen_table(rng, sorted({d for d in (dst, rng.choice([0, 1, 2])) if d != "x"}),
                                 DPTSwitch if binary else mcls)
                prior = None
                pr = rng.random()
                if pr < 0.25:
                    prior = pay
                elif pr < 0.5:
                    prior = ["b", 1 - pay[1]] if pay[0] == "b" and pay[1] in (0, 1) else \
                        (_payload_for_dpt(rng, mcls) if mcls is not None else _random_payload(rng))
                yield {"kind": "rv", "rv": name, "variant": variant, "tbl": tbl,
                       "tg": {"dst": dst, "apci": rng.choice(["w", "w", "w", "r", "r", "q", "o"]), "payload": pay},
                       "prior": prior, "always": rng.random() < 0.25}
    # multi stream: 2-3 devices of one class sharing an address through the same constructor parameter, 3-5 telegrams
    # (full update on the shared address, then a partial update on an address only one of them listens to, ...)
    for rep in range(10 if thorough else 2):
        for cname, cls in P.device_classes().items():
            for param in P.ga_params(cls):
                yield {"kind": "multi", "cls": cname, "param": param, "seed": rng.randrange(1 << 30)}
    # device stream
    ndev = 80 if thorough else 15
    for cname in P.device_classes():
        for k in range(ndev):
            spec = P.random_spec(rng, cname, 6, rng.choice([0.3, 0.6, 0.9]))
            yield {"kind": "dev", "spec": spec, "seed": rng.randrange(1 << 30), "ntg": rng.randint(1, 4)}


# ----------------------------------------------------------------------------- implementation: rv stream

class _Ids:
    """value -> small id by Python == (what `self._value != decoded_payload` uses); id 0 is None"""

    def __init__(self):
        self.vals = [None]
        self.irreflexive = False       # a value with v != v (NaN): Python's comparison is not an equality

    def __call__(self, v):
        try:
            if v is not None and bool(v != v):
                self.irreflexive = True
        except Exception:  # noqa: BLE001
            pass
        for i, u in enumerate(self.vals):
            try:
                if (u is None) != (v is None):
                    continue
                if u is v or u == v:
                    return i
            except Exception:  # noqa: BLE001
                pass
        self.vals.append(v)
        return len(self.vals) - 1


def _decode_outcome(fn, payload, ids):
    try:
        return f"v{ids(fn(payload))}"
    except (ConversionError, CouldNotParseTelegram):
        return "e"
    except Exception as e:  # noqa: BLE001
        return f"x:{type(e).__name__}"


def _strip(t):
    if t is None:
        return None
    return (str(t.destination_address), type(t.payload).__name__, repr(getattr(t.payload, "value", None)), t.direction.value)


def _rv_state(rv, cbs):
    return {"value": rv.value, "payload": rv.last_payload, "telegram": _strip(rv.telegram), "callbacks": list(cbs)}


def _run_rv(case):
    logging.disable(logging.CRITICAL)
    try:
        ids = _Ids()
        xw, xo, xp = XKNX(), XKNX(), XKNX()
        cw, co = [], []
        rvw = _build_rv(xw, case["rv"], case["variant"], cw.append)
        rvo = _build_rv(xo, case["rv"], case["variant"], co.append)
        rvp = _build_rv(xp, case["rv"], case["variant"], None)      # only asked what from_knx does with the payload
        try:
            xw.group_address_dpt.set(_table_arg(case["tbl"]))
            setres = "ok"
        except Exception as e:  # noqa: BLE001
            setres = f"set-raised:{type(e).__name__}"
        tg = case["tg"]
        always = bool(case["always"])
        if case["prior"] is not None:
            for rv in (rvw, rvo, rvp):
                try:
                    rv.process(Telegram(destination_address=P.addr_obj(0), payload=GroupValueWrite(_payload(case["prior"]))))
                except Exception:  # noqa: BLE001
                    pass
            del cw[:], co[:]
        prior = "-" if rvw.value is None else f"v{ids(rvw.value)}"
        payload = _payload(tg["payload"])

        def mk():
            return Telegram(destination_address=_dst(tg["dst"]), payload=_apci(tg["apci"], payload),
                            direction=TelegramDirection.INCOMING)

        tw, to = mk(), mk()
        dst = tw.destination_address
        grp = tg["dst"] != "x"
        transcoder = xw.group_address_dpt.get(dst) if grp else None
        # the two decoders the model is parametrised with
        dtbl = "-" if transcoder is None else _decode_outcome(transcoder.from_knx, payload, ids)
        drv = _decode_outcome(rvp.from_knx, payload, ids)
        # --- with table
        try:
            xw.group_address_dpt.set_decoded_data(tw)
            dec = "-" if tw.decoded_data is None else f"{_dpt_id(tw.decoded_data.transcoder)}:v{ids(tw.decoded_data.value)}"
            sdd = None
        except AssertionError:
            sdd = "!assert"
        except Exception as e:  # noqa: BLE001
            sdd = f"!other:{type(e).__name__}"

        def proc(rv, t):
            try:
                return "T" if rv.process(t, always_callback=always) else "F"
            except (ConversionError, CouldNotParseTelegram):
                return "!declared"
            except Exception as e:  # noqa: BLE001
                return f"!other:{type(e).__name__}"

        if sdd is None:
            rw = proc(rvw, tw)
            out = dec + " " + rw
            if not rw.startswith("!"):
                out += f" {'-' if rvw.value is None else 'v%d' % ids(rvw.value)} {1 if rvw.last_payload is payload else 0} " \
                       f"{'v%d' % ids(cw[-1]) if cw else '-'}"
        else:
            rw = None
            out = sdd
        # --- without table entries (fresh twin, same prior, empty GroupAddressDPT)
        try:
            xo.group_address_dpt.set_decoded_data(to)
            sdo = None
        except AssertionError:
            sdo = "!assert"
        except Exception as e:  # noqa: BLE001
            sdo = f"!other:{type(e).__name__}"
        ro = proc(rvo, to) if sdo is None else None
        same = None
        if sdd != sdo:
            same = f"set_decoded_data ended {sdd} with the table, {sdo} with an empty table (then process() -> {ro})"
        elif sdd is not None:
            same = None
        elif rw != ro:
            same = f"process() returned {rw} with the table, {ro} without"
        else:
            a, b = _rv_state(rvw, cw), _rv_state(rvo, co)
            for k in a:
                if not _eq(a[k], b[k]):
                    same = f"{k} is {a[k]!r} with the table, {b[k]!r} without"
                    break
        inrv = grp and dst in set(rvw.group_addresses())
        rvc = getattr(rvw, "dpt_class", None)
        line = "eager proc {} {} {} {} {} {} {} {} {}".format(
            "-" if transcoder is None else _dpt_id(transcoder),
            "-" if rvc is None else _dpt_id(rvc),
            1 if inrv else 0, tg["apci"], 1 if grp else 0, dtbl.split(":")[0], drv.split(":")[0], prior, 1 if always else 0)
        expect = re.sub(r"(!other):\w+", r"\1", out)
        if ids.irreflexive:
            line = None                 # NaN: `!=` is irreflexive, outside the model's equality; the twin comparison still runs
        return {"out": out + (" |" + setres if setres != "ok" else ""), "line": line, "expect": expect, "diff": same,
                "hit": bool(transcoder is not None and inrv and tg["apci"] in "wr")}
    finally:
        logging.disable(logging.NOTSET)


def _eq(a, b):
    try:
        return type(a) is type(b) and (bool(a == b) or repr(a) == repr(b))     # repr: NaN payloads
    except Exception:  # noqa: BLE001
        return a is b


# ----------------------------------------------------------------------------- implementation: device stream

_LOOP = None


def setup():
    global _LOOP
    _LOOP = asyncio.new_event_loop()
    asyncio.set_event_loop(_LOOP)


def teardown():
    global _LOOP
    if _LOOP is not None:
        _LOOP.close()
        _LOOP = None


def _public_state(dev):
    out = {}
    for i, rv in enumerate(dev._iter_remote_values()):
        out[f"rv{i}:{type(rv).__name__}:{rv.feature_name}"] = (repr(rv.value), repr(rv.last_payload), _strip(rv.telegram))
    for name in dir(type(dev)):
        if name.startswith("_"):
            continue
        attr = inspect.getattr_static(type(dev), name)
        try:
            if isinstance(attr, property):
                v = getattr(dev, name)
                # a stored telegram carries decoded_data by design (Telegram.__eq__ ignores it): compare the rest
                out["prop:" + name] = repr(_strip(v)) if isinstance(v, Telegram) else repr(v)
            elif name.startswith(("is_", "current_", "resolve_", "supports_", "has_", "position_", "unit_", "ha_")) and callable(getattr(dev, name)):
                f = getattr(dev, name)
                if not inspect.iscoroutinefunction(f) and not [p for p in inspect.signature(f).parameters.values()
                                                                if p.default is inspect.Parameter.empty and p.kind in (p.POSITIONAL_ONLY, p.POSITIONAL_OR_KEYWORD)]:
                    out["call:" + name] = repr(f())
        except Exception as e:  # noqa: BLE001
            out["exc:" + name] = type(e).__name__
    return out


def _drain(xk):
    out = []
    while not xk.telegrams.empty():
        t = xk.telegrams.get_nowait()
        xk.telegrams.task_done()
        out.append(_strip(t))
    return out


async def _run_dev_async(case):
    import random
    rng = random.Random(case["seed"])
    spec = case["spec"]
    worlds = []
    for with_table in (True, False):
        xk = XKNX()
        cbs = []
        dev = P.build(xk, spec, "dev")
        dev.register_device_updated_cb(lambda d, cbs=cbs: cbs.append(1))
        xk.devices.async_add(dev)
        worlds.append((xk, dev, cbs))
    devw = worlds[0][1]
    amap = P.addr_index_map(len(P.ADDR_POOL))
    gas = sorted(amap[a] for a in devw.group_addresses())
    # listeners per address -> their DPT class (structure-aware payloads and matching table entries)
    by_addr = {}
    for rv in devw._iter_remote_values():
        for a in rv.group_addresses():
            by_addr.setdefault(amap[a], []).append(rv)
    tbl = []
    for g in range(6):
        rvs = by_addr.get(g, [])
        c = None
        if rvs:
            c = getattr(rng.choice(rvs), "dpt_class", None)
        tbl += _gen_table(rng, [g], c if isinstance(c, type) and c in ALL_DPTS else None)
    try:
        worlds[0][0].group_address_dpt.set(_table_arg(tbl))
    except Exception as e:  # noqa: BLE001
        return {"out": f"dev {spec['cls']} set-raised:{type(e).__name__}", "line": None, "diff": None, "hit": False}
    hit = False
    for k in range(case["ntg"]):
        dsti = rng.choice(gas) if gas and rng.random() < 0.85 else rng.randrange(6)
        rvs = by_addr.get(dsti, [])
        c = getattr(rng.choice(rvs), "dpt_class", None) if rvs else None
        if isinstance(c, type) and rng.random() < 0.7:
            pay = _payload_for_dpt(rng, c)
        else:
            pay = _random_payload(rng)
        apci = rng.choice(["w", "w", "w", "r", "q"])
        res = []
        for (xk, dev, cbs), with_table in zip(worlds, (True, False)):
            t = Telegram(destination_address=P.addr_obj(dsti), payload=_apci(apci, _payload(pay)), direction=TelegramDirection.INCOMING)
            r = "ok"
            try:
                xk.group_address_dpt.set_decoded_data(t)       # the twin's table is empty
                if t.decoded_data is not None and rvs:
                    hit = True
            except Exception as e:  # noqa: BLE001
                r = f"set_decoded_data raised {type(e).__name__}"
            if r == "ok":
                try:
                    await xk.telegram_queue.process_telegram_incoming(t)
                except (ConversionError, CouldNotParseTelegram) as e:
                    r = f"declared:{type(e).__name__}"
                except Exception as e:  # noqa: BLE001
                    r = f"other:{type(e).__name__}"
            await asyncio.sleep(0)
            res.append((r, _public_state(dev), _drain(xk), len(cbs)))
        (r1, s1, q1, n1), (r2, s2, q2, n2) = res
        where = f"telegram #{k} {apci} to {P.ADDR_POOL[dsti]} payload {pay} table {tbl}"
        if r1 != r2:
            return {"out": f"dev {spec['cls']} differs", "line": None, "hit": hit,
                    "diff": f"{where}: processing ended '{r1}' with the table, '{r2}' without"}
        for key in sorted(set(s1) | set(s2)):
            if s1.get(key) != s2.get(key):
                return {"out": f"dev {spec['cls']} differs", "line": None, "hit": hit,
                        "diff": f"{where}: {key} = {s1.get(key)} with the table, {s2.get(key)} without"}
        if q1 != q2 or n1 != n2:
            return {"out": f"dev {spec['cls']} differs", "line": None, "hit": hit,
                    "diff": f"{where}: queued telegrams/callbacks {q1}/{n1} with the table, {q2}/{n2} without"}
    for xk, dev, _ in worlds:
        try:
            xk.devices.async_remove(dev)
        except Exception:  # noqa: BLE001
            pass
        xk.task_registry.stop()
    return {"out": f"dev {spec['cls']} same", "line": None, "diff": None, "hit": hit}


def _full_partial(rng, rv, partial):
    """payload for the remote value's type; for the merge-capable colour types with all / only some validity flags set"""
    c = getattr(rv, "dpt_class", None)
    name = getattr(c, "__name__", "") if isinstance(c, type) else type(rv).__name__
    if name == "DPTColorXYY":      # x(2) y(2) brightness(1) flags: bit1 colour valid, bit0 brightness valid
        return ["a", [rng.randrange(256) for _ in range(5)] + [rng.choice([1, 2]) if partial else 3]]
    if name == "RemoteValueColorRGBW":   # r g b w, reserved, validity nibble
        return ["a", [rng.randrange(256) for _ in range(4)] + [0, rng.choice([1, 2, 4, 8, 3, 12, 7]) if partial else 15]]
    if isinstance(c, type):
        return _payload_for_dpt(rng, c)
    if type(rv).__name__ in ("RemoteValueSwitch", "RemoteValueUpDown", "RemoteValueStep", "RemoteValueBinaryHeatCool",
                             "RemoteValueBinaryOperationMode"):
        return ["b", rng.randrange(2)]
    if type(rv).__name__ in ("RemoteValueScaling", "RemoteValueDptValue1Ucount"):
        return ["a", [rng.randrange(256)]]
    return _random_payload(rng)


def _decoded_consistent(t):
    """a telegram still carries what its transcoder decodes from its payload"""
    d = t.decoded_data
    if d is None:
        return True
    try:
        return _eq(d.value, d.transcoder.from_knx(t.payload.value))
    except Exception:  # noqa: BLE001
        return False


async def _run_multi_async(case):
    import random
    rng = random.Random(case["seed"])
    cname, param = case["cls"], case["param"]
    shared, extra = 0, 1
    specs = []
    for k, lst in enumerate([[shared], [shared, extra]] + ([[extra]] if rng.random() < 0.5 else [])):
        sp = P.random_spec(rng, cname, 6, rng.choice([0.0, 0.1, 0.3]))
        sp["ga"] = {q: v for q, v in sp["ga"].items() if q != param}
        sp["ga"][param] = [lst, 6 + k]
        specs.append(sp)
    if rng.random() < 0.3:
        specs.reverse()                     # registration order: the narrow listener first or last
    # a throw-away instance tells which remote values (and DPT classes) sit behind the addresses
    probe = P.build_pool(XKNX(), specs)
    amap = P.addr_index_map(len(P.ADDR_POOL))
    by_addr = {}
    for d in probe:
        for rv in d._iter_remote_values():
            for a in rv.group_addresses():
                by_addr.setdefault(amap[a], []).append(rv)
    match, mismatch = [], []
    for g, rvs in sorted(by_addr.items()):
        cs = [getattr(rv, "dpt_class", None) for rv in rvs]
        cs = [c for c in cs if isinstance(c, type) and c in ALL_DPTS]
        if cs:
            c = cs[0]
            match.append([["ok", g, rng.randrange(8)], ["ok", _dpt_index(c), rng.randrange(6)]])
            alt = _same_length_dpts(c)
            if alt:
                mismatch.append([["ok", g, rng.randrange(8)], ["ok", _dpt_index(rng.choice(alt)), rng.randrange(6)]])
        else:
            mismatch.append([["ok", g, rng.randrange(8)], ["ok", rng.randrange(len(ALL_DPTS)), rng.randrange(6)]])
    # the remote value(s) the parameter under test feeds (by feature name), preferred when crafting payloads
    pdev = P.build(XKNX(), {"cls": cname, "extra": 0, "ga": {param: [[shared], 0]}}, "probe")
    target = {rv.feature_name for rv in pdev._iter_remote_values() if P.addr_obj(shared) in set(rv.group_addresses())}

    def pick(rvs):
        pref = [rv for rv in rvs if rv.feature_name in target]
        return rng.choice(pref) if pref and rng.random() < 0.8 else rng.choice(rvs)

    tables = {"empty": [], "matching": match, "mismatching": mismatch,
              "generated": _gen_table(rng, sorted(by_addr), None)}
    worlds = {}
    for wname, tbl in tables.items():
        xk = XKNX()
        devs = P.build_pool(xk, specs)
        for d in devs:
            xk.devices.async_add(d)
        seen = []
        xk.telegram_queue.register_telegram_received_cb(seen.append)
        try:
            xk.group_address_dpt.set(_table_arg(tbl))
        except Exception as e:  # noqa: BLE001
            return {"out": f"multi {cname} set-raised:{type(e).__name__}", "line": None, "diff": None, "hit": False}
        worlds[wname] = (xk, devs, seen)
    # telegram sequence
    seq = []
    n = rng.randint(3, 5)
    for k in range(n):
        dsti = shared if k == 0 else (extra if k == 1 else rng.choice([shared, extra, extra, rng.randrange(6)]))
        rvs = by_addr.get(dsti, [])
        pay = _full_partial(rng, pick(rvs), partial=(k >= 1 and rng.random() < 0.8)) if rvs and rng.random() < 0.9 \
            else _random_payload(rng)
        seq.append((dsti, rng.choice(["w", "w", "w", "r"]), pay))
    hit = False
    for k, (dsti, apci, pay) in enumerate(seq):
        res = {}
        for wname, (xk, devs, seen) in worlds.items():
            t = Telegram(destination_address=P.addr_obj(dsti), payload=_apci(apci, _payload(pay)), direction=TelegramDirection.INCOMING)
            r = "ok"
            try:
                xk.group_address_dpt.set_decoded_data(t)
                if t.decoded_data is not None:
                    hit = True
            except Exception as e:  # noqa: BLE001
                r = f"set_decoded_data raised {type(e).__name__}"
            if r == "ok":
                try:
                    await xk.telegram_queue.process_telegram_incoming(t)
                except (ConversionError, CouldNotParseTelegram) as e:
                    r = f"declared:{type(e).__name__}"
                except Exception as e:  # noqa: BLE001
                    r = f"other:{type(e).__name__}"
            await asyncio.sleep(0)
            stale = [j for j, u in enumerate(seen) if not _decoded_consistent(u)]
            res[wname] = (r, [_public_state(d) for d in devs], _drain(xk), stale)
        where = f"{cname}.{param}: telegram #{k} {apci} to {P.ADDR_POOL[dsti]} payload {pay} (sequence {seq[:k + 1]})"
        r0, s0, q0, _ = res["empty"]
        for wname, (r1, s1, q1, stale) in res.items():
            if stale:
                return {"out": f"multi {cname} differs", "line": None, "hit": hit,
                        "diff": f"{where}: with the {wname} table, telegram(s) #{stale} received earlier no longer carry what their "
                                f"type decodes from their payload (decoded_data mutated)"}
            if r1 != r0:
                return {"out": f"multi {cname} differs", "line": None, "hit": hit,
                        "diff": f"{where}: processing ended '{r1}' with the {wname} table, '{r0}' with an empty table"}
            for di, (a, b) in enumerate(zip(s1, s0)):
                for key in sorted(set(a) | set(b)):
                    if a.get(key) != b.get(key):
                        return {"out": f"multi {cname} differs", "line": None, "hit": hit,
                                "diff": f"{where}: device #{di} {key} = {a.get(key)} with the {wname} table, {b.get(key)} with an empty table"}
            if q1 != q0:
                return {"out": f"multi {cname} differs", "line": None, "hit": hit,
                        "diff": f"{where}: queued telegrams {q1} with the {wname} table, {q0} with an empty table"}
    for xk, devs, _ in worlds.values():
        xk.task_registry.stop()
    return {"out": f"multi {cname} same", "line": None, "diff": None, "hit": hit}


def _run_async(coro_fn, case):
    logging.disable(logging.CRITICAL)
    try:
        loop = _LOOP or asyncio.new_event_loop()
        try:
            return loop.run_until_complete(coro_fn(case))
        finally:
            for t in asyncio.all_tasks(loop):
                t.cancel()
            loop.run_until_complete(asyncio.sleep(0))
    finally:
        logging.disable(logging.NOTSET)


def _run_dev(case):
    logging.disable(logging.CRITICAL)
    try:
        loop = _LOOP or asyncio.new_event_loop()
        try:
            return loop.run_until_complete(_run_dev_async(case))
        finally:
            for t in asyncio.all_tasks(loop):
                t.cancel()
            loop.run_until_complete(asyncio.sleep(0))
    finally:
        logging.disable(logging.NOTSET)


_LAST = {}


def run_impl(case):
    k = case["kind"]
    r = _run_rv(case) if k == "rv" else _run_tbl(case) if k == "tbl" else \
        _run_async(_run_multi_async, case) if k == "multi" else _run_dev(case)
    _LAST["case"], _LAST["res"] = case, r
    return r


# ----------------------------------------------------------------------------- oracle

def _res_for(case, out):
    if _LAST.get("case") is case:
        return _LAST["res"]
    return run_impl(case)


def oracle(case, out):
    r = _res_for(case, out)
    if r.get("diff"):
        return r["diff"]
    if "set-raised" in out:
        return f"GroupAddressDPT.set raised on the generated table: {out}"
    return None


def nontrivial(case, out):
    return bool(_res_for(case, out).get("hit"))


def outcome_class(out):
    if out.startswith("dev") or out.startswith("multi"):
        return out.split()[0] + " " + out.split()[-1]
    if "," in out or out.startswith("set-raised"):
        return "table"
    t = out.split()
    return "rv decoded=%s result=%s" % ("yes" if t[0] not in ("-",) and not t[0].startswith("!") else t[0][:7],
                                         t[1].split(":")[0] if len(t) > 1 else "-")


def finding_key(case, msg):
    if case["kind"] == "rv":
        return f"rv {case['rv']}#{case['variant']} {case['tg']} {case['tbl']}"
    if case["kind"] == "tbl":
        return f"tbl {case['parts']}"
    if case["kind"] == "multi":
        return f"multi {case['cls']}.{case['param']} seed={case['seed']}"
    return f"dev {case['spec']['cls']} seed={case['seed']}"
