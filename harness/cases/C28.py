"""C28 IP Secure wrapping is correct, tamper-evident and standard-conformant (mode F).

Per op line the real xknx code and the Lean model (AES-128 instantiation of `Model/IPSecure.lean`) must produce
the same octets / verdict; the oracle restates the property on xknx alone, against `harness/ipsec_ref.py`, an
independent implementation of the KNX IP Secure constructions (own CBC-MAC / counter mode over the AES block
primitive of `cryptography`; checked against the specification's example values).

  wrap       _IPSecureTransportLayer.encrypt_frame on frames of every body type / length, random key, session id,
             sequence information, serial number, message tag
  unwrapc    KNXIPFrame.from_knx + decrypt_frame on genuine wrappers, on EVERY single-bit flip of a wrapper, on
             wrappers under another key / for another session id, on truncated / extended frames
  handshake  SecureSession.handshake: SessionResponse MAC verification + SessionAuthenticate MAC, random X25519 key
             pairs, derived keys given (a few real passwords through PBKDF2)
  ntfmac / ntfverify   SecureSequenceTimer.send_timer_notify / verify_timer_notify_mac
"""
from __future__ import annotations

import asyncio
import hashlib
import logging

from cryptography.hazmat.primitives import serialization
from cryptography.hazmat.primitives.asymmetric.x25519 import X25519PrivateKey

from harness import ipsec_ref as R
from harness.cases.C29 import FR
from xknx.exceptions import CouldNotParseKNXIP, IPSecureError, KNXSecureValidationError
from xknx.io import ip_secure
from xknx.io.ip_secure import SecureGroup, SecureSequenceTimer, SecureSession, _IPSecureTransportLayer
from xknx.knxip import HPAI, KNXIPFrame, KNXIPServiceType, RoutingIndication, SecureWrapper, SessionResponse, TimerNotify, TunnellingRequest
from xknx.secure import security_primitives as sp

logging.getLogger("xknx").setLevel(logging.CRITICAL + 1)

PROPERTY = "C28"
EXHAUSTIVE = False
CASE_TIMEOUT = 10.0
RULE = ("wrap: random frames of every implemented body type and payload lengths 8..5000 (incl. 15/16/17-octet block edges and "
        "> 255 blocks), random key / session id / sequence information / serial / tag; unwrapc: the genuine wrapper, EVERY "
        "single-bit flip of it (exhaustive per wrapper), other key, other session id, truncation / extension; handshake: random "
        "X25519 pairs, session ids, user ids, genuine and flipped SessionResponse MACs, with and without device authentication; "
        "ntfmac/ntfverify: random timer values incl. 0 and 2^48-1. non-trivial = every op (all distinct)")
TRUSTED = [
    "model XknxVerif.Model.IPSecure generic in the block cipher, instantiated with XknxVerif.Crypto.AES128 (FIPS-197 vectors "
    "and S-box definition kernel-checked, shared with branch b-dsec); AES has no cryptographic-strength proof",
    "harness/ipsec_ref.py is the independent implementation of the specification (own CBC-MAC / CTR over the AES block of the "
    "`cryptography` package); X25519, PBKDF2-HMAC-SHA256 and SHA-256 are parameters (outputs of cryptography/hashlib fed in)",
    "XKNX_SERIAL_NUMBER is patched per case to vary the serial number; derived keys are set on the SecureSession object",
]

SERIAL0 = ip_secure.XKNX_SERIAL_NUMBER


class _Layer(_IPSecureTransportLayer):
    __slots__ = ("session_id", "_key", "seq", "tag")

    def get_sequence_information(self):
        return self.seq

    def get_message_tag(self):
        return self.tag


_loop = None


def setup():
    global _loop
    _loop = asyncio.new_event_loop()
    asyncio.set_event_loop(_loop)


def teardown():
    ip_secure.XKNX_SERIAL_NUMBER = SERIAL0
    asyncio.set_event_loop(None)
    if _loop is not None:
        _loop.close()


def _layer(key, sid, seq=b"", tag=b""):
    la = _Layer()
    la.session_id, la._key, la.seq, la.tag = sid, key, seq, tag
    return la


def impl_wrap(key, sid, seq, serial, tag, payload):
    ip_secure.XKNX_SERIAL_NUMBER = serial
    try:
        frame, rest = KNXIPFrame.from_knx(payload)
        assert not rest and frame.to_knx() == payload, "catalogue frame does not round-trip"
        return _layer(key, sid, seq, tag).encrypt_frame(frame).to_knx()
    finally:
        ip_secure.XKNX_SERIAL_NUMBER = SERIAL0


def impl_unwrap(key, sid, raw):
    """'ok <hex>' | 'okraw' (MAC accepted, inner frame unparsable) | 'reject'."""
    try:
        frame, rest = KNXIPFrame.from_knx(raw)
    except CouldNotParseKNXIP:
        return "reject"
    if rest or not isinstance(frame.body, SecureWrapper):
        return "reject"
    try:
        inner = _layer(key, sid).decrypt_frame(frame)
    except KNXSecureValidationError:
        return "reject"
    except CouldNotParseKNXIP:
        return "okraw"
    return "ok " + inner.to_knx().hex()


def run_impl(case):
    t = case["op"].split()
    kind = t[1]
    if kind == "wrap":
        key, sid, seq, ser, tag, p = bytes.fromhex(t[2]), int(t[3]), *(bytes.fromhex(x) for x in t[4:8])
        return impl_wrap(key, sid, seq, ser, tag, p).hex()
    if kind == "unwrapc":
        out = impl_unwrap(bytes.fromhex(t[2]), int(t[3]), bytes.fromhex(t[4]))
        if out == "okraw":
            return {"out": out, "expect": "ok " + case["payload"]}
        return out
    if kind == "decf":
        return impl_decf(case, bytes.fromhex(t[2]), int(t[3]), bytes.fromhex(t[4]), bytes.fromhex(t[5]))
    if kind == "handshake":
        dk, uk, uid, sid, x, m = t[2], bytes.fromhex(t[3]), int(t[4]), bytes.fromhex(t[5]), t[6], bytes.fromhex(t[7])
        return impl_handshake(case, None if dk == "-" else bytes.fromhex(dk), uk, uid, int.from_bytes(sid, "big"), m)
    if kind == "ntfmac":
        return _loop.run_until_complete(impl_ntf(*(bytes.fromhex(x) for x in t[2:6])))
    if kind == "ntfverify":
        return _loop.run_until_complete(impl_ntfverify(*(bytes.fromhex(x) for x in t[2:7])))
    raise ValueError(kind)


def _tampered(case, body):
    """The genuine wrapper parsed into a KNXIPFrame object, then header attributes of the OBJECT altered."""
    genuine = bytes.fromhex(case["genuine_header"]) + body
    frame, rest = KNXIPFrame.from_knx(genuine)
    assert not rest and isinstance(frame.body, SecureWrapper)
    if "total_length" in case:
        frame.header.total_length = case["total_length"]
    if "service" in case:
        frame.header.service_type_ident = KNXIPServiceType(case["service"])
    return frame


def _deliver(obj, frame):
    got = []
    cb = obj.register_callback(lambda f, _s, _t: got.append(f.to_knx().hex()), None)
    try:
        obj.handle_knxipframe(frame, HPAI("192.168.1.9", 3671))
    except KNXSecureValidationError:
        return "raise"
    except CouldNotParseKNXIP:
        return "parse"
    finally:
        obj.unregister_callback(cb)
    return ("f " + got[0]) if got else "d"


def impl_decf(case, key, sid, hdr, body):
    """decrypt_frame + both handle_knxipframe entry points on the tampered object, then the genuine frame on the same objects."""
    frame = _tampered(case, body)
    assert frame.header.to_knx() == hdr, "op line does not carry the header the object serialises to"
    try:
        inner = _layer(key, sid).decrypt_frame(frame)
        dec = "ok " + inner.to_knx().hex()
    except KNXSecureValidationError:
        dec = "reject"
    except CouldNotParseKNXIP:
        dec = "okraw"
    # SecureSession.handle_knxipframe
    sess = SecureSession.__new__(SecureSession)
    sess.callbacks = []
    sess.initialized, sess.session_id, sess._key, sess._sequence_number_received = True, sid, key, -1
    s1 = _deliver(sess, frame)
    s2 = _deliver(sess, _tampered({"genuine_header": case["genuine_header"]}, body))
    # SecureGroup.handle_knxipframe (session id 0 only; timer synchronised to the wrapper's timer value)
    g1 = g2 = "na"
    if sid == 0:
        async def grp():
            g = SecureGroup(local_addr=("192.168.1.50", 0), remote_addr=("224.0.23.12", 3671), backbone_key=key, latency_ms=1000)
            g.secure_timer.timer_authenticated = True
            g.secure_timer.sched_update = True     # no reschedule: nothing left running on the loop
            g.secure_timer._clock_difference = int.from_bytes(body[2:8], "big") - g.secure_timer._monotonic_ms()
            return _deliver(g, frame), _deliver(g, _tampered({"genuine_header": case["genuine_header"]}, body))
        g1, g2 = _loop.run_until_complete(grp())
    out = f"{dec}|{s1}|{s2}|{g1}|{g2}"
    return {"out": out, "expect": dec if dec != "okraw" else "ok " + case["payload"]}


def impl_handshake(case, dk, uk, uid, sid, mac):
    if "upw" in case:
        # through the real constructor: derive_user_password / derive_device_authentication_password run on the strings
        # (the op line carries the keys an independent PBKDF2-HMAC-SHA256 derives from them)
        if case.get("prime"):
            # the session configured just before in this process (makes the case reproduce on its own with --replay)
            SecureSession(remote_addr=("127.0.0.1", 3671), user_id=1, user_password=case["prime"][0],
                          device_authentication_password=case["prime"][1] or None)
        s = SecureSession(remote_addr=("127.0.0.1", 3671), user_id=uid, user_password=case["upw"],
                          device_authentication_password=case["dpw"] or None)
    else:
        s = SecureSession.__new__(SecureSession)
        s._device_authentication_code = dk
        s._user_password = uk
        s.user_id = uid
    s._private_key = X25519PrivateKey.from_private_bytes(bytes.fromhex(case["cpriv"]))
    s.public_key = s._private_key.public_key().public_bytes(serialization.Encoding.Raw, serialization.PublicFormat.Raw)
    resp = SessionResponse(secure_session_id=sid, ecdh_server_public_key=bytes.fromhex(case["spub"]),
                           message_authentication_code=mac)
    try:
        am = s.handshake(resp)
    except IPSecureError:
        return "err mac"
    case["_key"] = s._key.hex()
    return "ok " + am.hex()


async def impl_ntf(key, timer, serial, tag):
    sent = []
    st = SecureSequenceTimer(backbone_key=key, latency_ms=1000, transport_send=lambda f, a: sent.append(f.to_knx()))
    tv = int.from_bytes(timer, "big")
    # make current_timer_value() return tv at the instant of the call
    mono = [0]
    orig = SecureSequenceTimer._monotonic_ms
    SecureSequenceTimer._monotonic_ms = lambda self: mono[0]
    try:
        st._clock_difference = tv
        st.send_timer_notify(message_tag=tag, serial_number=serial)
    finally:
        SecureSequenceTimer._monotonic_ms = orig
    raw = sent[0]
    assert raw[:6] == bytes.fromhex("061009550024") and raw[6:12] == timer and raw[12:18] == serial and raw[18:20] == tag
    return raw[20:].hex()


async def impl_ntfverify(key, timer, serial, tag, mac):
    st = SecureSequenceTimer(backbone_key=key, latency_ms=1000, transport_send=lambda f, a: None)
    try:
        st.verify_timer_notify_mac(TimerNotify(timer_value=int.from_bytes(timer, "big"), serial_number=serial,
                                               message_tag=tag, message_authentication_code=mac))
    except KNXSecureValidationError:
        return "err mac"
    return "ok"


# --------------------------------------------------------------------------------------------------
# oracle: the property on xknx alone, against the independent implementation
# --------------------------------------------------------------------------------------------------

def oracle(case, out):
    t = case["op"].split()
    kind = t[1]
    if kind == "wrap":
        key, sid, seq, ser, tag, p = bytes.fromhex(t[2]), int(t[3]), *(bytes.fromhex(x) for x in t[4:8])
        ref = R.wrap(key, sid, seq, ser, tag, p)
        if bytes.fromhex(out) != ref:
            return f"wrapper differs from the specification's construction: {out[:80]}… vs {ref.hex()[:80]}…"
        back = impl_unwrap(key, sid, bytes.fromhex(out))
        if back != "ok " + p.hex():
            return f"a wrapped frame does not unwrap to the identical frame: {back[:80]}"
        return None
    if kind == "unwrapc":
        exp = case["want"]
        if exp == "reject" and out != "reject":
            return f"tampered wrapper accepted ({case.get('what', '')})"
        if exp == "ok" and out not in ("ok " + case["payload"], "okraw"):
            return f"genuine wrapper not unwrapped to the identical frame: {out[:80]}"
        return None
    if kind == "decf":
        dec, s1, s2, g1, g2 = out.split("|")
        want_ok = "f " + case["payload"]
        if case["want"] == "reject":
            what = case.get("what", "")
            if dec != "reject":
                return f"decrypt_frame accepted a wrapper whose header object was altered ({what}): {dec[:40]}"
            if s1.startswith("f"):
                return f"SecureSession.handle_knxipframe delivered a wrapper whose header object was altered ({what})"
            if g1.startswith("f"):
                return f"SecureGroup.handle_knxipframe delivered a wrapper whose header object was altered ({what})"
        elif dec != "ok " + case["payload"] or s1 != want_ok or g1 not in ("na", want_ok):
            return f"genuine wrapper object not unwrapped / delivered: {dec[:30]} | {s1[:30]} | {g1[:30]}"
        else:
            return None        # (delivering the genuine frame a second time to the session would be a replay)
        if s2 != want_ok or g2 not in ("na", want_ok):
            return f"the genuine wrapper is no longer accepted after the tampered one: {s2[:30]} | {g2[:30]}"
        return None
    if kind == "handshake":
        exp = case["want"]
        if exp == "reject":
            return None if out == "err mac" else "SessionResponse with a wrong MAC was accepted"
        ref = R.session_authenticate_mac(bytes.fromhex(t[3]), int(t[4]), bytes.fromhex(case["cpub"]), bytes.fromhex(case["spub"]))
        if out != "ok " + ref.hex():
            extra = (f" [user password {case['upw'][:12]!r}, device authentication password {case['dpw'][:12]!r} through the "
                     f"derive_* functions]" if "upw" in case else "")
            return f"handshake: {out[:60]} (expected SessionAuthenticate MAC {ref.hex()}){extra}"
        if case.get("_key") != case["skey"]:
            return "session key is not SHA-256(shared secret)[:16]"
        return None
    if kind == "ntfmac":
        key, timer, ser, tag = (bytes.fromhex(x) for x in t[2:6])
        ref = R.timer_notify_mac(key, int.from_bytes(timer, "big"), ser, tag)
        return None if out == ref.hex() else f"TimerNotify MAC {out} differs from the specification's {ref.hex()}"
    if kind == "ntfverify":
        return None if out == case["want"] else f"TimerNotify verification: {out}, expected {case['want']}"
    return None


def nontrivial(case, out):
    return True


def outcome_class(out):
    return out.split(" ")[0][:10] if out.startswith(("ok", "err", "reject")) else "hex"


def finding_key(case, msg):
    return case["op"][:200]


# --------------------------------------------------------------------------------------------------
# generator
# --------------------------------------------------------------------------------------------------

LENS = [0, 1, 2, 9, 10, 15, 16, 17, 26, 31, 32, 33, 47, 48, 100, 250, 255, 256, 1000, 4058, 4074, 4075, 5000]


def _frame(rng, big):
    r = rng.random()
    if r < 0.45:
        return FR[rng.choice([k for k in FR if not k.startswith("raw_")])]
    n = rng.choice(LENS if big else LENS[:18])
    body = rng.randbytes(n)
    if r < 0.75:
        return KNXIPFrame.init_from_body(RoutingIndication(raw_cemi=body)).to_knx()
    return KNXIPFrame.init_from_body(TunnellingRequest(communication_channel_id=rng.randrange(256),
                                                       sequence_counter=rng.randrange(256), raw_cemi=body)).to_knx()


def _b(rng, n):
    r = rng.random()
    if r < 0.1:
        return bytes(n)
    if r < 0.2:
        return b"\xff" * n
    return rng.randbytes(n)


def _wrap_case(rng, big):
    key, seq, ser, tag = _b(rng, 16), _b(rng, 6), _b(rng, 6), _b(rng, 2)
    sid = rng.choice([0, 1, 255, 256, 65535, rng.randrange(65536)])
    p = _frame(rng, big)
    return key, sid, seq, ser, tag, p


def generate(rng, tier):
    quick = tier == "quick"
    # wrap + genuine unwrap + exhaustive bit flips (short frames) + other key / session id / length changes
    for i in range(60 if quick else 700):
        key, sid, seq, ser, tag, p = _wrap_case(rng, not quick or i % 10 == 0)
        yield {"op": f"c28 wrap {key.hex()} {sid} {seq.hex()} {ser.hex()} {tag.hex()} {p.hex()}"}
        w = R.wrap(key, sid, seq, ser, tag, p)
        yield {"op": f"c28 unwrapc {key.hex()} {sid} {w.hex()}", "want": "ok", "payload": p.hex()}
        k2 = bytearray(key)
        k2[rng.randrange(16)] ^= 1 << rng.randrange(8)
        yield {"op": f"c28 unwrapc {bytes(k2).hex()} {sid} {w.hex()}", "want": "reject", "what": "other key", "payload": p.hex()}
        yield {"op": f"c28 unwrapc {key.hex()} {(sid + rng.randrange(1, 65536)) % 65536} {w.hex()}", "want": "reject",
               "what": "other session id", "payload": p.hex()}
        for cut in (w[:-1], w + b"\x00", w[:len(w) // 2]):
            yield {"op": f"c28 unwrapc {key.hex()} {sid} {cut.hex()}", "want": "reject", "what": "length changed", "payload": p.hex()}
        if len(w) <= (80 if quick else 120) and (i % 3 == 0 or not quick):
            for bit in range(8 * len(w)):
                f = bytearray(w)
                f[bit // 8] ^= 0x80 >> (bit % 8)
                yield {"op": f"c28 unwrapc {key.hex()} {sid} {bytes(f).hex()}", "want": "reject",
                       "what": f"bit {bit} flipped (octet {bit // 8})", "payload": p.hex()}
        else:
            for _ in range(24):
                bit = rng.randrange(8 * len(w))
                f = bytearray(w)
                f[bit // 8] ^= 0x80 >> (bit % 8)
                yield {"op": f"c28 unwrapc {key.hex()} {sid} {bytes(f).hex()}", "want": "reject",
                       "what": f"bit {bit} flipped (octet {bit // 8})", "payload": p.hex()}
    # object-level tampering: the genuine wrapper parsed into a KNXIPFrame, then header attributes of the OBJECT altered
    # (what decrypt_frame / handle_knxipframe actually receive); every bit of total_length, every other service type
    for i in range(10 if quick else 120):
        key, sid, seq, ser, tag, p = _wrap_case(rng, False)
        if i % 2 == 0:
            sid = 0                                   # also through SecureGroup.handle_knxipframe
        w = R.wrap(key, sid, seq, ser, tag, p)
        gh, body = w[:6], w[6:]
        base = {"genuine_header": gh.hex(), "payload": p.hex()}
        yield dict(base, op=f"c28 decf {key.hex()} {sid} {gh.hex()} {body.hex()}", want="ok")
        tl = int.from_bytes(gh[4:6], "big")
        for bit in range(16):
            v = tl ^ (1 << bit)
            hdr = gh[:4] + v.to_bytes(2, "big")
            yield dict(base, op=f"c28 decf {key.hex()} {sid} {hdr.hex()} {body.hex()}", want="reject", total_length=v,
                       what=f"total_length {tl} -> {v}")
        for svc in KNXIPServiceType:
            if svc.value == 0x0950:
                continue
            hdr = gh[:2] + svc.value.to_bytes(2, "big") + gh[4:6]
            yield dict(base, op=f"c28 decf {key.hex()} {sid} {hdr.hex()} {body.hex()}", want="reject", service=svc.value,
                       what=f"service_type_ident -> {svc.name}")
    # authenticated garbage inside (MAC accepted, inner frame unparsable)
    for _ in range(10 if quick else 100):
        key, sid, seq, ser, tag, _p = _wrap_case(rng, False)
        p = bytes.fromhex("06100aaa") + (8 + 4).to_bytes(2, "big") + rng.randbytes(6)
        w = R.wrap(key, sid, seq, ser, tag, p)
        yield {"op": f"c28 unwrapc {key.hex()} {sid} {w.hex()}", "want": "ok", "payload": p.hex()}
    # handshake
    pw = [R.user_password_hash("secret"), R.device_authentication_code("trustme")]
    for i in range(40 if quick else 600):
        cpriv, spriv = rng.randbytes(32), rng.randbytes(32)
        cp, sp_ = X25519PrivateKey.from_private_bytes(cpriv), X25519PrivateKey.from_private_bytes(spriv)
        cpub = cp.public_key().public_bytes(serialization.Encoding.Raw, serialization.PublicFormat.Raw)
        spub = sp_.public_key().public_bytes(serialization.Encoding.Raw, serialization.PublicFormat.Raw)
        uk = pw[0] if i % 7 == 0 else rng.randbytes(16)
        dk = None if i % 5 == 4 else (pw[1] if i % 7 == 0 else rng.randbytes(16))
        uid, sid = rng.randrange(256), rng.choice([0, 1, 65535, rng.randrange(65536)])
        x = R.xor(cpub, spub)
        mac = R.session_response_mac(dk, sid, cpub, spub) if dk else rng.randbytes(16)
        want = "ok"
        if dk and i % 3 == 1:
            m = bytearray(mac)
            m[rng.randrange(16)] ^= 1 << rng.randrange(8)
            mac, want = bytes(m), "reject"
        yield {"op": f"c28 handshake {dk.hex() if dk else '-'} {uk.hex()} {uid} {sid.to_bytes(2, 'big').hex()} {x.hex()} {mac.hex()}",
               "want": want, "cpriv": cpriv.hex(), "cpub": cpub.hex(), "spub": spub.hex(),
               "skey": hashlib.sha256(sp_.exchange(cp.public_key())).digest()[:16].hex()}
    # handshake from password STRINGS through the real constructor.  The pools collide on purpose: the same string in both
    # roles of one session, and a string used in one role in case k and in the other role in case k+1 (all cases run in
    # one process, so anything the derivation remembers between calls shows); empty and long strings
    pool = ["secret", "trustme", "", "x" * 200, "p\xe4ssw\xf6rd", "a", "secret "]
    pairs = [("secret", "trustme"), ("trustme", "secret"),            # roles swapped in the next case
             ("a", "a"), ("x" * 200, "x" * 200),                       # same string in both roles
             ("", "a"), ("a", ""), ("p\xe4ssw\xf6rd", "x" * 200), ("x" * 200, "p\xe4ssw\xf6rd"),
             ("secret ", "secret"), ("secret", "secret ")]
    for _ in range(0 if quick else 30):
        a, b = rng.choice(pool), rng.choice(pool)
        pairs += [(a, b), (b, a)] if rng.random() < 0.6 else [(a, a)]
    for i, (upw, dpw) in enumerate(pairs):
        cpriv, spriv = rng.randbytes(32), rng.randbytes(32)
        cp, sp_ = X25519PrivateKey.from_private_bytes(cpriv), X25519PrivateKey.from_private_bytes(spriv)
        cpub = cp.public_key().public_bytes(serialization.Encoding.Raw, serialization.PublicFormat.Raw)
        spub = sp_.public_key().public_bytes(serialization.Encoding.Raw, serialization.PublicFormat.Raw)
        uk = R.user_password_hash(upw)
        dk = R.device_authentication_code(dpw) if dpw else None
        uid, sid = rng.randrange(256), rng.randrange(65536)
        x = R.xor(cpub, spub)
        mac = R.session_response_mac(dk, sid, cpub, spub) if dk else rng.randbytes(16)
        yield {"op": f"c28 handshake {dk.hex() if dk else '-'} {uk.hex()} {uid} {sid.to_bytes(2, 'big').hex()} {x.hex()} {mac.hex()}",
               "want": "ok", "upw": upw, "dpw": dpw, "prime": list(pairs[i - 1]) if i else None, "cpriv": cpriv.hex(), "cpub": cpub.hex(), "spub": spub.hex(),
               "skey": hashlib.sha256(sp_.exchange(cp.public_key())).digest()[:16].hex()}
    # timer notify
    for i in range(40 if quick else 600):
        key, ser, tag = _b(rng, 16), _b(rng, 6), _b(rng, 2)
        tv = rng.choice([0, 1, (1 << 48) - 1, rng.randrange(1 << 48), rng.randrange(1 << 32)])
        timer = tv.to_bytes(6, "big")
        yield {"op": f"c28 ntfmac {key.hex()} {timer.hex()} {ser.hex()} {tag.hex()}"}
        mac = R.timer_notify_mac(key, tv, ser, tag)
        yield {"op": f"c28 ntfverify {key.hex()} {timer.hex()} {ser.hex()} {tag.hex()} {mac.hex()}", "want": "ok"}
        m = bytearray(mac)
        m[rng.randrange(16)] ^= 1 << rng.randrange(8)
        yield {"op": f"c28 ntfverify {key.hex()} {timer.hex()} {ser.hex()} {tag.hex()} {bytes(m).hex()}", "want": "err mac"}
        t2 = ((tv + 1) % (1 << 48)).to_bytes(6, "big")
        yield {"op": f"c28 ntfverify {key.hex()} {t2.hex()} {ser.hex()} {tag.hex()} {mac.hex()}", "want": "err mac"}
