"""C04 Application-layer decoding is total with declared errors only."""
from __future__ import annotations

from harness import apci_lib as L
from harness import apci_streams as S

PROPERTY = "C04"
MODULES = ["XknxVerif.Props.C04"]
EXHAUSTIVE_QUICK = False
HANG_IS_VIOLATION = True
CASE_TIMEOUT = 5.0
RULE = ("APCI.from_knx on: ALL byte strings of length 0..2 (65,793); every 10 bit APCI code x lengths "
        "2..30,40,60,100,200,254,255 x fillers {00,ff,random}; >=70% of the random stream are well-formed frames "
        "built from random objects of every concrete class (found by introspection) plus their mutations "
        "(truncated/extended by one octet, one flipped bit, transport bits set); thorough: ALL 16,777,216 APDUs of "
        "length 3 in blocks of 256 (16 processes). Outcome = ok(class, fields, re-encoding, calculated length) | conv | "
        "unsupported | other:<Exc> | timeout, compared with the Lean model; APDUs with clear transport bits are also wrapped in an "
        "L_Data.ind frame and CEMIFrame.from_knx must map the outcome class (malformed -> CouldNotParseCEMI, unsupported -> "
        "UnsupportedCEMIMessage). Non-trivial = distinct input that is not "
        "rejected as 'APDU too short'.")
TRUSTED = ["model XknxVerif.Model.APCI.* is hand-written (layout table + generic interpreter); tied by this differential run",
           "that CPython raises nothing else inside from_knx is established by the enumeration/search, not by proof",
           "harness/apci_lib.py canonicalisation of service objects (flattening of nested objects, addresses as integers)"]

RECOGNISED = None
_STASH = {}
CEMI_CHECKED = [0]


def setup():
    global RECOGNISED
    RECOGNISED = L.recognised_codes()
    L.POISON = False   # C04 states totality of the single decode; shared mutable results are C05's / C13's subject
    S.setup()


def teardown():
    S.teardown()


def generate(rng, tier):
    yield from S.decode_stream(rng, tier, "C04")


def cemi_outcome(apdu: bytes) -> str:
    """The same APDU inside an L_Data.ind frame to an individual address (T_Data_Individual)."""
    from xknx.cemi import CEMIFrame
    from xknx.exceptions import CouldNotParseCEMI, UnsupportedCEMIMessage

    frame = bytes([0x29, 0x00, 0xBC, 0x60, 0x11, 0x01, 0x11, 0x02, len(apdu) - 1]) + apdu
    try:
        f = CEMIFrame.from_knx(frame)
    except CouldNotParseCEMI:
        return "conv"
    except UnsupportedCEMIMessage:
        return "unsupported"
    except Exception as e:  # noqa: BLE001
        return "other:" + type(e).__name__
    return "ok " + L.canon_obj(f.data.payload)


def run_impl(case):
    out = S.run_decode_case(case, "C04")
    _STASH.clear()
    t = case["op"].split()
    if t[1] == "dec":
        raw = bytes.fromhex(t[2].replace("-", ""))
        # second anchor: CEMILData.from_knx maps unsupported -> UnsupportedCEMIMessage, malformed -> CouldNotParseCEMI
        if 1 <= len(raw) <= 255 and raw[0] & 0xFC == 0:
            CEMI_CHECKED[0] += 1
            c = cemi_outcome(raw)
            want = ("ok " + L.split_dec(out)[0]) if out.startswith("ok ") else out
            if c != want:
                _STASH[case["op"]] = (f"APDU {raw.hex()}: APCI.from_knx gives {want[:120]} but inside an L_Data frame "
                                      f"CEMIFrame.from_knx gives {c[:120]}")
    return out


def oracle(case, out):
    um = L.unmodelled_classes()
    if um:
        return f"service classes with field types the harness does not model: {um}"
    if case["op"].startswith("apci sweep"):
        return S.SWEEP_ORACLE.pop(case["op"], None)
    return oracle_one(bytes.fromhex(case["op"].split()[2].replace("-", "")), out) or _STASH.get(case["op"])


def oracle_one(raw, out):
    if out.startswith("other:"):
        return f"APCI.from_knx({raw.hex()}) raised {out[6:]}"
    if out == "timeout":
        return f"APCI.from_knx({raw.hex()}) did not return"
    if out == "unsupported" and len(raw) >= 2 and L.code_of(raw) in RECOGNISED:
        return (f"APDU {raw.hex()} carries APCI {L.code_of(raw):#05x} of the recognised service "
                f"{RECOGNISED[L.code_of(raw)]} but is reported as unsupported, not as malformed")
    if out.startswith("ok ") and (len(raw) < 2 or L.code_of(raw) not in RECOGNISED):
        return f"APDU {raw.hex()} decoded although its APCI belongs to no implemented service"
    if out.startswith("ok "):
        cls = out.split(" ")[1]
        if RECOGNISED[L.code_of(raw)] != cls:
            return f"APDU {raw.hex()} with APCI of {RECOGNISED[L.code_of(raw)]} decoded as {cls}"
    return None


def nontrivial(case, out):
    return not (case["op"].startswith("apci dec") and len(case["op"].split()[2].replace("-", "")) < 4)


def outcome_class(out):
    if out.startswith("ok "):
        return "ok:" + out.split(" ")[1]
    return out.split(" ")[0][:40]


def finding_key(case, msg):
    return case["op"]


def shrink(case, msg):
    return S.shrink_decode(case, msg, oracle_one)


def evidence_extra():
    return dict(S.evidence_extra(), apdus_also_checked_inside_cemi_frame=CEMI_CHECKED[0])
