"""C31 Keyrings load exactly what they contain and reject tampering.

Independent keyring WRITER (own XML serialiser, own signature-input builder, hashlib PBKDF2/SHA-256, AES-ECB from
`cryptography` with own CBC chaining) -> real `sync_load_keyring` / `verify_keyring_signature` /
`KeyringSAXContentHandler`; the Lean model gets the SAX event stream the real handler receives and must produce the
same hashed octets and the same accept/reject decision.
"""
from __future__ import annotations

import base64
import copy
import functools
import hashlib
import io
import json
import logging
import os
from pathlib import Path
import shutil
import tempfile
import xml.sax
from xml.sax.handler import ContentHandler

from cryptography.hazmat.primitives.ciphers import Cipher, algorithms, modes
from xknx.exceptions import InvalidSecureConfiguration
from xknx.secure import keyring as K
from xknx.telegram import IndividualAddress

from harness.framework import REPO

PROPERTY = "C31"
RULE = ("generated keyrings (independent writer: 0..N interfaces/devices/groups/backbone, random unicode passwords, keys, "
        "layouts, duplicate elements) and the 6 ETS exports shipped with the tests; per keyring: exact load, the hashed "
        "octets, the verify decision, Data Secure tables, every kind of single mutation (attribute value/name/add/remove, "
        "element rename/add/remove/duplicate/move/swap/wrap, wrong password) and neutral rewrites (attribute order, "
        "whitespace, comments, blacklisted attributes); plus extract_password / CBC boundary streams. "
        "non-trivial = distinct cases whose outcome is not a harness-level skip")
TRUSTED = [
    "XML parsing (expat SAX / ElementTree / minidom) is outside the model: the model starts from the SAX event stream recorded from the real parser",
    "PBKDF2-HMAC-SHA256 and SHA-256 are parameters (outputs supplied by the harness; PBKDF2 is memoised per password during the run)",
    "AES-128 block decryption is a parameter D of the CBC model (ECB outputs supplied by the harness from the `cryptography` package)",
    "UTF-8 octet order = Python str order (code points), used for `sorted(attrs.items())`",
    "tamper rejection is proved under an explicit no-collision hypothesis on the truncated hash",
]
ASSUMPTIONS = ["hNoColl: the 128-bit truncated SHA-256 does not collide on the two signature inputs compared",
               "signed-content injectivity needs attribute names that are not 1 or 2 octets long and strings < 256 octets"]
CASE_TIMEOUT = 10.0

RES = REPO / "test" / "secure_tests" / "resources"
ETS_FILES = {
    "keyring.knxkeys": "pwd",
    "testcase.knxkeys": "password",
    "special_chars_secure_tunnel.knxkeys": "test",
    "DataSecure_only_one_interface.knxkeys": "test",
    "DataSecure_usb.knxkeys": "test",
    "SecureTest.knxkeys": "test",
}
BLACKLIST = ("xmlns", "Signature")
SALT = b"1.keyring.ets.knx.org"

# --------------------------------------------------------------------------
# independent crypto / format helpers (the writer's side)
# --------------------------------------------------------------------------


@functools.lru_cache(maxsize=4096)
def kdf(password: str) -> bytes:
    return hashlib.pbkdf2_hmac("sha256", password.encode("utf-8"), SALT, 65536, 16)


def iv_of(created: str) -> bytes:
    return hashlib.sha256(created.encode("utf-8")).digest()[:16]


def ecb(key: bytes, block: bytes, enc: bool) -> bytes:
    c = Cipher(algorithms.AES(key), modes.ECB())
    o = c.encryptor() if enc else c.decryptor()
    return o.update(block) + o.finalize()


def xor(a, b):
    return bytes(x ^ y for x, y in zip(a, b))


def cbc_encrypt(key, iv, pt):
    assert len(pt) % 16 == 0
    out, prev = b"", iv
    for i in range(0, len(pt), 16):
        prev = ecb(key, xor(pt[i:i + 16], prev), True)
        out += prev
    return out


def cbc_decrypt(key, iv, ct):
    out, prev = b"", iv
    for i in range(0, len(ct), 16):
        out += xor(ecb(key, ct[i:i + 16], False), prev)
        prev = ct[i:i + 16]
    return out


def pad_password(salt: bytes, pw: str) -> bytes:
    raw = salt + pw.encode("utf-8")
    total = 32 if len(raw) < 32 else (len(raw) // 16 + 1) * 16
    n = total - len(raw)
    return raw + bytes([n]) * n


def enc_pw(key, iv, salt_hex, pw):
    return base64.b64encode(cbc_encrypt(key, iv, pad_password(bytes.fromhex(salt_hex), pw))).decode()


def enc_key(key, iv, key_hex):
    return base64.b64encode(cbc_encrypt(key, iv, bytes.fromhex(key_hex))).decode()


def own_sig_input(tree, hashed: bytes):
    """Signature input from the format description; None when a string does not fit one length octet."""
    out = bytearray()

    def s(x):
        b = x if isinstance(x, bytes) else x.encode("utf-8")
        if len(b) > 255:
            raise OverflowError
        out.append(len(b))
        out.extend(b)

    def el(t):
        out.append(1)
        s(t[0])
        for k, v in sorted((k, v) for k, v in t[1] if k not in BLACKLIST):
            s(k)
            s(v)
        for c in t[2]:
            el(c)
        out.append(2)

    try:
        el(tree)
        s(base64.b64encode(hashed))
    except OverflowError:
        return None
    return bytes(out)


def sign(tree, password):
    si = own_sig_input(tree, kdf(password))
    if si is None:
        return "AAAAAAAAAAAAAAAAAAAAAA=="
    return base64.b64encode(hashlib.sha256(si).digest()[:16]).decode()


def norm(tree):
    """the signed content of a tree: names, structure, non-blacklisted attributes as a sorted list"""
    return [tree[0], sorted([k, v] for k, v in tree[1] if k not in BLACKLIST), [norm(c) for c in tree[2]]]


def esc(v: str) -> str:
    out = []
    for ch in v:
        if ch == "&":
            out.append("&amp;")
        elif ch == "<":
            out.append("&lt;")
        elif ch == ">":
            out.append("&gt;")
        elif ch == '"':
            out.append("&quot;")
        elif ord(ch) < 32:
            out.append(f"&#{ord(ch)};")
        else:
            out.append(ch)
    return "".join(out)


def serialize(tree, layout):
    ind = layout.get("indent", "  ")
    nl = layout.get("nl", "\n")
    parts = []
    if layout.get("bom"):
        parts.append("\ufeff")
    if layout.get("decl", True):
        parts.append('<?xml version="1.0" encoding="utf-8"?>' + nl)

    def el(t, depth):
        pre = ind * depth
        attrs = "".join(f' {k}="{esc(v)}"' for k, v in t[1])
        if not t[2] and layout.get("selfclose", True):
            parts.append(f"{pre}<{t[0]}{attrs} />{nl}")
            return
        parts.append(f"{pre}<{t[0]}{attrs}>{nl}")
        if layout.get("comment") and depth == 0:
            parts.append(f"{pre}{ind}<!-- {layout['comment']} -->{nl}")
        for c in t[2]:
            el(c, depth + 1)
        if layout.get("text") and depth == 0:
            parts.append(layout["text"])
        parts.append(f"{pre}</{t[0]}>{nl}")

    el(tree, 0)
    return "".join(parts)


# --------------------------------------------------------------------------
# spec -> tree (the writer)
# --------------------------------------------------------------------------


def ia_str(raw):
    return f"{raw >> 12}.{(raw >> 8) & 15}.{raw & 255}"


def ga_attr(g):
    """group addresses are written as ETS does (raw integer) or, when flagged, as 3-level text"""
    if isinstance(g, list):  # [raw, "3level"]
        raw = g[0]
        return f"{raw >> 11}/{(raw >> 8) & 7}/{raw & 255}"
    return str(g)


def ga_raw(g):
    return g[0] if isinstance(g, list) else g


def build_tree(spec):
    key = kdf(spec["password"])
    iv = iv_of(spec["created"])
    kids = []
    order = spec.get("order", "BIGD")
    blocks = {"B": [], "I": [], "G": [], "D": []}
    for bb in spec["backbones"]:
        a = []
        if bb.get("mc") is not None:
            a.append(["MulticastAddress", bb["mc"]])
        if bb.get("latency") is not None:
            a.append(["Latency", str(bb["latency"])])
        if bb.get("key") is not None:
            a.append(["Key", enc_key(key, iv, bb["key"])])
        blocks["B"].append(["Backbone", a, []])
    for it in spec["interfaces"]:
        a = [["IndividualAddress", ia_str(it["ia"])], ["Type", it["type"]]]
        if it.get("host") is not None:
            a.append(["Host", ia_str(it["host"])])
        if it.get("user_id") is not None:
            a.append(["UserID", str(it["user_id"])])
        if it.get("password") is not None:
            a.append(["Password", enc_pw(key, iv, it["pw_salt"], it["password"])])
        if it.get("auth") is not None:
            a.append(["Authentication", enc_pw(key, iv, it["auth_salt"], it["auth"])])
        gs = [["Group", [["Address", ga_attr(g)], ["Senders", " ".join(ia_str(s) for s in ss)]], []] for g, ss in it["groups"]]
        blocks["I"].append(["Interface", a, gs])
    for grp in spec["group_blocks"]:
        blocks["G"].append(["GroupAddresses", [], [
            ["Group", [["Address", ga_attr(g)]] + ([["Key", enc_key(key, iv, k)]] if k is not None else []), []]
            for g, k in grp]])
    for devs in spec["device_blocks"]:
        ds = []
        for d in devs:
            a = [["IndividualAddress", ia_str(d["ia"])]]
            if d.get("tool_key") is not None:
                a.append(["ToolKey", enc_key(key, iv, d["tool_key"])])
            if d.get("mgmt") is not None:
                a.append(["ManagementPassword", enc_pw(key, iv, d["mgmt_salt"], d["mgmt"])])
            if d.get("auth") is not None:
                a.append(["Authentication", enc_pw(key, iv, d["auth_salt"], d["auth"])])
            if d.get("seq") is not None:
                a.append(["SequenceNumber", str(d["seq"])])
            ds.append(["Device", a, []])
        blocks["D"].append(["Devices", [], ds])
    for ch in order:
        kids.extend(blocks[ch])
    root = ["Keyring", [["Project", spec["project"]], ["CreatedBy", spec["created_by"]], ["Created", spec["created"]],
                        ["Signature", ""], ["xmlns", "http://knx.org/xml/keyring/1"]], kids]
    # attribute order in the document is free
    perm = spec.get("attr_perm", 0)
    if perm:
        import random
        r = random.Random(perm)

        def sh(t):
            r.shuffle(t[1])
            for c in t[2]:
                sh(c)
        sh(root)
    set_attr(root, "Signature", sign(root, spec["password"]))
    return root


def set_attr(t, k, v):
    for a in t[1]:
        if a[0] == k:
            a[1] = v
            return
    t[1].append([k, v])


def expected_from_spec(spec, receivers):
    """What the keyring contains, straight from the project data the writer started from."""
    ifs = []
    for it in spec["interfaces"]:
        groups = {}
        for g, ss in it["groups"]:
            groups[ga_raw(g)] = list(ss)
        ifs.append({"type": it["type"], "ia": it["ia"], "host": it.get("host"), "user_id": it.get("user_id"),
                    "password": it.get("password"), "auth": it.get("auth"), "groups": groups})
    bb = None
    for b in spec["backbones"]:
        bb = {"mc": b.get("mc"), "latency": b.get("latency"), "key": b.get("key")}
    groups = [[ga_raw(g), k] for blk in spec["group_blocks"] for g, k in blk]
    devs = [{"ia": d["ia"], "tool_key": d.get("tool_key"), "mgmt": d.get("mgmt"), "auth": d.get("auth"),
             "seq": d.get("seq") or 0} for blk in spec["device_blocks"] for d in blk]
    return render_content(spec["project"], spec["created_by"], spec["created"], ifs, bb, groups, devs, receivers)


def data_tables(ifs, groups, devs, receivers):
    """Data Secure tables from the plain content (the property's reading: last entry of an address wins)."""
    tbl = {}
    for g, k in groups:
        if k is not None:
            tbl[g] = k
    per = {}
    for r in receivers:
        i = next((i for i in ifs if i["ia"] == r), None)
        per[r] = {} if i is None else {g: k for g, k in tbl.items() if g in i["groups"]}
    snd = {}
    for i in ifs:
        for ss in i["groups"].values():
            for s in ss:
                snd[s] = 0
    for d in devs:
        snd[d["ia"]] = d["seq"]
    return tbl, per, snd


def o(v):
    return "~" if v is None else str(v)


def hx(s):
    return "~" if s is None else (s.encode("utf-8").hex() or "-")


def rdict(d, f=str):
    return ",".join(f"{k}:{f(v)}" for k, v in sorted(d.items())) or "-"


def render_content(project, created_by, created, ifs, bb, groups, devs, receivers):
    tbl, per, snd = data_tables(ifs, groups, devs, receivers)
    p = [f"meta={hx(project)}|{hx(created_by)}|{hx(created)}"]
    p.append("ifs=" + (";".join(
        f"{i['type']}|{i['ia']}|{o(i['host'])}|{o(i['user_id'])}|{hx(i['password'])}|{hx(i['auth'])}|"
        + (",".join(f"{g}:{'.'.join(map(str, ss))}" for g, ss in i["groups"].items()) or "-") for i in ifs) or "-"))
    p.append("bb=" + ("~" if bb is None else f"{hx(bb['mc'])}|{o(bb['latency'])}|{o(bb['key'])}"))
    p.append("groups=" + (",".join(f"{g}:{o(k)}" for g, k in groups) or "-"))
    p.append("devs=" + (";".join(f"{d['ia']}|{o(d['tool_key'])}|{hx(d['mgmt'])}|{hx(d['auth'])}|{d['seq']}" for d in devs) or "-"))
    p.append("gkeys=" + rdict(tbl))
    p.append("recv=" + (";".join(f"{r}>{rdict(per[r])}" for r in receivers) or "-"))
    p.append("senders=" + rdict(snd))
    return " ".join(p)


def render_keyring(kr, receivers):
    """Canonical rendering of what the real loader produced."""
    def hb(b):
        return None if b is None else b.hex()
    ifs = [{"type": i.type.value, "ia": i.individual_address.raw, "host": None if i.host is None else i.host.raw,
            "user_id": i.user_id, "password": i.decrypted_password, "auth": i.decrypted_authentication,
            "groups": {g.raw: [s.raw for s in ss] for g, ss in i.group_addresses.items()}} for i in kr.interfaces]
    bb = None
    if kr.backbone is not None:
        bb = {"mc": kr.backbone.multicast_address, "latency": kr.backbone.latency, "key": hb(kr.backbone.decrypted_key)}
    groups = [[g.address.raw, hb(g.decrypted_key)] for g in kr.group_addresses]
    devs = [{"ia": d.individual_address.raw, "tool_key": hb(d.decrypted_tool_key), "mgmt": d.decrypted_management_password,
             "auth": d.decrypted_authentication, "seq": d.sequence_number} for d in kr.devices]
    base = render_content(kr.project_name, kr.created_by, kr.created, ifs, bb, groups, devs, [])
    # the tables as the real accessors return them (replacing the harness-computed ones)
    base = base.split(" gkeys=")[0]
    tbl = {g.raw: k.hex() for g, k in kr.get_data_secure_group_keys().items()}
    per = {r: {g.raw: k.hex() for g, k in kr.get_data_secure_group_keys(receiver=IndividualAddress(r)).items()} for r in receivers}
    snd = {i.raw: s for i, s in kr.get_data_secure_senders().items()}
    return (base + " gkeys=" + rdict(tbl) + " recv=" + (";".join(f"{r}>{rdict(per[r])}" for r in receivers) or "-")
            + " senders=" + rdict(snd))


# --------------------------------------------------------------------------
# independent READER for the ETS exports (expected content without xknx)
# --------------------------------------------------------------------------


def attr(t, k):
    for a in t[1]:
        if a[0] == k:
            return a[1]
    return None


def parse_ia(s):
    a, l, d = s.split(".")
    return (int(a) << 12) | (int(l) << 8) | int(d)


def parse_ga(s):
    if "/" in s:
        p = [int(x) for x in s.split("/")]
        return (p[0] << 11) | (p[1] << 8) | p[2] if len(p) == 3 else (p[0] << 11) | p[1]
    return int(s)


def own_extract(pt: bytes) -> str:
    if not pt:
        return ""
    n = pt[-1]
    return pt[8:len(pt) - n].decode("utf-8")


def expected_from_tree(tree, password, receivers):
    key, iv = kdf(password), iv_of(attr(tree, "Created"))

    def dk(v):
        return None if not v else cbc_decrypt(key, iv, base64.b64decode(v)).hex()

    def dp(v):
        return None if v is None else own_extract(cbc_decrypt(key, iv, base64.b64decode(v)))

    ifs, bb, groups, devs = [], None, [], []
    for c in tree[2]:
        if c[0] == "Interface":
            gs = {}
            for g in c[2]:
                if g[0] == "Group":
                    gs[parse_ga(attr(g, "Address"))] = [parse_ia(s) for s in (attr(g, "Senders") or "").split()]
            ifs.append({"type": attr(c, "Type"), "ia": parse_ia(attr(c, "IndividualAddress")),
                        "host": parse_ia(attr(c, "Host")) if attr(c, "Host") else None,
                        "user_id": int(attr(c, "UserID")) if attr(c, "UserID") else None,
                        "password": dp(attr(c, "Password")), "auth": dp(attr(c, "Authentication")), "groups": gs})
        elif c[0] == "Backbone":
            bb = {"mc": attr(c, "MulticastAddress"), "latency": int(attr(c, "Latency")) if attr(c, "Latency") else None,
                  "key": dk(attr(c, "Key"))}
        elif c[0] == "GroupAddresses":
            for g in c[2]:
                if g[0] == "Group":
                    groups.append([parse_ga(attr(g, "Address")), dk(attr(g, "Key"))])
        elif c[0] == "Devices":
            for d in c[2]:
                if d[0] == "Device":
                    devs.append({"ia": parse_ia(attr(d, "IndividualAddress")),
                                 "tool_key": None if attr(d, "ToolKey") is None else dk(attr(d, "ToolKey")),
                                 "mgmt": dp(attr(d, "ManagementPassword")), "auth": dp(attr(d, "Authentication")),
                                 "seq": int(attr(d, "SequenceNumber") or 0)})
    return render_content(attr(tree, "Project"), attr(tree, "CreatedBy"), attr(tree, "Created"), ifs, bb, groups, devs, receivers)


class _TreeBuilder(ContentHandler):
    def __init__(self):
        super().__init__()
        self.stack = [["#doc", [], []]]

    def startElement(self, name, attrs):
        t = [name, [[k, v] for k, v in attrs.items()], []]
        self.stack[-1][2].append(t)
        self.stack.append(t)

    def endElement(self, name):
        self.stack.pop()


@functools.lru_cache(maxsize=16)
def ets_tree_json(fname):
    h = _TreeBuilder()
    xml.sax.parseString((RES / fname).read_bytes(), h)
    return json.dumps(h.stack[0][2][0])


def ets_tree(fname):
    return json.loads(ets_tree_json(fname))


# --------------------------------------------------------------------------
# mutations
# --------------------------------------------------------------------------


def node_at(tree, path):
    t = tree
    for i in path:
        t = t[2][i]
    return t


def all_paths(tree, path=()):
    yield list(path)
    for i, c in enumerate(tree[2]):
        yield from all_paths(c, (*path, i))


def apply_mutation(tree, m):
    """Returns the mutated tree (deep copy); raises ValueError if the mutation does not apply."""
    t = copy.deepcopy(tree)
    k = m["t"]
    if k in ("password", "n-layout", "none"):
        return t
    if k == "sig-del":
        t[1][:] = [a for a in t[1] if a[0] != "Signature"]
        return t
    if k == "sig-set":
        set_attr(t, "Signature", m["v"])
        return t
    n = node_at(t, m["path"])
    if k == "attr-set" or k == "n-blacklisted":
        if k == "attr-set" and attr(n, m["k"]) is None:
            raise ValueError
        set_attr(n, m["k"], m["v"])
    elif k == "attr-del":
        if attr(n, m["k"]) is None:
            raise ValueError
        n[1][:] = [a for a in n[1] if a[0] != m["k"]]
    elif k == "attr-add":
        if attr(n, m["k"]) is not None:
            raise ValueError
        n[1].insert(m.get("idx", 0) % (len(n[1]) + 1), [m["k"], m["v"]])
    elif k == "attr-ren":
        if attr(n, m["k"]) is None or attr(n, m["k2"]) is not None:
            raise ValueError
        for a in n[1]:
            if a[0] == m["k"]:
                a[0] = m["k2"]
    elif k == "attr-swap":
        a, b = attr(n, m["k"]), attr(n, m["k2"])
        if a is None or b is None:
            raise ValueError
        set_attr(n, m["k"], b)
        set_attr(n, m["k2"], a)
    elif k == "n-attr-order":
        n[1].reverse()
    elif k == "el-ren":
        n[0] = m["name"]
    elif k == "el-add":
        n[2].insert(m["idx"] % (len(n[2]) + 1), [m["name"], [list(a) for a in m.get("attrs", [])], []])
    elif k in ("el-del", "el-dup", "el-wrap", "el-unwrap", "el-move"):
        if not m["path"]:
            raise ValueError
        parent = node_at(t, m["path"][:-1])
        i = m["path"][-1]
        if k == "el-del":
            del parent[2][i]
        elif k == "el-dup":
            parent[2].insert(i, copy.deepcopy(n))
        elif k == "el-wrap":
            parent[2][i] = [m["name"], [], [n]]
        elif k == "el-unwrap":
            parent[2][i:i + 1] = n[2]
        elif k == "el-move":
            dest = node_at(t, m["to"])
            if dest is n or m["to"][:len(m["path"])] == m["path"]:
                raise ValueError
            del parent[2][i]
            dest[2].append(n)
    elif k == "el-swap":
        i, j = m["i"], m["j"]
        n[2][i], n[2][j] = n[2][j], n[2][i]
    else:
        raise ValueError(k)
    return t


XML_SAFE = "abcXYZ019 .-_/=+äß€"
TRICKY = ["", " ", "\t", "\n", "&", "<", '"', "'", ">", "\u00e9", "e\u0301", "\U0001f511", "\ud7ff", "\ue000", "\ufffd", "x" * 255]


def mutate_value(rng, v):
    c = rng.randrange(9)
    if c == 0 and v:
        i = rng.randrange(len(v))
        return v[:i] + rng.choice([ch for ch in XML_SAFE if ch != v[i]]) + v[i + 1:]
    if c == 1:
        return v + rng.choice(XML_SAFE)
    if c == 2 and v:
        return v[:-1]
    if c == 3 and v:
        return v[1:]
    if c == 4:
        return v.swapcase() if v.swapcase() != v else v + " "
    if c == 5:
        return rng.choice(TRICKY)
    if c == 6 and len(v) > 1:
        i = rng.randrange(len(v) - 1)
        return v[:i] + v[i + 1] + v[i] + v[i + 2:]
    if c == 7:
        return v + v
    return " " + v


def gen_mutations(rng, tree, password, n, exhaustive=False):
    """Single mutations of the signed content (must be rejected) and neutral rewrites (must still load)."""
    paths = list(all_paths(tree))
    names = ["Keyring", "Interface", "Backbone", "Devices", "Device", "GroupAddresses", "Group", "X", "group", "Interfac", "É"]
    attr_names = ["Key", "Address", "Senders", "Host", "Type", "UserID", "Password", "Authentication", "Latency", "Extra",
                  "key", "Ke", "K", "xml:lang", "xmlns:a", "ä", "Signature2", "signature", "Xmlns"]
    out = []
    if exhaustive:
        for p in paths:
            nd = node_at(tree, p)
            for k, v in nd[1]:
                if k in BLACKLIST:
                    continue
                out.append({"t": "attr-set", "path": p, "k": k, "v": mutate_value(rng, v)})
                out.append({"t": "attr-del", "path": p, "k": k})
                out.append({"t": "attr-ren", "path": p, "k": k, "k2": k + "x"})
                out.append({"t": "attr-ren", "path": p, "k": k, "k2": rng.choice(BLACKLIST)})
            out.append({"t": "el-ren", "path": p, "name": nd[0] + "x"})
            out.append({"t": "el-ren", "path": p, "name": "xml:" + nd[0]})   # qualified name with the always-bound prefix
            out.append({"t": "attr-add", "path": p, "k": rng.choice(attr_names), "v": rng.choice(TRICKY[:-1] + ["1"]), "idx": rng.randrange(8)})
            out.append({"t": "el-add", "path": p, "idx": rng.randrange(8), "name": rng.choice(names)})
            if p:
                out.append({"t": "el-del", "path": p})
                out.append({"t": "el-dup", "path": p})
                out.append({"t": "el-wrap", "path": p, "name": rng.choice(names)})
                out.append({"t": "el-unwrap", "path": p})
    for _ in range(n):
        p = rng.choice(paths)
        nd = node_at(tree, p)
        signed = [a for a in nd[1] if a[0] not in BLACKLIST]
        c = rng.randrange(22)
        if c <= 4 and signed:
            k, v = rng.choice(signed)
            out.append({"t": "attr-set", "path": p, "k": k, "v": mutate_value(rng, v)})
        elif c == 5 and signed:
            out.append({"t": "attr-del", "path": p, "k": rng.choice(signed)[0]})
        elif c == 6:
            out.append({"t": "attr-add", "path": p, "k": rng.choice(attr_names), "v": rng.choice(TRICKY[:-1] + ["1", "1.1.1"]), "idx": rng.randrange(8)})
        elif c == 7 and signed:
            k = rng.choice(signed)[0]
            out.append({"t": "attr-ren", "path": p, "k": k, "k2": rng.choice([k + "x", k[:-1] or "q", k.lower() if k.lower() != k else k.upper(), rng.choice(attr_names), "xmlns", "Signature", "xml:" + k])})
        elif c == 8 and len(signed) >= 2:
            a, b = rng.sample(signed, 2)
            out.append({"t": "attr-swap", "path": p, "k": a[0], "k2": b[0]})
        elif c == 9:
            out.append({"t": "el-ren", "path": p, "name": rng.choice([nd[0] + "x", nd[0][:-1] or "q", nd[0].lower(), rng.choice(names), "xml:" + nd[0], "xml:" + nd[0]])})
        elif c == 10:
            out.append({"t": "el-add", "path": p, "idx": rng.randrange(8), "name": rng.choice(names),
                        "attrs": rng.choice([[], [["Address", "1"]], [["xmlns", "u"]]])})
        elif c == 11 and p:
            out.append({"t": "el-del", "path": p})
        elif c == 12 and p:
            out.append({"t": "el-dup", "path": p})
        elif c == 13 and p:
            out.append({"t": rng.choice(["el-wrap", "el-unwrap"]), "path": p, "name": rng.choice(names)})
        elif c == 14 and p:
            out.append({"t": "el-move", "path": p, "to": rng.choice(paths)})
        elif c == 15 and len(nd[2]) >= 2:
            i, j = rng.sample(range(len(nd[2])), 2)
            out.append({"t": "el-swap", "path": p, "i": i, "j": j})
        elif c == 16:
            pw = password
            out.append({"t": "password", "pw": rng.choice([pw + " ", pw[:-1], pw.swapcase() if pw.swapcase() != pw else pw + "x", "", pw + "́", "x" + pw, pw * 2 or "p"])})
        elif c == 17 and rng.random() < 0.5:
            sig = attr(tree, "Signature") or ""
            raw = base64.b64decode(sig) if sig else b""
            out.append(rng.choice([
                {"t": "sig-del"}, {"t": "sig-set", "v": ""}, {"t": "sig-set", "v": "AAAAAAAAAAAAAAAAAAAAAA=="},
                {"t": "sig-set", "v": base64.b64encode(raw[:15]).decode()}, {"t": "sig-set", "v": base64.b64encode(raw + b"\x00").decode()},
                {"t": "sig-set", "v": base64.b64encode(bytes([raw[0] ^ 1]) + raw[1:]).decode() if raw else "AA=="},
                {"t": "sig-set", "v": " " + sig[:7] + " " + sig[7:]}]))  # the last one decodes to the same octets: neutral
        # neutral rewrites
        elif c == 17:
            out.append({"t": "n-attr-order", "path": p})
        elif c == 18:
            out.append({"t": "n-layout", "layout": {"indent": rng.choice(["", " ", "\t", "    "]), "nl": rng.choice(["\n", "\r\n", "", " "]),
                                                    "bom": rng.random() < 0.5, "selfclose": rng.random() < 0.5, "decl": rng.random() < 0.8,
                                                    "comment": rng.choice([None, "c", "Signature"]), "text": rng.choice([None, "text", " \n"])}})
        elif c == 19:
            out.append({"t": "n-blacklisted", "path": p, "k": "xmlns" if not p else rng.choice(BLACKLIST), "v": rng.choice(["", "x", "AAAA", "http://knx.org/xml/keyring/1"])})
        else:
            if signed:
                k, v = rng.choice(signed)
                out.append({"t": "attr-set", "path": p, "k": k, "v": mutate_value(rng, v)})
    return out


# --------------------------------------------------------------------------
# generators
# --------------------------------------------------------------------------

PW_ALPH = "abcdefghijklmnopqrstuvwxyzABCDEFGHIJKLMNOPQRSTUVWXYZ0123456789!@#$%^&*()-_=+[]{};:,.<>/?|~ '\"\\äöüßé€漢🔑"


def rstr(rng, lo, hi, alph=PW_ALPH):
    return "".join(rng.choice(alph) for _ in range(rng.randint(lo, hi)))


def rpw(rng):
    c = rng.randrange(10)
    if c == 0:
        return ""
    if c == 1:
        return rstr(rng, 20, 40)  # longer than ETS allows: more than one padding block
    if c == 2:
        return rng.choice(["\x01", "\x10" * 3, "pw\x02\x02", "0", "\x00"])  # looks like padding
    return rstr(rng, 1, 20)


def rkey(rng):
    return bytes(rng.getrandbits(8) for _ in range(16)).hex()


def rsalt(rng):
    return bytes(rng.getrandbits(8) for _ in range(8)).hex()


def gen_spec(rng, size):
    ias = [rng.choice([0, 1, 0x1100, 0x1101, 0x110A, 0xFFFF, 0xFF00]) if rng.random() < 0.3 else rng.randrange(65536) for _ in range(6)]
    gas = [rng.choice([1, 2, 2305, 65535, 2048]) if rng.random() < 0.4 else rng.randrange(1, 65536) for _ in range(6)]

    def ga(rng):
        g = rng.choice(gas)
        return [g, "3level"] if rng.random() < 0.15 else g

    n_if = rng.choice([0, 0, 1, 1, 2, 3, size])
    n_gr = rng.choice([0, 1, 2, 3, size])
    n_dev = rng.choice([0, 0, 1, 2, size])
    interfaces = []
    for _ in range(n_if):
        it = {"type": rng.choice(["Tunneling", "Tunneling", "Tunneling", "USB", "Backbone"]), "ia": rng.choice(ias)}
        if rng.random() < 0.7:
            it["host"] = rng.choice(ias)
        if rng.random() < 0.7:
            it["user_id"] = rng.choice([0, 1, 2, 127, 255, rng.randrange(1000)])
        if rng.random() < 0.7:
            it["password"], it["pw_salt"] = rpw(rng), rsalt(rng)
        if rng.random() < 0.6:
            it["auth"], it["auth_salt"] = rpw(rng), rsalt(rng)
        it["groups"] = [[ga(rng), [rng.choice(ias) for _ in range(rng.choice([0, 1, 1, 2, 3]))]] for _ in range(rng.choice([0, 0, 1, 2, 4]))]
        interfaces.append(it)
    nb = rng.choice([0, 1, 1, 1, 2])
    backbones = []
    for _ in range(nb):
        b = {}
        if rng.random() < 0.9:
            b["mc"] = rng.choice(["224.0.23.12", "239.1.2.3", ""])
        if rng.random() < 0.8:
            b["latency"] = rng.choice([0, 1000, 2000, rng.randrange(10000)])
        if rng.random() < 0.9:
            b["key"] = rkey(rng)
        backbones.append(b)
    gblocks = []
    for _ in range(rng.choice([0, 1, 1, 1, 2])):
        gblocks.append([[ga(rng), rkey(rng) if rng.random() < 0.9 else None] for _ in range(n_gr)])
    dblocks = []
    for _ in range(rng.choice([0, 1, 1, 2])):
        devs = []
        for _ in range(n_dev):
            d = {"ia": rng.choice(ias)}
            if rng.random() < 0.9:
                d["tool_key"] = rkey(rng)
            if rng.random() < 0.8:
                d["mgmt"], d["mgmt_salt"] = rpw(rng), rsalt(rng)
            if rng.random() < 0.8:
                d["auth"], d["auth_salt"] = rpw(rng), rsalt(rng)
            if rng.random() < 0.7:
                d["seq"] = rng.choice([0, 1, 108, 2**48 - 1, rng.randrange(2**40)])
            devs.append(d)
        dblocks.append(devs)
    order = list("BIGD")
    rng.shuffle(order)
    return {
        "password": rng.choice(["pwd", "test", "", "p", rstr(rng, 1, 30), rstr(rng, 1, 8)]),
        "project": rng.choice(["P", "", rstr(rng, 0, 40), "Project äüö <&> \"q\" 'a'", "tab\there", "x" * 255]),
        "created_by": rng.choice(["ETS 5.7.7 (Build 1428)", "ETS 6.1.0", rstr(rng, 0, 20)]),
        "created": rng.choice(["2023-02-06T21:17:09", "", rstr(rng, 0, 25), "2019-06-11T06:45:22"]),
        "backbones": backbones, "interfaces": interfaces, "group_blocks": gblocks, "device_blocks": dblocks,
        "order": "".join(order), "attr_perm": rng.choice([0, 0, rng.randrange(1, 1 << 30)]),
    }


def receivers_of(rng, ifs_ias):
    r = list(dict.fromkeys(ifs_ias))[:3]
    r.append(rng.randrange(65536))
    return r


def generate(rng, tier):
    thorough = tier != "quick"
    # ---- pure helper streams (mode F) ------------------------------------
    for d in extract_cases(rng, 300 if not thorough else 3000):
        yield {"kind": "extract", "data": d}
    for _ in range(100 if not thorough else 1000):
        key = bytes(rng.getrandbits(8) for _ in range(16))
        iv = bytes(rng.getrandbits(8) for _ in range(16))
        n = rng.choice([0, 16, 16, 32, 32, 48, 64, 15, 17, 1, 31])
        ct = bytes(rng.getrandbits(8) for _ in range(n))
        if rng.random() < 0.5 and n % 16 == 0:
            ct = cbc_encrypt(key, iv, pad_password(bytes(8), rstr(rng, 0, 30)))
        if rng.random() < 0.2 and len(ct) >= 32:
            ct = ct[:16] * 2 + ct[32:]  # repeated block: D must be applied per block, chaining differs
        yield {"kind": "cbc", "key": key.hex(), "iv": iv.hex(), "ct": ct.hex()}
    for _ in range(50 if not thorough else 500):
        yield {"kind": "b64", "data": bytes(rng.getrandbits(8) for _ in range(rng.choice([0, 1, 2, 3, 15, 16, 17, rng.randrange(40)]))).hex()}
    # ---- the ETS exports -----------------------------------------------------
    for fname, pw in ETS_FILES.items():
        tree = ets_tree(fname)
        ias = [parse_ia(attr(c, "IndividualAddress")) for c in tree[2] if c[0] == "Interface"]
        recv = receivers_of(rng, ias)
        for view in ("load", "sigin", "verify", "gkeys", "senders"):
            yield {"kind": "ets", "file": fname, "password": pw, "view": view, "recv": recv, "mut": {"t": "none"}}
        for r in recv:
            yield {"kind": "ets", "file": fname, "password": pw, "view": "gkeys", "gr": r, "recv": recv, "mut": {"t": "none"}}
        for m in gen_mutations(rng, tree, pw, 60 if not thorough else 400, exhaustive=thorough or fname.startswith("DataSecure")):
            yield {"kind": "ets", "file": fname, "password": pw, "view": "verify", "recv": recv, "mut": m}
    # ---- generated keyrings -----------------------------------------------
    for n in range(60 if not thorough else 600):
        spec = gen_spec(rng, rng.choice([1, 2, 5, 8]) if not thorough else rng.choice([1, 2, 5, 12, 30]))
        recv = receivers_of(rng, [i["ia"] for i in spec["interfaces"]])
        for view in ("load", "sigin", "verify", "gkeys", "senders"):
            yield {"kind": "gen", "spec": spec, "view": view, "recv": recv, "mut": {"t": "none"}}
        for r in recv:
            yield {"kind": "gen", "spec": spec, "view": "gkeys", "gr": r, "recv": recv, "mut": {"t": "none"}}
        tree = build_tree(spec)
        for m in gen_mutations(rng, tree, spec["password"], 25 if not thorough else 40, exhaustive=thorough and n % 20 == 0):
            yield {"kind": "gen", "spec": spec, "view": "verify", "recv": recv, "mut": m}
    # ---- strings that do not fit one length octet -----------------------------
    for _ in range(6 if not thorough else 40):
        spec = gen_spec(rng, 1)
        spec["project"] = "x" * rng.choice([256, 257, 300, 1000])
        yield {"kind": "gen", "spec": spec, "view": "sigin", "recv": [], "mut": {"t": "none"}}


def extract_cases(rng, n):
    yield ""
    for ln in (1, 7, 8, 9, 16, 32):
        for last in (0, 1, 2, ln - 9, ln - 8, ln - 7, ln - 1, ln, ln + 1, 255):
            if 0 <= last < 256:
                yield (bytes(rng.getrandbits(7) for _ in range(ln - 1)) + bytes([last])).hex()
    for _ in range(n):
        c = rng.randrange(4)
        if c == 0:
            yield pad_password(bytes(rng.getrandbits(8) for _ in range(8)), rpw(rng)).hex()
        elif c == 1:
            salt = bytes(rng.getrandbits(8) for _ in range(8))
            pw = rpw(rng).encode()
            k = rng.choice([1, 2, 15, 16, 17, 200, 255])
            yield (salt + pw + bytes([k]) * k).hex()
        elif c == 2:
            ln = rng.randrange(1, 40)
            yield bytes(rng.getrandbits(8) for _ in range(ln)).hex()
        else:
            # UTF-8 boundary sequences in the password position
            seqs = [b"\xc2\x80", b"\xc1\xbf", b"\xe0\xa0\x80", b"\xe0\x9f\xbf", b"\xed\x9f\xbf", b"\xed\xa0\x80", b"\xef\xbf\xbf",
                    b"\xf0\x90\x80\x80", b"\xf0\x8f\xbf\xbf", b"\xf4\x8f\xbf\xbf", b"\xf4\x90\x80\x80", b"\xf5\x80\x80\x80",
                    b"\x80", b"\xc2", b"\xe1\x80", b"\xf1\x80\x80", b"\xff", b"\xe1\x80\xc0", b"a\xcc\x81"]
            pw = b"".join(rng.choice(seqs) for _ in range(rng.randint(1, 3)))
            k = rng.randint(1, 16)
            yield (bytes(8) + pw + bytes([k]) * k).hex()


# --------------------------------------------------------------------------
# implementation runner
# --------------------------------------------------------------------------

_tmp = None
_real_kdf = None


def setup():
    global _tmp, _real_kdf
    _tmp = Path(tempfile.mkdtemp(prefix="c31-"))
    _real_kdf = K.hash_keyring_password
    K.hash_keyring_password = functools.lru_cache(maxsize=4096)(_real_kdf)  # memoised, same function
    logging.getLogger("xknx").setLevel(logging.CRITICAL + 1)


def teardown():
    K.hash_keyring_password = _real_kdf
    logging.getLogger("xknx").setLevel(logging.NOTSET)
    shutil.rmtree(_tmp, ignore_errors=True)


class _Recorder(ContentHandler):
    def __init__(self):
        super().__init__()
        self.events = []

    def startElement(self, name, attrs):
        self.events.append(("S", name, list(attrs.items())))

    def endElement(self, name):
        self.events.append(("E",))


def hexs(s):
    return s.encode("utf-8").hex() or "-"


def hexb(b):
    return bytes(b).hex() or "-"


def event_tokens(events):
    toks = []
    for e in events:
        if e[0] == "E":
            toks.append("E")
        elif e[2]:
            toks.append(f"S:{hexs(e[1])}:" + ",".join(f"{hexs(k)}={hexs(v)}" for k, v in e[2]))
        else:
            toks.append(f"S:{hexs(e[1])}")
    return " ".join(toks)


def exc_class(e):
    if isinstance(e, InvalidSecureConfiguration):
        return "reject"
    return f"other:{type(e).__name__}"


def materialise(case):
    """-> (original tree, mutated tree, file text, password used for loading, true password)"""
    if case["kind"] == "ets":
        tree = ets_tree(case["file"])
        true_pw = case["password"]
    else:
        tree = build_tree(case["spec"])
        true_pw = case["spec"]["password"]
    m = case["mut"]
    mt = apply_mutation(tree, m)
    layout = m.get("layout", {}) if m["t"] == "n-layout" else {}
    pw = m["pw"] if m["t"] == "password" else true_pw
    return tree, mt, serialize(mt, layout), pw, true_pw


def run_impl(case):
    kind = case["kind"]
    if kind == "extract":
        data = bytes.fromhex(case["data"])
        try:
            r = "ok " + hexb(K.extract_password(data).encode("utf-8"))
        except UnicodeDecodeError:
            r = "err decode"
        except Exception as e:  # noqa: BLE001
            r = f"other:{type(e).__name__}"
        return {"out": r, "line": f"c31 extract {hexb(data)}"}
    if kind == "cbc":
        key, iv, ct = (bytes.fromhex(case[k]) for k in ("key", "iv", "ct"))
        try:
            r = "ok " + hexb(K.decrypt_aes128cbc(ct, key, iv))
        except ValueError:
            r = "err value"
        dec = b"".join(ecb(key, ct[i:i + 16], False) for i in range(0, len(ct) - len(ct) % 16, 16))
        return {"out": r, "line": f"c31 cbc {hexb(iv)} {hexb(ct)} {hexb(dec)}"}
    if kind == "b64":
        d = bytes.fromhex(case["data"])
        return {"out": hexb(base64.b64encode(d)), "line": f"c31 b64 {hexb(d)}"}
    if kind == "collide":
        return run_collide(case)
    try:
        tree, mt, text, pw, true_pw = materialise(case)
    except ValueError:
        return {"out": "skip mutation-not-applicable", "line": None}
    path = _tmp / "k.knxkeys"
    path.write_text(text, encoding="utf-8")
    view = case["view"]
    recv = case.get("recv", [])
    # the SAX events the real handler receives (pure recorder, same parser construction as the code)
    rec = _Recorder()
    try:
        with path.open(encoding="utf-8") as f:
            p = xml.sax.make_parser()
            p.setContentHandler(rec)
            p.parse(f)
        evtoks = event_tokens(rec.events)
    except xml.sax.SAXException:
        evtoks = None  # not well-formed for the SAX parser: outside the model
    hashed = K.hash_keyring_password(pw.encode("utf-8"))
    if view == "sigin":
        h = K.KeyringSAXContentHandler(pw)
        try:
            with path.open(encoding="utf-8") as f:
                p = xml.sax.make_parser()
                p.setContentHandler(h)
                p.parse(f)
            out = hexb(h.output)
        except ValueError:
            out = "err value"
        except xml.sax.SAXException:
            out = "other:SAXException"
        return {"out": out, "line": None if evtoks is None else f"c31 sigin {hexb(hashed)} {evtoks}".rstrip()}
    if view == "verify":
        # decision of verify_keyring_signature and outcome of the loader on the same file
        try:
            acc = "accept" if K.verify_keyring_signature(path, pw) else "reject"
        except ValueError as e:
            acc = "err value" if type(e) is ValueError else f"other:{type(e).__name__}"
        except Exception as e:  # noqa: BLE001
            acc = f"other:{type(e).__name__}"
        try:
            kr = K.sync_load_keyring(path, pw)
            load = "ok " + render_keyring(kr, recv)
        except Exception as e:  # noqa: BLE001
            load = exc_class(e)
        line = None
        if evtoks is not None and not acc.startswith("other:"):
            # digest/sig for the model: H(handler.output) and the decoded Signature attribute, by the expressions the code uses
            h = K.KeyringSAXContentHandler(pw)
            try:
                with path.open(encoding="utf-8") as f:
                    p = xml.sax.make_parser()
                    p.setContentHandler(h)
                    p.parse(f)
                digest = hashlib.sha256(bytes(h.output)).digest()
            except ValueError:
                digest = b""
            sig = sig_octets(mt) or b""
            line = f"c31 verify {hexb(hashed)} {hexb(sig)} {hexb(digest)} {evtoks}".rstrip()
        return {"out": f"{acc} | {load}", "line": line, "expect": acc}
    # views on the loaded keyring
    try:
        kr = K.sync_load_keyring(path, pw)
    except Exception as e:  # noqa: BLE001
        return {"out": exc_class(e), "line": None}
    if view == "load":
        return {"out": "ok " + render_keyring(kr, recv), "line": None}
    ifs, groups, devs = content_lists(case, mt, pw)
    iftok = ";".join(f"{i['ia']}" + "".join(f"/{g}" + "".join(f".{s}" for s in ss) for g, ss in i["glist"]) for i in ifs) or "-"
    if view == "gkeys":
        r = case.get("gr")
        tbl = kr.get_data_secure_group_keys(receiver=None if r is None else IndividualAddress(r))
        out = rdict({g.raw: k.hex() for g, k in tbl.items()})
        gtok = ";".join(f"{g}:{k if k is not None else 'none'}" for g, k in groups) or "-"
        return {"out": out, "line": f"c31 gkeys {'none' if r is None else r} {iftok} {gtok}"}
    if view == "senders":
        out = rdict({i.raw: s for i, s in kr.get_data_secure_senders().items()})
        dtok = ";".join(f"{d['ia']}:{d['seq']}" for d in devs) or "-"
        return {"out": out, "line": f"c31 senders {iftok} {dtok}"}
    raise ValueError(view)


def content_lists(case, tree, pw):
    """plain content (harness view) as lists for the model's table ops: interfaces with their Group children in
    document order, group keys, devices"""
    key, iv = kdf(pw), iv_of(attr(tree, "Created") or "")
    ifs, groups, devs = [], [], []
    for c in tree[2]:
        if c[0] == "Interface":
            gl = [(parse_ga(attr(g, "Address")), [parse_ia(s) for s in (attr(g, "Senders") or "").split()]) for g in c[2] if g[0] == "Group"]
            ifs.append({"ia": parse_ia(attr(c, "IndividualAddress")), "glist": gl})
        elif c[0] == "GroupAddresses":
            for g in c[2]:
                if g[0] == "Group":
                    kv = attr(g, "Key")
                    groups.append((parse_ga(attr(g, "Address")), cbc_decrypt(key, iv, base64.b64decode(kv)).hex() if kv else None))
        elif c[0] == "Devices":
            for d in c[2]:
                if d[0] == "Device":
                    devs.append({"ia": parse_ia(attr(d, "IndividualAddress")), "seq": int(attr(d, "SequenceNumber") or 0)})
    return ifs, groups, devs


def run_collide(case):
    """Two different element trees X, Y under a Keyring root; sign with X, load with Y in its place."""
    pw = case["password"]
    root = ["Keyring", [["Project", "p"], ["CreatedBy", "c"], ["Created", "t"], ["Signature", ""],
                        ["xmlns", "http://knx.org/xml/keyring/1"]], [case["x"]]]
    set_attr(root, "Signature", sign(root, pw))
    other = copy.deepcopy(root)
    other[2] = [case["y"]]
    path = _tmp / "k.knxkeys"
    res = []
    for t in (root, other):
        path.write_text(serialize(t, {}), encoding="utf-8")
        try:
            K.sync_load_keyring(path, pw)
            res.append("ok")
        except Exception as e:  # noqa: BLE001
            res.append(exc_class(e))
    rec = _Recorder()
    with path.open(encoding="utf-8") as f:
        p = xml.sax.make_parser()
        p.setContentHandler(rec)
        p.parse(f)
    h = K.KeyringSAXContentHandler(pw)
    with path.open(encoding="utf-8") as f:
        p = xml.sax.make_parser()
        p.setContentHandler(h)
        p.parse(f)
    return {"out": " ".join(res), "line": f"c31 sigin {hexb(K.hash_keyring_password(pw.encode()))} {event_tokens(rec.events)}",
            "expect": hexb(h.output)}


# --------------------------------------------------------------------------
# oracle: the property on the implementation's behaviour
# --------------------------------------------------------------------------


def oracle(case, out):
    kind = case["kind"]
    if kind == "extract":
        data = bytes.fromhex(case["data"])
        if out.startswith("other:"):
            return f"extract_password raised {out[6:]}"
        # whenever the data has the keyring layout (8 octets, text, n octets of value n) the text comes back
        if len(data) >= 9:
            n = data[-1]
            if 1 <= n <= len(data) - 8 and data[-n:] == bytes([n]) * n:
                body = data[8:len(data) - n]
                try:
                    body.decode("utf-8")
                except UnicodeDecodeError:
                    return None if out == "err decode" else f"undecodable password octets gave {out}"
                if out != "ok " + hexb(body):
                    return f"padded password {body!r} extracted as {out}"
        return None
    if kind == "cbc":
        key, iv, ct = (bytes.fromhex(case[k]) for k in ("key", "iv", "ct"))
        if len(ct) % 16:
            return None if out == "err value" else f"partial block accepted: {out}"
        if out != "ok " + hexb(cbc_decrypt(key, iv, ct)):
            return "decrypt_aes128cbc differs from AES-ECB + CBC chaining"
        return None
    if kind == "b64":
        return None
    if kind == "collide":
        if norm(case["x"]) != norm(case["y"]) and out == "ok ok":
            return "two keyrings with different signed content (names/attributes/structure) verify under the same signature"
        return None
    if out.startswith("skip"):
        return None
    view = case["view"]
    try:
        tree, mt, _text, pw, true_pw = materialise(case)
    except ValueError:
        return None
    if view in ("gkeys", "senders", "sigin"):
        if view == "sigin" and case["mut"]["t"] == "none":
            want = own_sig_input(mt, kdf(pw))
            if want is None:
                return None  # a string does not fit a length octet: not signable; behaviour is not fixed by the property
            if out != hexb(want):
                return "hashed octets differ from the keyring signature format"
        return None
    changed = norm(tree) != norm(mt) or pw != true_pw or sig_octets(tree) != sig_octets(mt)
    signable = own_sig_input(mt, kdf(pw)) is not None
    load = out.split(" | ")[1] if view == "verify" else out
    acc = out.split(" | ")[0] if view == "verify" else None
    if changed:
        if load.startswith("ok"):
            return f"keyring loaded although the signed content / password was changed ({case['mut']['t']})"
        if acc == "accept":
            return f"signature verified although the signed content / password was changed ({case['mut']['t']})"
        return None
    if not signable:
        return None
    # unchanged signed content: must load, exactly
    recv = case.get("recv", [])
    if case["kind"] == "gen":
        want = expected_from_spec(case["spec"], recv)
    else:
        want = expected_from_tree(mt, pw, recv)
    if acc is not None and acc != "accept":
        return f"correct keyring and password not verified ({acc})"
    if load != "ok " + want:
        return "loaded content differs from what the keyring contains: " + first_diff(load, "ok " + want)
    return None


def sig_octets(tree):
    try:
        return base64.b64decode(attr(tree, "Signature") or "")
    except Exception:  # noqa: BLE001
        return None


def first_diff(a, b):
    pa, pb = a.split(" "), b.split(" ")
    for x, y in zip(pa, pb):
        if x != y:
            return f"got {x[:200]} want {y[:200]}"
    return f"got {len(pa)} fields want {len(pb)}"


def nontrivial(case, out):
    return not out.startswith("skip")


def outcome_class(out):
    if " | " in out:
        a, b = out.split(" | ")
        return a + "|" + b.split(" ")[0]
    h = out.split(" ")[0]
    if h in ("ok", "err", "reject", "skip", "accept", "-") or h.startswith("other:"):
        return h if h != "err" else out[:12]
    return "table" if ":" in h else "octets"


def finding_key(case, msg):
    if case["kind"] == "collide":
        return "collide:" + case.get("name", "?")
    if case["kind"] in ("extract", "cbc", "b64"):
        return f"{case['kind']}:{case.get('data', case.get('ct'))}"
    m = case["mut"]
    src = case.get("file") or hashlib.sha256(json.dumps(case["spec"], sort_keys=True).encode()).hexdigest()[:10]
    return f"{src}:{case['view']}:{json.dumps(m, sort_keys=True)}"


def shrink(case, msg):
    """drop list entries of the spec while the oracle still complains (unmutated generated keyrings only)"""
    if case["kind"] != "gen" or case["mut"]["t"] != "none":
        return case
    best = copy.deepcopy(case)

    def fails(c):
        try:
            r = run_impl(c)
            return bool(oracle(c, r["out"] if isinstance(r, dict) else r))
        except Exception:  # noqa: BLE001
            return False
    for field in ("interfaces", "backbones", "group_blocks", "device_blocks"):
        i = 0
        while i < len(best["spec"][field]):
            c = copy.deepcopy(best)
            del c["spec"][field][i]
            if fails(c):
                best = c
            else:
                i += 1
    return best
