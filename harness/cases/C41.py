"""C41 Exposed values respect cooldown and always end up on the bus (mode R, virtual time).

One real ExposeSensor (value_type "temperature": many values share a payload) on a real XKNX with a stub
interface on the virtual-time loop.  A case is a configuration and a history
  events: [op, arg, gap_us]
     set  [value index, skip_unchanged]     await expose.set(v, skip_unchanged)
     init value index | null                expose.initialize_value(v | None)
     read                                   incoming GroupValueRead
     bus  value index                       incoming GroupValueWrite from another device
     busr value index                       incoming GroupValueResponse from another device
     conn 0|1                               connection lost / re-established
     q                                      sample only
The harness lets the loop go quiescent before it injects (timers due at t fire before an input at t) and
records inputs, every frame that leaves through the interface (W = GroupValueWrite, R = GroupValueResponse;
payload as integer) and a sample of the value the device holds (`resolve_state()`, re-encoded) after every
event, with virtual times in µs.
"""
from harness import devsim
from harness.devsim import GRID
from xknx.devices import ExposeSensor
from xknx.dpt import DPTArray, DPTTemperature
from xknx.telegram.apci import GroupValueResponse, GroupValueWrite

PROPERTY = "C41"
RULE = ("update/read/initialize/bus-write/connection histories (<=30 events) with inter-arrival times from {0, ~c/3, c-e, c, c+e, 3c, "
        "p-e, p, p+e, |p-c|, p mod c, c mod p} (e = 1/64 s, all on the 1/64 s grid) x cooldown in {0, 1 s, 5 s, 10 s} x periodic_send in {0, 4 s, 7 s} "
        "(periodic shorter and longer than the cooldown) x respond_to_read x "
        "initially connected; values from 8 temperatures with 6 distinct payloads (skip_unchanged on 35% of the sets); fixed scripts for "
        "every configuration first. non-trivial = some frame left the device at a time that is not the time of an input (a timer sent it)")
TRUSTED = ["model XknxVerif.Model.Expose is a hand-written monitor; tied to expose_sensor.py/task_registry.py by trace acceptance on every run",
           "harness/vloop.py + harness/devsim.py: virtual clock, stub KNX/IP interface confirming every frame at once (failing with "
           "CommunicationError while disconnected), rate_limit=0, so a frame is processed by the device in the instant it is sent",
           "timer-first discipline: the harness yields until the loop is quiescent before injecting; inputs processed at the very instant "
           "a timer is due but before it fires are not generated"]
CASE_TIMEOUT = 10.0
GA = "1/2/3"
VALUES = [10.0, 21.0, 21.000123, 22.0, 3.11, 3.111, -5.5, 0.0]
E = GRID


def enc(v):
    return int.from_bytes(bytes(DPTTemperature.to_knx(v).value), "big")


def cfg_str(case):
    return f"{case['cooldown']}:{case['periodic']}:{int(case['respond'])}:{int(case.get('connected', True))}"


def _pl(p):
    return "-" if p is None else p


async def _scenario(sim, case):
    xknx = sim.xknx
    dev = ExposeSensor(xknx, "dev", group_address=GA, value_type="temperature", respond_to_read=case["respond"],
                       cooldown=devsim.secs(case["cooldown"]), periodic_send=devsim.secs(case["periodic"]))

    def on_bus(cemi):
        p = cemi.data.payload
        if isinstance(p, (GroupValueWrite, GroupValueResponse)):
            sim.rec("W" if isinstance(p, GroupValueWrite) else "R", int.from_bytes(bytes(p.value.value), "big"), sim.now())
        else:
            sim.rec("bus-other", type(p).__name__, sim.now())
    sim.on_bus = on_bus
    xknx.devices.async_add(dev)
    await sim.start(connected=case.get("connected", True))

    def sample():
        v = dev.resolve_state()
        sim.rec("q", _pl(None if v is None else enc(v)), sim.now())

    t = 0
    for op, arg, gap in case["events"]:
        t += gap
        await sim.sleep_until(t)
        if op == "set":
            p = enc(VALUES[arg[0]])
            sim.rec("set", p, int(bool(arg[1])), sim.now())
            await dev.set(VALUES[arg[0]], skip_unchanged=bool(arg[1]))
        elif op == "init":
            sim.rec("init", _pl(None if arg is None else enc(VALUES[arg])), sim.now())
            dev.initialize_value(None if arg is None else VALUES[arg])
        elif op == "read":
            sim.rec("read", sim.now())
            sim.incoming(GA, None, "read")
        elif op in ("bus", "busr"):
            p = enc(VALUES[arg])
            sim.rec("bus", p, sim.now())
            sim.incoming(GA, DPTArray(tuple(p.to_bytes(2, "big"))), "write" if op == "bus" else "response")
        elif op == "conn":
            sim.rec("conn", int(bool(arg)), sim.now())
            sim.set_connected(bool(arg))
        await sim.loop.settle()
        sample()
    await sim.loop.settle()
    sim.rec("fin", sim.now())


def run_impl(case):
    trace, errors = devsim.run(_scenario, case)
    s = ";".join(trace + [f"err,{e}" for e in errors])
    return {"out": s, "line": f"c41 monitor {cfg_str(case)} {s or '-'}", "expect": "accept"}


# ----------------------------------------------------------------------------------------------
# generator
# ----------------------------------------------------------------------------------------------
COOLS = [0, 1_000_000, 5_000_000, 10_000_000]
PERS = [0, 4_000_000, 7_000_000]      # 4 s < 5 s, 10 s: periodic task fires while a value is deferred


def third(c):
    return (c // 3) // E * E


def gaps_for(c, p):
    g = {0, E, 250_000}
    if c:
        g |= {third(c), c - E, c, c + E, 3 * c, c // 2}
    if p:
        g |= {p - E, p, p + E}
    if c and p:
        # the two timers meet: |p - c|, p mod c, c mod p (ties of cooldown and periodic task), around them
        for x in (abs(p - c), p % c, c % p, abs(p - c) + E, max(abs(p - c) - E, 0)):
            g.add(x)
    return sorted(x for x in g if x >= 0)


def mk(cool, per, respond=True, connected=True, events=()):
    return {"cooldown": cool, "periodic": per, "respond": respond, "connected": connected, "events": [list(e) for e in events]}


def scripts(c, p):
    C = c or 1_000_000
    P = p or 7_000_000
    # the repo's own cooldown test, generalised
    yield [["set", [1, 0], 0], ["set", [2, 0], 0], ["q", 0, C], ["set", [0, 0], 0], ["set", [5, 0], 0], ["q", 0, C], ["q", 0, C],
           ["set", [0, 0], 0], ["set", [1, 0], 0], ["read", 0, 0], ["q", 0, C], ["q", 0, 2 * C]]
    # set during cooldown, values around the deadline
    yield [["set", [0, 0], 0], ["set", [1, 0], third(C)], ["set", [3, 0], C - E - third(C)], ["set", [4, 0], E], ["set", [6, 0], E],
           ["q", 0, C - E], ["q", 0, E], ["q", 0, 3 * C]]
    # skip_unchanged against an older bus value
    yield [["set", [1, 1], 0], ["bus", 3, third(C)], ["set", [2, 1], E], ["set", [1, 1], E], ["q", 0, C], ["set", [3, 1], C], ["bus", 1, E],
           ["set", [3, 1], E], ["read", 0, E], ["q", 0, 3 * C]]
    # connection loss during cooldown
    yield [["set", [0, 0], 0], ["set", [1, 0], third(C)], ["conn", 0, E], ["q", 0, 2 * C], ["set", [3, 0], 0], ["set", [4, 0], E],
           ["conn", 1, C], ["q", 0, C - E], ["q", 0, E], ["q", 0, P + C]]
    # initialize_value, clearing, bus write during cooldown
    yield [["init", 1, 0], ["read", 0, E], ["set", [2, 1], E], ["set", [3, 0], E], ["init", None, third(C)], ["bus", 4, E], ["q", 0, 3 * C],
           ["read", 0, 0], ["init", 6, E], ["q", 0, P], ["q", 0, P]]
    # periodic task fires while a value is deferred (periodic < cooldown): set, a different set inside the window, wait
    yield [["set", [0, 0], 0], ["set", [3, 0], C // 10], ["q", 0, C - C // 10 - E], ["q", 0, E], ["q", 0, E], ["q", 0, C + P]]
    yield [["set", [1, 0], 0], ["set", [3, 0], third(C)], ["bus", 1, E], ["set", [6, 1], E], ["read", 0, P], ["q", 0, 2 * C + P]]
    # cooldown and periodic timer due at the same instant (first write at 0 arms both; P later the periodic write re-arms)
    yield [["set", [0, 0], 0], ["set", [3, 0], max(P - C, 0) + E], ["q", 0, 3 * max(C, P)], ["bus", 1, E], ["q", 0, 3 * max(C, P)]]
    yield [["set", [0, 0], 0], ["bus", 1, abs(P - C)], ["q", 0, 4 * max(C, P)]]
    # periodic sending and reads
    yield [["q", 0, P + E], ["set", [0, 0], 0], ["q", 0, P - E], ["q", 0, E], ["set", [1, 0], E], ["read", 0, third(C)], ["bus", 0, E],
           ["q", 0, P], ["conn", 0, E], ["q", 0, P], ["conn", 1, 0], ["q", 0, P + E]]


def generate(rng, tier):
    for c in COOLS:
        for p in PERS:
            for sc in scripts(c, p):
                yield mk(c, p, True, True, sc)
                yield mk(c, p, False, False, [["conn", 1, 250_000]] + sc)
    n = 3000 if tier == "quick" else 60000
    for _ in range(n):
        c = rng.choice(COOLS if rng.random() < 0.9 else COOLS[1:])
        p = rng.choice(PERS)
        gaps = gaps_for(c, p)
        connected = rng.random() < 0.92
        evs = []
        up = connected
        for _ in range(rng.randint(1, 30)):
            r = rng.random()
            gap = rng.choice(gaps) if rng.random() < 0.92 else rng.randrange(0, 400) * E
            if r < 0.48:
                evs.append(["set", [rng.randrange(len(VALUES)), int(rng.random() < 0.35)], gap])
            elif r < 0.63:
                evs.append(["read", 0, gap])
            elif r < 0.75:
                evs.append(["bus" if rng.random() < 0.8 else "busr", rng.randrange(len(VALUES)), gap])
            elif r < 0.81:
                evs.append(["init", None if rng.random() < 0.3 else rng.randrange(len(VALUES)), gap])
            elif r < 0.88:
                up = (not up) if rng.random() < 0.85 else up
                evs.append(["conn", int(up), gap])
            else:
                evs.append(["q", 0, gap])
        if not up:
            evs.append(["conn", 1, rng.choice(gaps)])
        evs.append(["q", 0, 3 * max(c, E) + E])
        if p:
            evs.append(["q", 0, p + E])
        yield mk(c, p, rng.random() < 0.9, connected, evs)


# ----------------------------------------------------------------------------------------------
# the property on the trace (no model)
# ----------------------------------------------------------------------------------------------

def parse(out):
    evs = []
    for tok in out.split(";"):
        f = tok.split(",")
        evs.append([f[0]] + [None if x == "-" else (int(x) if x.lstrip("-").isdigit() else x) for x in f[1:]])
    return evs


def oracle(case, out):
    evs = parse(out)
    for e in evs:
        if e[0] == "err":
            return f"device code raised {e[1]} (only logged by xknx)"
        if e[0] == "bus-other":
            return f"unexpected frame on the bus: {e[1]}"
    c, p, respond = case["cooldown"], case["periodic"], case["respond"]
    end = evs[-1][-1]
    # --- annotate: connection state, value set last, bus value before each event -------------------
    conn = case.get("connected", True)
    last_set = None         # payload set/initialised last
    bus = None              # value last on the bus, from the samples
    ann = []                # (event, conn, last_set_before, bus_before)
    for e in evs:
        ann.append((e, conn, last_set, bus))
        k = e[0]
        if k == "conn":
            conn = bool(e[1])
        elif k == "set":
            last_set = e[1]
        elif k == "init":
            last_set = e[1]
            bus = e[1]
        elif k in ("W", "R", "bus"):
            bus = e[1]
        elif k == "q":
            bus = e[1]
    # --- (C) read requests are answered with the most recent value -----------------------------------
    for i, (e, cn, ls, b) in enumerate(ann):
        if e[0] == "read":
            want = (ls if ls is not None else b) if (respond and cn) else None
            got = [x for x in evs[i + 1:i + 3] if x[0] == "R" and x[2] == e[1]]
            if want is None and got:
                return f"read request at t={e[1]} answered with {got[0][1]} (respond_to_read={respond}, connected={cn}, nothing to report)"
            if want is not None and (not got or got[0][1] != want):
                return (f"read request at t={e[1]} answered with {got[0][1] if got else 'nothing'}; most recent value is {want} "
                        f"(set last: {ls}, bus: {b})")
    n_reads = sum(1 for e in evs if e[0] == "read")
    if sum(1 for e in evs if e[0] == "R") > n_reads:
        return "more responses than read requests"
    # --- which writes are caused by the periodic task (exempt from the spacing rule) --------------------
    per_due = p if p else None
    conn = case.get("connected", True)
    upd_writes = []
    for e in evs:
        k, t = e[0], e[-1]
        while per_due is not None and per_due < t:
            per_due += p          # fired without sending (nothing set yet)
        if k == "W":
            if per_due is not None and t == per_due:
                pass              # periodic (or coinciding with it)
            else:
                upd_writes.append(t)
            if p:
                per_due = t + p
        elif k == "R":
            if p:
                per_due = t + p
        elif k == "conn":
            if bool(e[1]) != conn:
                conn = bool(e[1])
                per_due = (t + p) if (conn and p) else None
    # --- (A) update-caused writes are at least the cooldown apart ------------------------------------------
    for a, b in zip(upd_writes, upd_writes[1:]):
        if b - a < c:
            return f"value telegrams caused by updates at t={a} and t={b}: only {b - a} us apart, cooldown {c}"
    # --- (B)+(D) the value set last is on the bus within one cooldown after the last update ------------------
    for i, (e, cn, ls, b) in enumerate(ann):
        if e[0] != "set":
            continue
        pay, skip, ts = e[1], e[2], e[3]
        if skip and pay == ls:
            continue                      # the only case skip_unchanged may suppress: equal to the value set last
        we = ts + c
        if we > end or not cn:
            continue
        void = False
        for (e2, _, _, _) in ann[i + 1:]:
            t2 = e2[-1]
            if t2 >= we and not (c == 0 and t2 == we):
                break
            if e2[0] == "init" or (e2[0] == "set") or (e2[0] == "conn" and not e2[1]):
                # a newer update (even a skipped one re-states the value) or a connection loss before the deadline
                void = True
                break
        if void:
            continue
        ok = b == pay
        for (e2, _, _, _) in ann[i + 1:]:
            t2 = e2[-1]
            if t2 > we:
                break
            if e2[0] in ("W", "R", "bus") and e2[1] == pay:
                ok = True
                break
        if not ok:
            return (f"value {pay} set at t={ts} (skip_unchanged={skip}, value set before: {ls}, bus: {b}) is not on the bus by t={we} "
                    f"(cooldown {c}): lost update")
    return None


def nontrivial(case, out):
    evs = parse(out)
    in_times = {e[-1] for e in evs if e[0] in ("set", "read", "conn", "init", "bus")}
    return any(e[0] in ("W", "R") and e[-1] not in in_times for e in evs)


def outcome_class(out):
    evs = parse(out)
    return ("timer" if nontrivial(None, out) else "plain") + f":{min(len(evs) // 10, 9)}0+"


def finding_key(case, msg):
    return cfg_str(case) + " " + ";".join(f"{o},{a},{g}" for o, a, g in case["events"])


def shrink(case, msg):
    def fails(cnd):
        try:
            m = oracle(cnd, run_impl(cnd)["out"])
        except Exception:  # noqa: BLE001
            return False
        return bool(m) and m.split()[:3] == msg.split()[:3]
    cur = dict(case)
    changed = True
    while changed:
        changed = False
        for i in range(len(cur["events"])):
            evs = cur["events"]
            nxt = [list(e) for e in evs[:i] + evs[i + 1:]]
            if i < len(evs) - 1:
                nxt[i][2] += evs[i][2]
            cand = dict(cur)
            cand["events"] = nxt
            if nxt and fails(cand):
                cur = cand
                changed = True
                break
    return cur
