"""C06 Encoding an application PDU never silently changes a field."""
from __future__ import annotations

import itertools

from harness import apci_lib as L

PROPERTY = "C06"
MODULES = ["XknxVerif.Props.C06"]
CASE_TIMEOUT = 5.0
RULE = ("every concrete APCI class found by introspection (a class without table row / with an unknown field type is reported); "
        "per class: each int attribute swept over -2^32..2^33 (0..70 completely, 2^k-1/2^k/2^k+1 for k<=33, the documented "
        "bounds 250/251/254/255/4095/4096/65535/65536/2^20/2^24) with the other attributes valid; each bytes attribute with every "
        "length 0..20; addresses, DPTBinary/DPTArray, address lists, optional attributes in all None/set combinations, all SCF "
        "combinations, Data Secure field lengths; plus random 'wild' objects. Outcome refused | bytes, compared with the Lean "
        "model; oracle: bytes must decode (APCI.from_knx) to a field-wise equal object. Non-trivial = distinct object.")
TRUSTED = ["model XknxVerif.Model.APCI.* is hand-written (layout table + generic interpreter); tied by this differential run",
           "which exception refuses (struct.error, ConversionError, ValueError, TypeError, CouldNotParseAddress, NotImplementedError; "
           "at construction or in to_knx) is not constrained by the property: canonicalised to 'refused'",
           "harness/apci_lib.py canonicalisation of service objects (field-wise structural equality, no __eq__)"]

INTS = sorted(set(range(-2, 71)) | {-(2 ** 32), -(2 ** 31), 250, 251, 253, 254, 255, 256, 4095, 4096, 65535, 65536,
                                    2 ** 20 - 1, 2 ** 20, 2 ** 24 - 1, 2 ** 24, 2 ** 32 - 1, 2 ** 32, 2 ** 33}
              | {2 ** k + d for k in range(1, 34) for d in (-1, 0, 1)})
ADDRS = [-1, 0, 1, 4660, 65535, 65536, 2 ** 32]
_STASH = {}
STATS = {"classes": set(), "accepted": 0, "refused": 0}


def op(cls_name, toks):
    return {"op": ("apci enc " + L.canon_tokens(cls_name, toks)).rstrip()}


def generate(rng, tier):
    reps = 1 if tier == "quick" else 4
    wild = 60 if tier == "quick" else 1500
    for name in sorted(L.CLASSES):
        kinds = L.field_kinds(L.CLASSES[name])
        if any(k is None for _, k in kinds):
            yield {"op": f"apci enc {name}", "unmodelled": True}
            continue

        def base():
            return L.tidy_tokens(rng, name, L.rand_tokens(rng, name))
        yield op(name, base())
        for attr, kind in kinds:
            for _ in range(reps):
                if kind in ("int", "int?"):
                    for v in INTS:
                        t = base()
                        if name == "DomainAddressSerialNumberWrite":
                            t = dict(t, domain_address=L.tok_bytes(L.rand_bytes(rng, 4)), backbone_key=L.tok_bytes(L.rand_bytes(rng, 16)))
                        t[attr] = L.tok_int(v)
                        yield op(name, t)
                elif kind in ("bytes", "bytes?"):
                    for n in range(21):
                        t = base()
                        if name == "DomainAddressSerialNumberWrite" and attr == "backbone_key":
                            t = dict(t, domain_address=L.tok_bytes(L.rand_bytes(rng, 4)), routing_security_version=L.tok_int(rng.randrange(256)))
                        t[attr] = L.tok_bytes(L.rand_bytes(rng, n))
                        if name in ("MemoryBitWrite", "UserMemoryBitWrite") and rng.random() < 0.5:
                            other = "xor_data" if attr == "and_data" else "and_data"
                            t[other] = L.tok_bytes(L.rand_bytes(rng, n))
                        yield op(name, t)
                elif kind == "bool":
                    for b in (False, True):
                        yield op(name, dict(base(), **{attr: L.tok_bool(b)}))
                elif kind in ("ia", "ga"):
                    for v in ADDRS:
                        yield op(name, dict(base(), **{attr: L.tok_int(v)}))
                elif kind == "dpt":
                    for v in list(range(-1, 66)) + [255, 256, 2 ** 32]:
                        yield op(name, dict(base(), **{attr: L.tok_int(v)}))
                    for n in range(21):
                        yield op(name, dict(base(), **{attr: L.tok_bytes(L.rand_bytes(rng, n))}))
                elif kind == "galist":
                    for n in range(10):
                        yield op(name, dict(base(), **{attr: L.tok_bytes(L.rand_bytes(rng, 2 * n))}))
                    # lists are not sets: repeated entries, alternating entries, a repeat that brings the count over the limit
                    for n in range(2, 9):
                        a, b = L.rand_bytes(rng, 2), L.rand_bytes(rng, 2)
                        for lst in (a * n, (a + b) * (n // 2) + a * (n % 2), a + b * (n - 2) + a, bytes(2 * n), b"\xff\xff" * n,
                                    b"".join(L.rand_bytes(rng, 2) for _ in range(n - 1)) + a + a):
                            yield op(name, dict(base(), **{attr: L.tok_bytes(lst)}))
                elif kind == "scf":
                    for ta, al, sb, sv in itertools.product("TF", (0, 1), "TF", (0, 2, 3)):
                        yield op(name, dict(base(), **{attr + ".tool_access": "b" + ta, attr + ".algorithm": f"i{al}",
                                                       attr + ".system_broadcast": "b" + sb, attr + ".service": f"i{sv}"}))
                elif kind == "securedata":
                    for sub in ("sequence_number_bytes", "secured_apdu", "message_authentication_code"):
                        for n in range(21):
                            yield op(name, dict(base(), **{f"{attr}.{sub}": L.tok_bytes(L.rand_bytes(rng, n))}))
        # optional attributes: every None / set combination with every domain address length
        if name == "DomainAddressSerialNumberWrite":
            for n in range(9):
                for rsv, key in itertools.product((None, 0, 255, 256, -1), (None, 0, 15, 16, 17)):
                    t = {"serial": L.tok_bytes(L.rand_bytes(rng, 6)), "domain_address": L.tok_bytes(L.rand_bytes(rng, n))}
                    if rsv is not None:
                        t["routing_security_version"] = L.tok_int(rsv)
                    if key is not None:
                        t["backbone_key"] = L.tok_bytes(L.rand_bytes(rng, key))
                    yield op(name, t)
        for _ in range(wild):
            t = L.rand_tokens(rng, name, wild=True)
            yield op(name, t if rng.random() < 0.5 else L.tidy_tokens(rng, name, t))


def parse_op(line):
    t = line.split()
    return t[2], dict(p.split("=", 1) for p in t[3:])


def run_impl(case):
    _STASH.clear()
    if case.get("unmodelled"):
        return "unmodelled"
    name, toks = parse_op(case["op"])
    STATS["classes"].add(name)
    try:
        obj = L.build(name, toks)
        raw = bytes(obj.to_knx())
    except Exception:  # noqa: BLE001  any refusal (see TRUSTED)
        STATS["refused"] += 1
        return "refused"
    STATS["accepted"] += 1
    want = L.canon_tokens(name, toks)
    back = L.dec_outcome(raw)
    if not back.startswith("ok "):
        _STASH[case["op"]] = f"{want} encodes to {raw.hex()}, which APCI.from_knx rejects ({back})"
    elif L.split_dec(back)[0] != want:
        _STASH[case["op"]] = f"{want} encodes to {raw.hex()}, which decodes to {L.split_dec(back)[0]}"
    return "ok x" + raw.hex()


def oracle(case, out):
    if out == "unmodelled":
        return f"service class {case['op'].split()[2]} has a field type the harness does not model"
    return _STASH.get(case["op"])


def outcome_class(out):
    return out.split(" ")[0]


def finding_key(case, msg):
    return case["op"]


def shrink(case, msg):
    """Replace attributes by zero / empty / shorter values while the same kind of failure persists."""
    from harness.framework import with_timeout
    name, toks = parse_op(case["op"])

    def fails(t):
        c = op(name, t)
        try:
            out = with_timeout(lambda: run_impl(c), 5.0)
        except Exception:  # noqa: BLE001
            return False
        return bool(oracle(c, out))
    for k in sorted(toks):
        cur = toks[k]
        cands = ((["i0", "i1"] if abs(int(cur[1:])) > 1 else []) if cur[0] == "i"
                 else (["x", "x" + cur[1:3]] if len(cur) > 3 else []) if cur[0] == "x" else [])
        for cand in cands:
            if cand != toks[k] and fails(dict(toks, **{k: cand})):
                toks = dict(toks, **{k: cand})
                break
    fails(toks)
    return op(name, toks)


def evidence_extra():
    return {"service_classes_discovered": len(L.CLASSES), "service_classes_exercised": len(STATS["classes"]),
            "objects_accepted": STATS["accepted"], "objects_refused": STATS["refused"],
            "unmodelled_classes": L.unmodelled_classes()}
