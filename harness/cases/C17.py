"""C17 Data Secure enforces sequence-number freshness in both directions.

Mode F, whole histories.  One real `DataSecure` object receives generated frames (genuine, replayed, reordered,
forged, unknown sender, wrong service / tool access, plain, point-to-point, authentic-but-malformed-inside) from
several senders, interleaved with send requests; after every event the harness records the observation, the
last-valid-counter table and the sending counter.  The same history, abstracted to the tests `received_cemi`
makes (with "verification succeeds" decided by how the harness built the frame), runs through the Lean
automaton `DataSecure.step`; the two records must be equal.  The oracle is an independent reference
last-valid-counter model in Python, evaluated on the real object's observations only.
"""
from xknx.telegram.apci import APCI

from harness.dsec_common import *  # noqa: F403

from xknx.exceptions import CommunicationError, ConfirmationError

from harness import vloop

PROPERTY = "C17"
RULE = ("histories of 4..40 events over 1..4 known senders + unknown ones, 2 keyed + 1 unkeyed group address; "
        "start counters from the boundary dictionary (1, 2^47, 2^48-3..2^48-1) so that exhaustion is reached; "
        "frame kinds: genuine/replay/lower/equal/forged-MAC/wrong-key/changed-payload/unknown-sender/unkeyed/"
        "plain/p2p/tool/broadcast/other-service/malformed-inner; non-trivial = history with at least one delivery "
        "or one send; ROUND 2: send-side histories of 2..16 calls of the real CEMIHandler.send_telegram with a "
        "knxip_interface.send_cemi scripted per call {ok, CommunicationError after recording the frame, "
        "ConversionError, no confirmation}, keyed/unkeyed/individual destinations, direct outgoing_cemi calls and "
        "received frames in between, counters near 2^48; observed: the sequence numbers of all frames HANDED to the "
        "interface, each fed in order to an independent receiving DataSecure")
TRUSTED = [
    "the abstraction frame -> event (which tests pass, whether the MAC verifies) is computed by the harness from how it built the frame; `verify` is an uninterpreted input of the automaton",
]
CASE_TIMEOUT = 20.0

GAS = [0x0A03, 0x7FFF, 0x0001]          # first two keyed
IAS = [0x1101, 0x1102, 0xFFFF, 0x0001]
UNKNOWN = [0x2222, 0x0000, 0x1100]
GOOD_APDUS = ["0000", "0081", "0080aabb", "0040112233445566778899aabbccddee"]
BAD_APDUS = ["-", "00", "03", "0100", "02c3", "03d7", "03f1", "03f110"]   # APCI.from_knx refuses these


def gen_history(rng, n):
    nsend = rng.randrange(1, 5)
    senders = {ia: rng.choice([0, 1, 5, 2**47, 2**48 - 3, rng.randrange(2**48 - 1)]) for ia in IAS[:nsend]}
    send_seq = rng.choice([1, 2, 2**47, 2**48 - 3, 2**48 - 2, 2**48 - 1, rng.randrange(1, 2**48)])
    keys = {str(GAS[0]): rng.randbytes(16).hex(), str(GAS[1]): rng.randbytes(16).hex()}
    sent = {ia: [] for ia in senders}      # numbers already used per sender (for replays)
    hi = dict(senders)
    evs = []
    for _ in range(n):
        r = rng.random()
        if r < 0.2:
            evs.append({"t": "send", "dst": rng.choice(GAS), "group": int(rng.random() < 0.9),
                        "apdu": rng.choice(GOOD_APDUS)})
            continue
        src = rng.choice(list(senders))
        kind = rng.choice(["genuine"] * 6 + ["replay", "lower", "equal", "mac", "key", "sapdu", "unknown", "unkeyed",
                                             "plain", "plainfree", "p2p", "tool", "sb", "svc", "inner", "jump"])
        e = {"t": "frame", "src": src, "dst": rng.choice(GAS[:2]), "group": 1, "secure": 1, "forge": "",
             "alg": rng.choice([ALG_AUTH, ALG_ENC]), "service": 0, "tool": 0, "sb": 0,
             "apdu": rng.choice(GOOD_APDUS)}
        nxt = min(hi[src] + rng.choice([1, 1, 1, 2, 100]), SEQ_MAX)
        e["seq"] = nxt
        if kind == "replay" and sent[src]:
            e["seq"] = rng.choice(sent[src])
        elif kind == "lower":
            e["seq"] = rng.randrange(0, hi[src] + 1)
        elif kind == "equal":
            e["seq"] = hi[src]
        elif kind == "jump":
            e["seq"] = rng.choice([SEQ_MAX, SEQ_MAX - 1, rng.randrange(hi[src], SEQ_MAX + 1)])
        elif kind in ("mac", "key", "sapdu"):
            e["forge"] = kind
        elif kind == "unknown":
            e["src"] = rng.choice(UNKNOWN)
        elif kind == "unkeyed":
            e["dst"] = GAS[2]
        elif kind == "plain":
            e["secure"] = 0
        elif kind == "plainfree":
            e["secure"], e["dst"] = 0, GAS[2]
        elif kind == "p2p":
            e["group"] = 0
        elif kind == "tool":
            e["tool"] = 1
        elif kind == "sb":
            e["sb"] = 1
        elif kind == "svc":
            e["service"] = rng.choice([s for s in SERVICES if s != 0])
        elif kind == "inner":
            e["apdu"] = rng.choice(BAD_APDUS)
        evs.append(e)
        # bookkeeping for later replays (only what a receiver would have accepted matters little here)
        if e["src"] in sent and e["secure"] and not e["forge"]:
            sent[e["src"]].append(e["seq"])
            if kind in ("genuine", "jump", "inner") and e["seq"] > hi[e["src"]]:
                hi[e["src"]] = e["seq"]
    return {"keys": keys, "senders": {str(k): v for k, v in senders.items()}, "sendSeq": send_seq, "events": evs}


OWN = 0x1234
VERDICTS = ["ok", "comm", "conv", "noconf"]


def gen_tx_history(rng, n):
    """Round 2: calls of CEMIHandler.send_telegram with a scripted interface verdict."""
    h = gen_history(rng, 0)
    h["kind"] = "tx"
    h["sendSeq"] = rng.choice([1, 1000, 2**47, 2**48 - 4, 2**48 - 2, 2**48 - 1, rng.randrange(1, 2**48)])
    failing = rng.choice([0.2, 0.5, 0.9])
    evs = []
    for _ in range(n):
        r = rng.random()
        if r < 0.1:
            evs.append({"t": "send", "dst": rng.choice(GAS), "group": 1, "apdu": rng.choice(GOOD_APDUS)})
        elif r < 0.2 and h["senders"]:
            src = int(rng.choice(list(h["senders"])))
            evs.append({"t": "frame", "src": src, "dst": GAS[0], "group": 1, "secure": 1, "forge": rng.choice(["", "", "mac"]),
                        "alg": ALG_ENC, "service": 0, "tool": 0, "sb": 0, "apdu": "0081",
                        "seq": min(h["senders"][str(src)] + rng.randrange(0, 3), SEQ_MAX)})
        else:
            dst, group = rng.choice([(GAS[0], 1)] * 5 + [(GAS[1], 1), (GAS[2], 1), (0x1105, 0)])
            evs.append({"t": "tx", "dst": dst, "group": group, "apdu": rng.choice(GOOD_APDUS),
                        "res": rng.choice(VERDICTS[1:]) if rng.random() < failing else "ok"})
    h["events"] = evs
    return h


def generate(rng, tier):
    n = 800 if tier == "quick" else 15000
    for i in range(n):
        yield gen_history(rng, rng.choice([4, 8, 12, 20, 40]))
    for i in range(300 if tier == "quick" else 5000):
        yield gen_tx_history(rng, rng.choice([2, 3, 5, 8, 16]))


def inner_ok(apdu: bytes) -> bool:
    try:
        APCI.from_knx(apdu)
        return True
    except ConversionError:
        return False


def build_frame(c, e):
    """CEMILData as the cEMI parser would hand it to DataSecure + the abstract event."""
    keys = {int(g): bytes.fromhex(k) for g, k in c["keys"].items()}
    dst = GroupAddress(e["dst"]) if e["group"] else IndividualAddress(e["dst"])
    src = IndividualAddress(e["src"])
    tp = tpci.TDataGroup() if e["group"] else tpci.TDataIndividual()
    apdu = unhx(e["apdu"])
    if not e["secure"]:
        payload = APCI.from_knx(apdu) if inner_ok(apdu) else apci.GroupValueRead()
        ev = f"r,0,{e['group']},{int(e['group'] and e['dst'] in keys)},0,0,{e['src']},0,mac,0"
        return CEMILData(src_addr=src, dst_addr=dst, tpci=tp, payload=payload), ev
    key = keys.get(e["dst"], bytes(16)) if e["group"] else bytes(16)
    if e["forge"] == "key":
        key = bytes(b ^ 0x55 for b in key)
    scf = mk_scf(scf_raw(e["alg"], e["service"], bool(e["tool"]), bool(e["sb"])))
    sd = SecureData.init_from_plain_apdu(
        key=key, apdu=apdu, scf=scf, sequence_number=e["seq"],
        address_fields_raw=src.to_knx() + dst.to_knx(),
        address_type=CEMIAddressType.GROUP if e["group"] else CEMIAddressType.INDIVIDUAL,
        frame_format=CEMIFrameFormat.STANDARD, tpci=tp)
    if e["forge"] == "mac":
        sd.message_authentication_code = bytes([sd.message_authentication_code[0] ^ 1]) + sd.message_authentication_code[1:]
    if e["forge"] == "sapdu":
        if sd.secured_apdu:
            sd.secured_apdu = bytes([sd.secured_apdu[0] ^ 0x80]) + bytes(sd.secured_apdu[1:])
        else:
            sd.secured_apdu = b"\x00"
    verify = "mac" if e["forge"] else "ok"
    keyed = int(bool(e["group"] and e["dst"] in keys))
    ev = (f"r,1,{e['group']},{keyed},{int(e['service'] == 0)},{int(bool(e['tool'] or e['sb']))},{e['src']},"
          f"{e['seq']},{verify},{int(inner_ok(apdu))}")
    return CEMILData(src_addr=src, dst_addr=dst, tpci=tp, payload=apci.SecureAPDU(scf=scf, secured_data=sd)), ev


class ScriptIface:
    """knxip_interface stand-in: records every frame handed over, THEN acts out the scripted verdict."""

    def __init__(self, xknx):
        self.xknx = xknx
        self.handed = []
        self.mode = "ok"

    async def send_cemi(self, cemi):
        self.handed.append(cemi)
        if self.mode == "comm":
            raise CommunicationError("no TUNNELLING_ACK received (frame was transmitted twice)")
        if self.mode == "conv":
            raise ConversionError("scripted")
        if self.mode == "ok":
            self.xknx.cemi_handler._l_data_confirmation_event.set()
        # "noconf": frame taken, no L_Data.con ever arrives


def make_ds(c):
    keys = {GroupAddress(int(g)): bytes.fromhex(k) for g, k in c["keys"].items()}
    ds = DataSecure(group_key_table=keys,
                    individual_address_table={IndividualAddress(int(i)): s for i, s in c["senders"].items()},
                    last_sequence_number_sending=c["sendSeq"])
    return keys, ds


def state_of(ds):
    t = ",".join(f"{ia.raw}:{s}" for ia, s in sorted(ds._individual_address_table.items(), key=lambda kv: kv[0].raw))
    return f"{t or '-'}/{ds._sequence_number_sending}"


def do_send(ds, keys, e):
    """Direct `outgoing_cemi` call -> (abstract event, observation)."""
    dst = GroupAddress(e["dst"]) if e["group"] else IndividualAddress(e["dst"])
    tp = tpci.TDataGroup() if e["group"] else tpci.TDataIndividual()
    data = CEMILData(src_addr=IndividualAddress(OWN), dst_addr=dst, tpci=tp, payload=APCI.from_knx(unhx(e["apdu"])))
    keyed = int(bool(e["group"] and dst in keys))
    try:
        o = ds.outgoing_cemi(data)
        if isinstance(o.payload, apci.SecureAPDU):
            obs = f"sent:{int.from_bytes(o.payload.secured_data.sequence_number_bytes, 'big')}"
        else:
            obs = "sentplain"
    except DataSecureError:
        obs = "senderror"
    except Exception as x:  # noqa: BLE001
        obs = f"raised:{exc_class(x)}"
    return f"s,{e['group']},{keyed}", obs


def do_frame(ds, c, e):
    data, ev = build_frame(c, e)
    try:
        o = ds.received_cemi(data)
        if e["secure"]:
            obs = f"delivered:{e['src']}:{e['seq']}"
            if isinstance(o.payload, apci.SecureAPDU) or hx(o.payload.to_knx()) != hx(APCI.from_knx(unhx(e["apdu"])).to_knx()):
                obs = "delivered-wrong-payload"
        else:
            obs = "passed"
    except DataSecureError:
        obs = "rejected"
    except Exception as x:  # noqa: BLE001
        obs = f"raised:{exc_class(x)}"
    return ev, obs


def run_impl(c):
    if c.get("kind") == "tx":
        return run_tx(c)
    keys, ds = make_ds(c)
    recs, evs = [], []
    for e in c["events"]:
        ev, obs = do_send(ds, keys, e) if e["t"] == "send" else do_frame(ds, c, e)
        evs.append(ev)
        recs.append(f"{obs}/{state_of(ds)}")
    out = " ".join(recs)
    line = f"dsec hist {fmt_table({int(i): s for i, s in c['senders'].items()})} {c['sendSeq']} " + " ".join(evs)
    return {"out": out, "line": line, "expect": out}


def run_tx(c):
    """Round 2: the history runs through the real `CEMIHandler.send_telegram` on a virtual-time loop."""
    async def main(_loop):
        keys, ds = make_ds(c)
        x = XKNX()
        x.current_address = IndividualAddress(OWN)
        x.cemi_handler.data_secure = ds
        x.knxip_interface = ScriptIface(x)
        # an independent receiver that knows us: every secured frame handed over must be acceptable in order
        rx = DataSecure(group_key_table=dict(keys), individual_address_table={IndividualAddress(OWN): 0},
                        last_sequence_number_sending=1)
        recs, evs, rxs = [], [], []
        for e in c["events"]:
            if e["t"] != "tx":
                ev, obs = do_send(ds, keys, e) if e["t"] == "send" else do_frame(ds, c, e)
                evs.append(ev)
                recs.append(f"{obs}/{state_of(ds)}")
                continue
            dst = GroupAddress(e["dst"]) if e["group"] else IndividualAddress(e["dst"])
            keyed = int(bool(e["group"] and dst in keys))
            evs.append(f"t,{e['group']},{keyed},{e['res']}")
            x.knxip_interface.mode = e["res"]
            before = len(x.knxip_interface.handed)
            tg = Telegram(destination_address=dst, payload=APCI.from_knx(unhx(e["apdu"])))
            try:
                await x.cemi_handler.send_telegram(tg)
                verdict = "if:ok"
            except ConfirmationError:
                verdict = "if:noconf"
            except CommunicationError:
                verdict = "if:comm"
            except ConversionError:
                verdict = "if:conv"
            except DataSecureError:
                verdict = None
            except Exception as ex:  # noqa: BLE001
                verdict = f"raised:{exc_class(ex)}"
            obs = []
            for cemi in x.knxip_interface.handed[before:]:
                p = cemi.data.payload
                if isinstance(p, apci.SecureAPDU):
                    obs.append(f"sent:{int.from_bytes(p.secured_data.sequence_number_bytes, 'big')}")
                    try:
                        rx.received_cemi(cemi.data)
                        rxs.append("ok")
                    except DataSecureError:
                        rxs.append("rej")
                else:
                    obs.append("sentplain")
            if verdict is None and not obs:
                obs.append("senderror")
            elif verdict:
                obs.append(verdict)
            recs.append(f"{'+'.join(obs)}/{state_of(ds)}")
        return recs, evs, rxs

    recs, evs, rxs = vloop.run(main)
    exp = " ".join(recs)
    line = f"dsec thist {fmt_table({int(i): s for i, s in c['senders'].items()})} {c['sendSeq']} " + " ".join(evs)
    return {"out": f"{exp} | rx {','.join(rxs) or '-'}", "line": line, "expect": exp}


def oracle_tx(c, out):
    """Round 2: what was HANDED to the interface, whatever the interface then reported."""
    recs, rx = out.split(" | rx ")
    nxt = c["sendSeq"]
    last = None
    prev_counter = c["sendSeq"]
    e_prev = ""
    counters = []
    for i, (e, rec) in enumerate(zip(c["events"], recs.split(" "))):
        obs, _table, sseq = rec.split("/")
        parts = obs.split("+")
        pre = nxt
        for p in parts:
            if p.startswith("sent:"):
                q = int(p[5:])
                if last is not None and q <= last:
                    return (f"event {i}: secured frame handed to the interface with sequence number {q} after {last} "
                            f"(previous send ended '{e_prev}'): outgoing numbers not strictly increasing")
                if q > SEQ_MAX:
                    return f"event {i}: sequence number {q} exceeds 48 bits"
                if q != nxt:
                    return f"event {i}: handed-over sequence number {q}, reference expects {nxt}"
                last, nxt = q, q + 1
            elif p.startswith("raised:"):
                return f"event {i}: send_telegram raised {p}"
        if e["t"] == "tx":
            keyed = e["group"] and str(e["dst"]) in c["keys"]
            if keyed and pre <= SEQ_MAX and not any(p.startswith("sent:") for p in parts):
                return f"event {i}: telegram to keyed address with number {pre} available ended as {obs}"
            if keyed and pre > SEQ_MAX and parts != ["senderror"]:
                return f"event {i}: telegram to keyed address after exhaustion ended as {obs}"
            if not keyed and "sentplain" not in parts:
                return f"event {i}: telegram to unkeyed destination: {obs}"
            if len(parts) > 1 and parts[-1] != f"if:{e['res']}":
                return f"event {i}: scripted verdict {e['res']} surfaced as {parts[-1]}"
        counters.append((i, obs, int(sseq), nxt))
        e_prev = obs
    if "rej" in rx:
        return f"an independent receiver rejected handed-over frame #{rx.split(',').index('rej')} (replayed number)"
    # the internal counter, after what was observable on the interface
    for i, obs, sseq, want in counters:
        if sseq < prev_counter:
            return f"event {i} ({obs}): sending counter went back from {prev_counter} to {sseq}"
        if sseq != want:
            return f"event {i} ({obs}): sending counter {sseq}, reference {want}"
        prev_counter = sseq
    return None


def oracle(c, out):
    """Reference last-valid-counter model on the observations of the real object."""
    if c.get("kind") == "tx":
        return oracle_tx(c, out)
    ref = {int(i): s for i, s in c["senders"].items()}
    nxt = c["sendSeq"]
    last_sent = None
    exhausted = False
    for i, (e, rec) in enumerate(zip(c["events"], out.split(" "))):
        obs, table, sseq = rec.split("/")
        real = {int(a): int(b) for a, b in (p.split(":") for p in table.split(","))} if table != "-" else {}
        if e["t"] == "send":
            if obs.startswith("sent:"):
                q = int(obs[5:])
                if q > SEQ_MAX:
                    return f"event {i}: outgoing sequence number {q} exceeds 48 bits"
                if last_sent is not None and q <= last_sent:
                    return f"event {i}: outgoing sequence number {q} after {last_sent}"
                if exhausted:
                    return f"event {i}: secured frame sent after exhaustion"
                if q != nxt:
                    return f"event {i}: outgoing sequence number {q}, reference expects {nxt}"
                last_sent, nxt = q, q + 1
            elif obs == "senderror":
                if nxt <= SEQ_MAX:
                    return f"event {i}: send refused although {nxt} is still available"
                exhausted = True
            elif obs == "sentplain":
                if e["group"] and str(e["dst"]) in c["keys"]:
                    return f"event {i}: plain frame sent to keyed group address"
            else:
                return f"event {i}: send raised {obs}"
        else:
            if obs.startswith("delivered:"):
                src, seq = e["src"], e["seq"]
                if src not in ref:
                    return f"event {i}: frame from unknown sender {src} delivered"
                if not seq > ref[src]:
                    return f"event {i}: sequence number {seq} delivered, last valid is {ref[src]}"
                if e["forge"]:
                    return f"event {i}: forged frame ({e['forge']}) delivered"
                ref[src] = seq
            elif obs == "delivered-wrong-payload":
                return f"event {i}: delivered payload differs from the secured one"
            elif obs == "rejected" or obs.startswith("raised:"):
                genuine = (e["secure"] and not e["forge"] and e["group"] and str(e["dst"]) in c["keys"]
                           and e["service"] == 0 and not e["tool"] and not e["sb"] and e["src"] in ref
                           and e["seq"] > ref[e["src"]])
                if genuine and inner_ok(unhx(e["apdu"])) and obs == "rejected":
                    return f"event {i}: fresh genuine frame {e['src']}:{e['seq']} rejected (last valid {ref[e['src']]})"
                if genuine:
                    ref[e["src"]] = e["seq"]     # authentic: the number is used up even if the content is unusable
            elif obs == "passed":
                if e["secure"]:
                    return f"event {i}: secured frame passed through undecoded"
            # an exception leaving received_cemi ('raised:*') is C18's concern; for freshness only the table matters
        if real != ref:
            return f"event {i} ({obs}): sender table {real} differs from the reference {ref}"
        if int(sseq) != nxt:
            return f"event {i} ({obs}): sending counter {sseq}, reference {nxt}"
    return None


def nontrivial(c, out):
    return "delivered:" in out or "sent:" in out


def outcome_class(out):
    ks = sorted({p.split(":")[0] for r in out.split(" | ")[0].split(" ") for p in r.split("/")[0].split("+")})
    return "+".join(ks)[:60]


def finding_key(c, msg):
    return msg.split(":")[0]


def _cat(m):
    import re
    return re.sub(r"\d+", "", m or "")[:60]


def shrink(c, msg):
    """Drop events from the end / the start while the oracle still makes the same complaint."""
    best = c
    want = _cat(msg)

    _full = globals()["oracle"]

    def oracle(c2, out):  # same failure class only
        m = _full(c2, out)
        return m if _cat(m) == want else None
    for cut in range(len(c["events"]) - 1, 0, -1):
        c2 = dict(best, events=best["events"][:cut])
        try:
            if oracle(c2, run_impl(c2)["out"]):
                best = c2
            else:
                break
        except Exception:  # noqa: BLE001
            break
    i = 0
    while i < len(best["events"]) - 1:
        c2 = dict(best, events=best["events"][:i] + best["events"][i + 1:])
        try:
            if oracle(c2, run_impl(c2)["out"]):
                best = c2
                continue
        except Exception:  # noqa: BLE001
            pass
        i += 1
    return best
