"""C33 Outgoing telegrams go out in order, one at a time, and never stall the queue (mode R, virtual time).

A case: rate limit, a list of telegrams
    [kind, addr, payload, send_plan, cb_raise_mask, dev_fault]
      kind      "I" incoming | "O" outgoing to a group address | "N" outgoing to an internal address
                | "J" incoming / "D" outgoing GroupValue telegram whose destination is an IndividualAddress (not what the
                  queue is meant for, but it can be queued; the model treats it as I / O without device)
      addr      index into the address table of that kind (some have a device, some a configured DPT)
      payload   "w1" GroupValueWrite(DPTBinary) | "w2" GroupValueWrite(2 octets) | "wbad" GroupValueWrite(5 octets, not
                decodable by the configured DPT) | "r" GroupValueRead | "resp" GroupValueResponse(2 octets)
      send_plan what the (stub) KNX/IP interface does in send_cemi:
                ["ok", d] confirm (L_DATA.con) after d us | ["comm"] raise CommunicationError | ["conv"] raise ConversionError
                | ["exc"] raise ValueError | ["timeout"] never confirm (-> ConfirmationError after 3 s)
                | ["slow", d1, d2] send_cemi itself takes d1 us, confirmation d2 us later | ["late", d] confirm after d > 3 s
      cb_raise_mask  bit j set: telegram-received callback j raises   (bit 2: raise XKNXException instead of RuntimeError)
      dev_fault 0 none | 1 device.process raises CouldNotParseTelegram | 2 raises RuntimeError
    and gaps (us of virtual time before each put; 0 = same instant) and the order of join()/stop().
The real XKNX.start()/join()/stop(), TelegramQueue, CEMIHandler.send_telegram, GroupAddressDPT, Devices run on vloop;
only `xknx.knxip_interface` is a stub, `xknx.telegrams` / `outgoing_queue` are recording subclasses of asyncio.Queue and
`xknx.cemi_handler` is wrapped by a delegating recorder.
"""
import asyncio
import logging

from harness import vloop
from xknx import XKNX
from xknx.cemi import CEMIFrame, CEMIMessageCode
from xknx.devices import Device
from xknx.dpt import DPTArray, DPTBinary
from xknx.exceptions import CommunicationError, ConversionError, CouldNotParseTelegram, XKNXException
from xknx.io import ConnectionConfig
from xknx.remote_value import RemoteValueSwitch
from xknx.telegram import GroupAddress, IndividualAddress, Telegram, TelegramDirection
from xknx.telegram.address import InternalGroupAddress
from xknx.telegram.apci import GroupValueRead, GroupValueResponse, GroupValueWrite

PROPERTY = "C33"
RULE = ("mixes of <=60 incoming/outgoing/internal telegrams over addresses with and without device and configured DPT "
        "(incl. undecodable payloads), per telegram a send plan (ok with delay / CommunicationError / ConversionError / "
        "ValueError / no confirmation -> ConfirmationError after 3 s / slow send / late confirmation), raising callbacks "
        "(2 match-all callbacks, RuntimeError or XKNXException) and raising devices; rate limits {0,1,20,1000}; puts at equal "
        "instants or spaced by boundary gaps (1/rate -1/0/+1 us); then join()+stop() or stop()+join() under a virtual-time "
        "watchdog. non-trivial = at least one outgoing telegram reached the interface and at least one fault was injected")
TRUSTED = ["model XknxVerif.Model.TelegramQueue is a hand-written monitor; tied to xknx/core/telegram_queue.py by trace acceptance on every run",
           "harness/vloop.py virtual-time loop; recording asyncio.Queue subclasses (get/put_nowait/task_done), a delegating wrapper around "
           "xknx.cemi_handler and a stub xknx.knxip_interface (send_cemi scripted, confirmations injected through the real handle_cemi_frame)",
           "BaseException (CancelledError, KeyboardInterrupt) raised by callbacks/devices/interface is outside the model; "
           "telegrams are group/internal-addressed (the queue's documented domain)"]
CASE_TIMEOUT = 20.0
WATCHDOG_S = 2000.0
RATES = [0, 1, 20, 1000]

GROUP = ["1/1/1", "1/1/2", "1/1/3", "2/2/2"]          # 1/1/1, 1/1/2 have a device; 1/1/1 DPT switch, 1/1/3 DPT temperature
INTERNAL = ["i-a", "i-b"]                             # i-a has a device
DEV_ADDRS = {"1/1/1", "1/1/2", "i-a"}


INDIVIDUAL = ["1.1.1", "15.15.255"]
MODEL_KIND = {"I": "I", "O": "O", "N": "N", "J": "I", "D": "O"}


def has_dev(kind, addr):
    if kind in "JD":
        return False
    return (INTERNAL[addr] if kind == "N" else GROUP[addr]) in DEV_ADDRS


def mk_payload(p):
    if p == "w1":
        return GroupValueWrite(DPTBinary(1))
    if p == "w2":
        return GroupValueWrite(DPTArray((0x0C, 0x1A)))
    if p == "wbad":
        return GroupValueWrite(DPTArray((1, 2, 3, 4, 5)))
    if p == "r":
        return GroupValueRead()
    return GroupValueResponse(DPTArray((0x0C, 0x1A)))


def generate(rng, tier):
    plans = [["ok", 0], ["ok", 0], ["ok", 1000], ["ok", 30_000], ["ok", 2_999_999], ["comm"], ["conv"], ["exc"], ["timeout"],
             ["slow", 70_000, 10_000], ["slow", 1_200_000, 0], ["late", 3_000_001], ["late", 3_040_000]]
    # fixed small scenarios: every send plan x every rate, alone and followed by two more telegrams
    for rate in RATES:
        for plan in plans:
            tgs = [["O", 0, "w1", plan, 0, 0], ["N", 0, "w1", ["ok", 0], 0, 0], ["O", 1, "w2", ["ok", 0], 0, 0], ["I", 0, "w1", ["ok", 0], 0, 0],
                   ["O", 2, "r", ["ok", 500], 0, 0]]
            yield {"rate": rate, "tgs": tgs, "gaps": [0] * len(tgs), "end": "join-stop"}
    for rate in RATES:
        for kind in "ION":
            for cbm in (1, 2, 3, 5):
                for dev in (0, 1, 2):
                    tgs = [[kind, 0, "w1", ["ok", 0], cbm, dev], [kind, 1, "w2", ["ok", 100], 0, 0], ["O", 0, "wbad", ["comm"], 0, 2]]
                    yield {"rate": rate, "tgs": tgs, "gaps": [0, 0, 10], "end": "stop-join"}
    for rate in (0, 20):
        for kind in "JD":
            for payload in ("w1", "w2", "r", "resp"):
                tgs = [["O", 0, "w1", ["ok", 0], 0, 0], [kind, 0, payload, ["ok", 0], 0, 0], ["I", 1, "w1", ["ok", 0], 0, 0],
                       ["O", 1, "w2", ["ok", 100], 0, 0]]
                yield {"rate": rate, "tgs": tgs, "gaps": [0, 0, 0, 5], "end": "join-stop"}
    n = 800 if tier == "quick" else 12000
    for _ in range(n):
        rate = rng.choice(RATES)
        period = 1_000_000 // rate if rate else 50_000
        m = rng.choice([1, 2, 3, 5, 8, 13, 21, 34, 60])
        faulty = rng.random() < 0.8
        tgs, gaps = [], []
        for _ in range(m):
            kind = rng.choice("IOOON") if rng.random() < 0.93 else rng.choice("JD")
            addr = rng.randrange(len(INTERNAL) if kind in "NJD" else len(GROUP))
            payload = rng.choice(["w1", "w1", "w2", "wbad", "r", "resp"])
            plan = rng.choice(plans) if (faulty and rng.random() < 0.45) else rng.choice([["ok", 0], ["ok", 1000], ["ok", 30_000]])
            cbm = rng.choice([1, 2, 3, 5, 6, 7]) if (faulty and rng.random() < 0.25) else 0
            dev = rng.choice([1, 2]) if (faulty and rng.random() < 0.2) else 0
            tgs.append([kind, addr, payload, plan, cbm, dev])
            gaps.append(rng.choice([0, 0, 0, 1, period - 1, period, period + 1, 10_000, 3_000_000]))
        yield {"rate": rate, "tgs": tgs, "gaps": gaps, "end": rng.choice(["join-stop", "stop-join", "stop"])}


class _Rec:
    def __init__(self, loop):
        self.loop = loop
        self.t0 = loop.time()
        self.trace = []
        self.last_t = 0
        self.reg = {}       # id(telegram) -> (k, telegram, spec)
        self.current = None
        self.cons_task = None
        self.lim_task = None

    def __call__(self, *ev):
        t = vloop.q(self.loop.time() - self.t0)
        if t != self.last_t:
            self.trace.append(f"A,{t}")
            self.last_t = t
        self.trace.append(",".join(str(x) for x in ev))

    def k_of(self, telegram):
        e = self.reg.get(id(telegram))
        return e[0] if e and e[1] is telegram else None

    def x_of(self, item):
        if item is None:
            return "S"
        k = self.k_of(item)
        return "?" if k is None else k


class _RecQueue(asyncio.Queue):
    def __init__(self, rec, main):
        super().__init__()
        self._rec = rec
        self._main = main

    def put_nowait(self, item):
        r = self._rec
        if self._main:
            if item is None:
                r("ST")
            else:
                e = r.reg.get(id(item))
                if e is None:
                    r("P", "?", "?", "?")
                else:
                    k, _, spec = e
                    r("P", k, MODEL_KIND[spec[0]], int(has_dev(spec[0], spec[1])))
        else:
            r("MV", r.x_of(item))
        super().put_nowait(item)

    async def get(self):
        item = await super().get()
        r = self._rec
        if self._main:
            r.cons_task = asyncio.current_task()
            r("GM", r.x_of(item))
        else:
            r.lim_task = asyncio.current_task()
            r("GO", r.x_of(item))
        return item

    def task_done(self):
        r = self._rec
        cur = asyncio.current_task()
        who = "C" if cur is r.cons_task else ("L" if cur is r.lim_task else "X")
        if self._main:
            r("DM" + who)
        else:
            r("DO" + who)
        super().task_done()


class _CemiProxy:
    def __init__(self, real, rec):
        self._real = real
        self._rec = rec

    async def send_telegram(self, telegram):
        r = self._rec
        k = r.k_of(telegram)
        r.current = k
        try:
            await self._real.send_telegram(telegram)
        except CommunicationError:
            r("SE", k, "comm")
            raise
        except XKNXException:
            r("SE", k, "xknx")
            raise
        except Exception:  # noqa: BLE001
            r("SE", k, "exc")
            raise
        else:
            r("SE", k, "ok")

    def __getattr__(self, name):
        return getattr(self._real, name)


class _StubInterface:
    def __init__(self, xknx, rec, specs):
        self.xknx = xknx
        self.rec = rec
        self.specs = specs
        self.connection_config = ConnectionConfig()

    async def start(self):
        pass

    async def stop(self):
        pass

    def _confirm(self, cemi):
        self.xknx.cemi_handler.handle_cemi_frame(CEMIFrame(code=CEMIMessageCode.L_DATA_CON, data=cemi.data))

    async def send_cemi(self, cemi):
        k = self.rec.current
        self.rec("TX", k)
        plan = self.specs[k][3] if k is not None else ["ok", 0]
        kind = plan[0]
        loop = asyncio.get_running_loop()
        if kind == "comm":
            raise CommunicationError("scripted")
        if kind == "conv":
            raise ConversionError("scripted")
        if kind == "exc":
            raise ValueError("scripted")
        if kind == "timeout":
            return
        if kind == "slow":
            await asyncio.sleep(plan[1] / 1e6)
            d = plan[2]
        else:
            d = plan[1]
        cemi.to_knx()  # what a real interface does before anything goes out
        if d == 0:
            self._confirm(cemi)
        else:
            loop.call_later(d / 1e6, self._confirm, cemi)


class _ProbeDevice(Device):
    def __init__(self, xknx, rec, specs):
        super().__init__(xknx, "probe")
        self.rec = rec
        self.specs = specs
        self.rvs = [RemoteValueSwitch(xknx, group_address=a, sync_state=False, device_name="probe", feature_name=a)
                    for a in sorted(DEV_ADDRS)]

    def _iter_remote_values(self):
        yield from self.rvs

    def process(self, telegram):
        k = self.rec.k_of(telegram)
        f = self.specs[k][5] if k is not None else 0
        self.rec("PR", k, int(bool(f)))
        if f == 1:
            raise CouldNotParseTelegram("scripted")
        if f == 2:
            raise RuntimeError("scripted")


def _mk_cb(rec, specs, j):
    def cb(telegram):
        k = rec.k_of(telegram)
        m = specs[k][4] if k is not None else 0
        rec("CB", k, j)
        if m >> j & 1 and j < 2:
            if m & 4:
                raise ConversionError("scripted")
            raise RuntimeError("scripted")
    return cb


async def _scenario(loop, case):
    rec = _Rec(loop)
    specs = case["tgs"]
    died = []

    def factory(lp, coro, **kw):
        t = asyncio.Task(coro, loop=lp, **kw)
        nm = getattr(coro, "__qualname__", "")
        if "TelegramQueue._telegram_consumer" in nm or "TelegramQueue._outgoing_rate_limiter" in nm:
            def fin(t, nm=nm):
                if not t.cancelled() and t.exception() is not None:
                    died.append(f"{nm.split('.')[-1]}:{type(t.exception()).__name__}")
            t.add_done_callback(fin)
        return t

    xknx = XKNX(rate_limit=case["rate"])
    xknx.knxip_interface = _StubInterface(xknx, rec, specs)
    xknx.telegrams = _RecQueue(rec, True)
    xknx.telegram_queue.outgoing_queue = _RecQueue(rec, False)
    xknx.cemi_handler = _CemiProxy(xknx.cemi_handler, rec)
    xknx.group_address_dpt.set({"1/1/1": "switch", "1/1/3": "temperature", "i-b": "temperature"})
    xknx.devices.async_add(_ProbeDevice(xknx, rec, specs))
    for j in range(2):
        xknx.telegram_queue.register_telegram_received_cb(_mk_cb(rec, specs, j), match_for_outgoing=True)
    loop.set_task_factory(factory)
    flags = []
    try:
        await xknx.start()
        keep = []
        for k, (spec, gap) in enumerate(zip(specs, case["gaps"])):
            if gap:
                await asyncio.sleep(gap / 1e6)
            kind, addr, payload = spec[0], spec[1], spec[2]
            if kind in "JD":
                dst = IndividualAddress(INDIVIDUAL[addr % len(INDIVIDUAL)])
            else:
                dst = InternalGroupAddress(INTERNAL[addr]) if kind == "N" else GroupAddress(GROUP[addr])
            tg = Telegram(destination_address=dst, payload=mk_payload(payload),
                          direction=TelegramDirection.INCOMING if kind in "IJ" else TelegramDirection.OUTGOING,
                          source_address=IndividualAddress("1.2.3") if kind in "IJ" else IndividualAddress(0))
            keep.append(tg)
            rec.reg[id(tg)] = (k, tg, spec)
            xknx.telegrams.put_nowait(tg)

        async def guarded(name, coro, mark):
            try:
                async with asyncio.timeout(WATCHDOG_S):
                    await coro
                rec(mark)
            except TimeoutError:
                flags.append(f"{name}-did-not-return")

        end = case.get("end", "join-stop")
        if end == "join-stop":
            await guarded("join", xknx.join(), "J")
            await guarded("stop", xknx.stop(), "SD")
        elif end == "stop-join":
            await guarded("stop", xknx.telegram_queue.stop(), "SD")
            await guarded("join", xknx.join(), "J")
        else:
            await guarded("stop", xknx.stop(), "SD")
        await loop.settle()
    finally:
        loop.set_task_factory(None)
        xknx.started.clear()   # keep XKNX.__del__ from trying to stop again
    return rec.trace, flags + [f"died:{d}" for d in died]


_old_disable = None


def setup():
    global _old_disable
    _old_disable = logging.root.manager.disable
    logging.disable(logging.CRITICAL)


def teardown():
    logging.disable(_old_disable or logging.NOTSET)


def run_impl(case):
    trace, flags = vloop.run(lambda loop: _scenario(loop, case))
    s = ";".join(trace)
    out = s + (" !" + ",".join(flags) if flags else "")
    return {"out": out, "line": f"c33 monitor {case['rate']} 2 {s or '-'}", "expect": "accept"}


def oracle(case, out):
    """The property on the observed trace, without the Lean model."""
    trace, _, flagstr = out.partition(" !")
    if flagstr:
        return "queue stalled: " + flagstr
    specs = case["tgs"]
    rate = case["rate"]
    evs = [e.split(",") for e in trace.split(";")] if trace else []
    now = 0
    tx = []            # (k, time)
    sending = None     # telegram between TX and SE
    n_put = n_stop = n_dm = 0
    seen = {}          # k -> {"cb": [..], "pr": n, "se": outcome, "tx": n}
    joined = stopped = False
    for idx, e in enumerate(evs):
        t = e[0]
        if t == "A":
            now = int(e[1])
        elif t == "P":
            if e[1] == "?":
                return f"unknown telegram queued (event #{idx})"
            n_put += 1
            seen[int(e[1])] = {"cb": [], "pr": 0, "se": None, "tx": 0}
        elif t == "ST":
            n_stop += 1
        elif t == "TX":
            k = int(e[1]) if e[1] != "None" else None
            if k is None or specs[k][0] not in "OD":
                return f"interface send for telegram {k} which is not an outgoing group telegram ({specs[k][0] if k is not None else '?'}) (event #{idx})"
            if sending is not None:
                return f"telegram {k} handed to the interface while telegram {sending} is still being sent (event #{idx})"
            if tx and k <= tx[-1][0]:
                return f"telegram {k} reached the interface after telegram {tx[-1][0]}: not in queueing order (event #{idx})"
            if rate and tx and (now - tx[-1][1]) * rate < 1_000_000:
                return (f"telegrams {tx[-1][0]} and {k} reached the interface {now - tx[-1][1]} us apart with rate limit "
                        f"{rate}/s (event #{idx})")
            tx.append((k, now))
            seen[k]["tx"] += 1
            sending = k
        elif t == "SE":
            k = int(e[1])
            seen[k]["se"] = e[2]
            if sending == k:
                sending = None
        elif t == "CB":
            seen[int(e[1])]["cb"].append(int(e[2]))
        elif t == "PR":
            seen[int(e[1])]["pr"] += 1
        elif t in ("DMC", "DML", "DMX"):
            n_dm += 1
        elif t == "J":
            joined = True
            if n_dm < n_put + n_stop - (1 if n_stop and not stopped else 0) and n_dm < n_put:
                return f"join() returned with {n_put - n_dm} telegram(s) not marked done (event #{idx})"
        elif t == "SD":
            stopped = True
    end = case.get("end", "join-stop")
    if end != "stop" and not joined:
        return "join() did not return"
    if not stopped:
        return "stop() did not return"
    if n_dm != n_put + n_stop:
        return f"{n_put} telegrams + {n_stop} stop marker queued but task_done() called {n_dm} times"
    want_tx = [k for k, s in enumerate(specs) if s[0] in "OD"]
    if [k for k, _ in tx] != want_tx:
        return f"telegrams that reached the interface {[k for k, _ in tx]} != outgoing group telegrams in queueing order {want_tx}"
    for k, s in enumerate(specs):
        o = seen.get(k)
        if o is None:
            return f"telegram {k} was never queued"
        dev = has_dev(s[0], s[1])
        processed = s[0] in "INJ" or o["se"] == "ok"
        if processed:
            if dev and o["pr"] != 1:
                return f"telegram {k} ({s[0]}) reached its device {o['pr']} times"
            dev_raised = dev and s[5]
            # a raising device ends processing: callbacks that come after it in the code are skipped (outgoing path)
            if sorted(o["cb"]) != [0, 1] and not (dev_raised and s[0] not in "IJ"):
                return f"telegram {k} ({s[0]}) was delivered to callbacks {o['cb']}, expected each of [0, 1] once"
        else:
            if o["pr"] or o["cb"]:
                return f"telegram {k} whose send failed ({o['se']}) was still processed by devices/callbacks"
    return None


def nontrivial(case, out):
    return ";TX," in out and any(s[3][0] != "ok" or s[4] or s[5] for s in case["tgs"])


def outcome_class(out):
    if " !" in out:
        return "stalled"
    return "ok" if out.endswith(("SD", "J")) or ";SD" in out else "?"


def finding_key(case, msg):
    return "c33 " + str(case["rate"]) + " " + ";".join(",".join(str(x) for x in s) for s in case["tgs"])


def shrink(case, msg):
    def fails(c):
        try:
            return oracle(c, run_impl(c)["out"]) is not None
        except Exception:  # noqa: BLE001
            return False
    cur = dict(case)
    changed = True
    while changed and len(cur["tgs"]) > 1:
        changed = False
        for i in range(len(cur["tgs"])):
            cand = dict(cur, tgs=cur["tgs"][:i] + cur["tgs"][i + 1:], gaps=cur["gaps"][:i] + cur["gaps"][i + 1:])
            if fails(cand):
                cur = cand
                changed = True
                break
    return cur


if __name__ == "__main__":
    import json
    import random
    import sys
    from harness import framework
    setup()
    rng = random.Random(int(sys.argv[1]) if len(sys.argv) > 1 else 0)
    cases, lines = [], []
    for k, c in enumerate(generate(rng, sys.argv[2] if len(sys.argv) > 2 else "quick")):
        r = run_impl(c)
        m = oracle(c, r["out"])
        cases.append(c)
        lines.append(r["line"])
        if m:
            print(json.dumps(c), "\n ", r["out"][:3000], "\n  oracle:", m)
            break
    outs = framework.drive(lines)
    bad = [(c, l, o) for c, l, o in zip(cases, lines, outs) if o != "accept"]
    print(len(cases), "cases;", len(bad), "rejected")
    for c, l, o in bad[:3]:
        k = int(o.split("@")[1]) if "@" in o else -1
        evs = l.split(" ")[4].split(";")
        print(json.dumps(c), "\n ", o, evs[max(0, k - 12):k + 1])
