"""C24 Outgoing tunnel frames are sequenced and confirmed only by their own ACK (mode R on the virtual-time loop)."""
from __future__ import annotations

import asyncio
import itertools
import logging

from harness import vloop
from harness.tstub import GW, Gateway, StubUDP

from xknx import XKNX
from xknx.cemi import CEMIFrame, CEMILData, CEMIMessageCode
from xknx.dpt import DPTArray
from xknx.exceptions import CommunicationError, RequestResponseError
from xknx.io.request_response import DeviceConfiguration, Tunnelling
from xknx.io.tunnel import UDPTunnel
from xknx.knxip import (
    DeviceConfigurationAck,
    DeviceConfigurationRequest,
    DisconnectRequest,
    ErrorCode,
    TunnellingAck,
    TunnellingRequest,
)
from xknx.telegram import GroupAddress, Telegram
from xknx.telegram.apci import GroupValueWrite

PROPERTY = "C24"
RULE = ("a scripted gateway answers each TunnellingRequest of the real UDPTunnel (virtual time, stub socket) with one "
        "fault of {ack, lose, late(>1 s), twice, stale(previous counter), wrongch, error(status)}; all fault sequences up "
        "to length 3 (quick) / 5 (thorough) x 1..3 concurrent send_cemi callers x auto-reconnect on/off x start counters "
        "253/254/255/0 (preset) and real runs from connect() across the wrap; random longer scripts; connection-level "
        "events while a send is pending: server DisconnectRequest 20 ms / 0.5 s after a request whose ACK is lost, "
        "heartbeat failure at 110 s, ConnectResponse of the re-connect delayed 0/0.5/0.7/1.5/3 s (so sends end during "
        "the handshake), unanswered DisconnectRequest, 1-3 callers, follow-up frames on the new connection; plus bare request/acknowledgement exchanges of Tunnelling and DeviceConfiguration with matching, "
        "stale, foreign-channel and error ACKs before/after the timeout (mode F); non-trivial = distinct scenario with at "
        "least one faulty answer")
TRUSTED = ["model XknxVerif.Model.TunnelSend is a hand-written monitor; tied by replaying the recorded traces",
           "harness/vloop.py virtual clock; harness/tstub.py in-memory datagram endpoint and scripted gateway"]
CASE_TIMEOUT = 20.0
ASSUMPTIONS = ["UDP tunnels only (a TCP tunnel has no acknowledgements); the start counter of the bulk scenarios is preset "
               "on the connected tunnel object, the 'real' scenarios start from connect() and send >255 frames"]

FAULTS = ["ack", "lose", "late", "twice", "stale", "wrongch", "error"]
LAT = 0.02


def frame(i: int) -> CEMIFrame:
    return CEMIFrame(
        code=CEMIMessageCode.L_DATA_REQ,
        data=CEMILData.init_from_telegram(
            Telegram(destination_address=GroupAddress("1/2/3"),
                     payload=GroupValueWrite(DPTArray((i >> 8 & 0xFF, i & 0xFF))))),
    )


def frame_id(raw: bytes) -> int:
    return int.from_bytes(raw[-2:], "big")


class _Tunnel(UDPTunnel):
    __slots__ = ("on_established",)

    def _init_transport(self):
        self.transport = StubUDP()

    def _tunnel_established(self):
        super()._tunnel_established()
        self.on_established(self.communication_channel)


async def _run(loop, case):
    t0 = loop.time()
    tr = []
    script = [f for f in case["script"].split(",") if f]
    pos = [0]

    def now():
        return vloop.q(loop.time() - t0)

    xk = XKNX()
    t = _Tunnel(xk, cemi_received_callback=lambda raw: None, gateway_ip=GW[0], gateway_port=GW[1],
                local_ip="192.168.1.1", auto_reconnect=bool(case.get("auto", 1)), auto_reconnect_wait=1)
    started = [False]
    t.on_established = lambda ch: started[0] and tr.append(f"N{ch}@{now()}")

    def inject_ack(ch, seq, st):
        if t.transport.transport is None:
            return  # socket closed: the datagram is lost
        tr.append(f"A{ch}:{seq}:{st}@{now()}")
        t.transport.inject(TunnellingAck(communication_channel_id=ch, sequence_counter=seq, status_code=ErrorCode(st)))

    def on_data(fr, addr):
        b = fr.body
        if not isinstance(b, TunnellingRequest):
            return
        ch, seq = b.communication_channel_id, b.sequence_counter
        tr.append(f"Q{ch}:{seq}:{frame_id(b.raw_cemi)}@{now()}")
        f = script[pos[0]] if pos[0] < len(script) else "ack"
        pos[0] += 1
        if f == "ack":
            loop.call_later(LAT, inject_ack, ch, seq, 0)
        elif f == "late":
            loop.call_later(1.5, inject_ack, ch, seq, 0)
        elif f == "twice":
            loop.call_later(LAT, inject_ack, ch, seq, 0)
            loop.call_later(LAT + 0.005, inject_ack, ch, seq, 0)
        elif f == "stale":
            loop.call_later(LAT, inject_ack, ch, (seq - 1) % 256, 0)
        elif f == "wrongch":
            loop.call_later(LAT, inject_ack, (ch + 1) % 256, seq, 0)
        elif f == "error":
            loop.call_later(LAT, inject_ack, ch, seq, ErrorCode.E_CONNECTION_ID.value)
        elif f in ("srvdisc", "srvdisc5"):   # the ACK is lost and the server closes the channel while the send waits
            loop.call_later(LAT if f == "srvdisc" else 0.5, lambda: t.transport.transport is not None and
                            t.transport.inject(DisconnectRequest(communication_channel_id=ch)))
        # "lose": nothing

    gw = Gateway(t.transport, on_data=on_data)
    c0 = case.get("ch0", 7)
    gw.next_channel = c0
    _orig = gw.handle

    def handle(fr, addr):  # a new channel id for every connection
        _orig(fr, addr)
        gw.next_channel = (c0 + gw.connects) % 256
    t.transport.gateway = handle

    await t.connect()
    started[0] = True
    # connection-level faults: ConnectResponses of the re-connects are delayed, the heartbeat is not answered,
    # the client's DisconnectRequest is not answered
    cdelays = [float(x) for x in str(case.get("cdelays", "")).split(",") if x]
    gw.connect_delay = lambda n: cdelays[n - 2] if 0 <= n - 2 < len(cdelays) else 0.0
    if case.get("hb") == "fail":
        gw.answer_state = False
    if case.get("nodiscresp"):
        gw.answer_disconnect = False
    seq0 = case.get("seq0", 0)
    warm = case.get("warmup", 0)
    if warm:      # really send `warm` acknowledged frames first (not recorded) instead of presetting the counter
        sc, script = script, []
        for i in range(warm):
            await t.send_cemi(frame(60000 + i))
        script, pos[0] = sc, 0
        tr.clear()
        seq0 = warm % 256
        t0 = loop.time()
    elif seq0:
        t.sequence_number = seq0
    c_now = t.communication_channel

    async def caller(ids):
        for i in ids:
            tr.append(f"C{i}@{now()}")
            try:
                await t.send_cemi(frame(i))
                tr.append(f"K{i}:1@{now()}")
            except CommunicationError:
                tr.append(f"K{i}:0@{now()}")
            except Exception as e:  # noqa: BLE001
                tr.append(f"K{i}:0@{now()}")
                tr.append(f"!{type(e).__name__}")

    k = case.get("callers", 1)
    n = case.get("frames", max(1, len(script)))
    ids = [[] for _ in range(k)]
    for j in range(n):
        ids[j % k].append(j + 1)
    if case.get("start"):
        await asyncio.sleep(float(case["start"]))   # e.g. until just before the heartbeat gives up
    await asyncio.gather(*(caller(x) for x in ids if x))
    await asyncio.sleep(2.0)       # late ACKs still arrive (and must not matter)
    if t._reconnect_task is not None:   # let a handshake that is still running finish
        try:
            async with asyncio.timeout(15):
                await asyncio.shield(t._reconnect_task)
        except (TimeoutError, asyncio.CancelledError, CommunicationError):
            pass
    final = t.sequence_number
    await t.disconnect()
    return f"{c_now} {seq0} " + ",".join(tr), final


async def _run_rr(loop, case):
    """One bare request/acknowledgement exchange of Tunnelling / DeviceConfiguration."""
    tr = StubUDP()
    await tr.connect()
    ch, seq = case["ch"], case["seq"]
    if case["cls"] == "Tunnelling":
        rr = Tunnelling(tr, GW, TunnellingRequest(communication_channel_id=ch, sequence_counter=seq,
                                                  raw_cemi=frame(1).to_knx()))
        ack_cls = TunnellingAck
    else:
        rr = DeviceConfiguration(tr, GW, DeviceConfigurationRequest(
            communication_channel_id=ch, sequence_counter=seq, raw_cemi=bytes((0xFC, 0, 0x0B, 1, 0x45, 0x10, 1))))
        ack_cls = DeviceConfigurationAck
    timeout = vloop.q(rr.timeout_in_seconds)
    for a in [x for x in case["acks"].split(",") if x != "-"]:
        c, s, st, t = (int(v) for v in a.split(":"))
        loop.call_later(t / 1_000_000, tr.inject,
                        ack_cls(communication_channel_id=c, sequence_counter=s, status_code=ErrorCode(st)))
    try:
        await rr.request()
        out = "ok"
    except RequestResponseError as e:
        out = "timeout" if e.error_code is None else f"error:{e.error_code.value}"
    sent = len(tr.sent_raw)
    await asyncio.sleep(2 * rr.timeout_in_seconds)   # later ACKs find nobody waiting
    extra = "" if (sent == 1 and not tr.callbacks) else f" sent={sent} callbacks={len(tr.callbacks)}"
    return out + extra, timeout


def run_impl(case):
    if case.get("mode") == "rr":
        out, timeout = vloop.run(_run_rr, case)
        return {"out": out, "line": f"tsend rr {case['ch']} {case['seq']} {timeout} {case['acks']}"}
    s, final = vloop.run(_run, case)
    return {"out": s + f" seq={final}", "line": f"tsend monitor {s}", "expect": "accept"}


# ---------------------------------------------------------------------------
# oracle: the property text on the recorded trace, independent of the Lean monitor
# ---------------------------------------------------------------------------

def parse(out):
    c0, s0, body, fin = out.split(" ")
    obs = []
    for tok in body.split(","):
        if tok.startswith("!"):
            obs.append(("!", tok[1:]))
            continue
        b, t = tok[1:].split("@")
        obs.append((tok[0], tuple(int(x) for x in b.split(":")), int(t)))
    return int(c0), int(s0), obs, int(fin[4:])


def oracle_rr(case, out):
    acks = [tuple(int(v) for v in a.split(":")) for a in case["acks"].split(",") if a != "-"]
    timeout = vloop.q(1.0 if case["cls"] == "Tunnelling" else 10.0)  # only used to word the message
    match = [a for a in acks if a[0] == case["ch"] and a[1] == case["seq"]]
    if " " in out:
        return f"exchange left state behind: {out}"
    if out == "ok" and not any(a[2] == 0 for a in match):
        return (f"{case['cls']} request {case['ch']}:{case['seq']} was confirmed although no acknowledgement with that "
                f"channel, that counter and no error arrived (ACKs: {case['acks']})")
    if out.startswith("error:") and not any(a[2] == int(out[6:]) for a in match):
        return (f"{case['cls']} request {case['ch']}:{case['seq']} failed with status {out[6:]} taken from an "
                f"acknowledgement of another request (ACKs: {case['acks']}; timeout {timeout}us)")
    return None


def oracle(case, out):
    if case.get("mode") == "rr":
        return oracle_rr(case, out)
    chan, counter, obs, final = parse(out)
    tx = {}            # id -> [(ch, seq)] transmissions on the current connection
    open_req = None    # id whose request awaits its acknowledgement / result
    last_q = {}        # id -> index of its latest request
    called, finished = set(), set()
    for i, o in enumerate(obs):
        if o[0] == "!":
            return f"obs {i}: send_cemi raised {o[1]} (not a CommunicationError)"
        k, a, t = o
        if k == "C":
            called.add(a[0])
        elif k == "N":
            chan, counter, tx = a[0], 0, {}
        elif k == "Q":
            ch, seq, fid = a
            if open_req is not None and open_req != fid:
                return (f"obs {i}: request for frame {fid} sent while frame {open_req} still awaits its acknowledgement "
                        f"(only one request may await an ACK at a time)")
            open_req = fid
            if ch != chan:
                return f"obs {i}: request carries channel {ch}, the connection has channel {chan}"
            prev = tx.setdefault(fid, [])
            if not prev:
                if seq != counter:
                    return (f"obs {i}: first transmission of frame {fid} carries counter {seq}; the next counter on this "
                            f"connection is {counter}")
            else:
                if len(prev) >= 2:
                    return f"obs {i}: frame {fid} transmitted a third time on the same connection"
                if (ch, seq) != prev[0]:
                    return f"obs {i}: repetition of frame {fid} carries {ch}:{seq}, the first transmission carried {prev[0]}"
            prev.append((ch, seq))
            last_q[fid] = i
        elif k == "K":
            fid, ok = a
            if fid in finished:
                return f"obs {i}: second result for frame {fid}"
            finished.add(fid)
            if ok:
                if fid not in last_q:
                    return f"obs {i}: send of frame {fid} succeeded without any request"
                j = last_q[fid]
                _, (ch, seq, _), _ = obs[j]
                if not any(x[0] == "A" and x[1] == (ch, seq, 0) for x in obs[j + 1:i]):
                    seen = [f"{x[1][0]}:{x[1][1]}:{x[1][2]}" for x in obs[j + 1:i] if x[0] == "A"]
                    return (f"obs {i}: send of frame {fid} succeeded, but no acknowledgement with channel {ch}, counter "
                            f"{seq} and no error arrived after its request (ACKs seen in between: {seen or 'none'})")
            if open_req == fid:
                open_req = None
            counter = (counter + 1) % 256
    if called != finished:
        return f"sends without a result: {sorted(called - finished)}"
    if final != counter:
        return f"after the scenario the tunnel's counter is {final}; one increment per send since the last connect gives {counter}"
    return None


def nontrivial(case, out):
    if case.get("mode") == "rr":
        return case["acks"] != "-"
    return any(f and f != "ack" for f in case["script"].split(","))


def finding_key(case, msg):
    return "|".join(f"{k}={case[k]}" for k in sorted(case) if k != "violation_on_shrunk_input")


def outcome_class(out):
    if out.count(" ") < 3:
        return "rr:" + out.split(":")[0]
    body = out.split(" ")[2]
    return f"ok{body.count(':1@')}/err{body.count(':0@')}/conn{body.count('N')}"


def shrink(case, msg):
    if case.get("mode") == "rr":
        return case

    def fails(c):   # still failing, and still on an observation of the trace if the original failure was one
        try:
            m2 = oracle(c, run_impl(c)["out"])
            return m2 is not None and m2.startswith("obs") == str(msg).startswith("obs")
        except Exception:  # noqa: BLE001
            return False
    c = dict(case)
    c.pop("frames", None)
    if not fails(c):
        c = dict(case)
    for key, vals in (("callers", [1, 2]), ("warmup", [0]), ("seq0", [0]), ("nodiscresp", [0])):
        for v in vals:
            if c.get(key, 0) > v:
                d = dict(c, **{key: v})
                if fails(d):
                    c = d
                    break
    s = c["script"].split(",")
    i = 0
    while i < len(s) and len(s) > 1:
        cand = s[:i] + s[i + 1:]
        d = dict(c, script=",".join(cand))
        if fails(d):
            s, c = cand, d
        else:
            i += 1
    c["violation_on_shrunk_input"] = oracle(c, run_impl(c)["out"])
    return c


# ---------------------------------------------------------------------------
# generators
# ---------------------------------------------------------------------------

def generate(rng, tier):
    thorough = tier == "thorough"
    maxlen = 5 if thorough else 3
    n = 0
    for length in range(1, maxlen + 1):
        for sc in itertools.product(FAULTS, repeat=length):
            n += 1
            # every script with every number of callers; auto-reconnect and start counter rotate
            for callers in (1, 2, 3):
                if callers > length and callers > 1:
                    continue
                for auto in ((0, 1) if length <= 3 else ((n + callers) % 2,)):
                    yield {"script": ",".join(sc), "callers": callers, "auto": auto,
                           "seq0": (253, 254, 255, 0)[(n // 2 + callers + auto) % 4]}
            if length <= 2:
                for auto in (0, 1):
                    yield {"script": ",".join(sc), "callers": 1, "auto": auto, "seq0": 254, "frames": length + 2}
    # connection-level events while a send is pending: the server closes the channel (20 ms / 0.5 s after the request
    # whose ACK is lost) or the heartbeat gives up; the ConnectResponse of the re-connect is delayed, so that sends END
    # (time out, find no channel) during the handshake; more frames than faults, so sends follow on the new connection
    ext = FAULTS + ["srvdisc", "srvdisc5"]
    cds = ["0", "0.5", "0.7", "1.5", "3", "0.7,0.7", "1.5,0.5"]
    m = 0
    for length in range(1, (3 if thorough else 2) + 1):
        for sc in itertools.product(ext, repeat=length):
            if not any(f.startswith("srvdisc") for f in sc):
                continue
            for cd in cds:
                m += 1
                for callers in ((1, 2, 3) if (thorough or length == 1) else (1 + m % 3,)):
                    yield {"script": ",".join(sc), "callers": callers, "auto": 1, "cdelays": cd,
                           "seq0": (0, 254, 255, 3)[m % 4], "frames": length + 2 + m % 2,
                           "nodiscresp": (m // 3) % 2}
    # heartbeat failure (four unanswered ConnectionState requests, 70 s + 4 x 10 s after connect) while a send waits
    for start in ("109.5", "109.98", "109.0", "108.97", "110.0"):
        for cd in cds[:5]:
            for sc in (("lose",), ("lose", "lose"), ("late",), ("lose", "ack"), ("error", "lose")):
                m += 1
                if not thorough and m % 3:
                    continue
                yield {"script": ",".join(sc), "callers": 1 + m % 3, "auto": 1, "cdelays": cd, "hb": "fail",
                       "start": start, "seq0": (0, 255)[m % 2], "frames": 3 + m % 2, "nodiscresp": m % 2}
    # bare request/acknowledgement exchanges of both RequestResponse classes
    sts = [0, 0, 0x21, 0x29, 0x04]
    for j in range(3000 if thorough else 500):
        cls = ("Tunnelling", "DeviceConfiguration")[j % 2]
        to = 1_000_000 if cls == "Tunnelling" else 10_000_000
        ch, seq = rng.choice([0, 1, 7, 255]), rng.choice([0, 1, 127, 254, 255])
        times = sorted(rng.sample([10, 20_000, 500_000, to - 1000, to + 1000, to + 500_000, 2 * to - 7, 30, 40_000], rng.choice([0, 1, 2, 3, 4])))
        acks = []
        for t in times:
            r = rng.random()
            c, s = ch, seq
            if r < 0.25:
                s = (seq - 1) % 256
            elif r < 0.4:
                s = (seq + 1) % 256
            elif r < 0.55:
                c = (ch + 1) % 256
            elif r < 0.6:
                c, s = rng.randrange(256), rng.randrange(256)
            acks.append(f"{c}:{s}:{rng.choice(sts)}:{t}")
        yield {"mode": "rr", "cls": cls, "ch": ch, "seq": seq, "acks": ",".join(acks) or "-"}
    # real runs from connect(): > 255 acknowledged frames first, then the faults across the wrap
    for sc in itertools.product(FAULTS, repeat=2):
        if thorough or rng.random() < 0.25:
            yield {"script": ",".join(sc), "callers": rng.choice([1, 2]), "auto": 1, "warmup": rng.choice([254, 255, 256, 510]),
                   "frames": 4}
    # random longer scripts, more frames than faults, mid-send server disconnects
    for j in range(1500 if thorough else 150):
        length = rng.choice([4, 6, 8, 12])
        faults = FAULTS + (["srvdisc"] if j % 3 == 0 else [])
        sc = [rng.choice(faults) if rng.random() < 0.6 else "ack" for _ in range(length)]
        yield {"script": ",".join(sc), "callers": rng.choice([1, 2, 3]), "auto": rng.choice([0, 1, 1]),
               "seq0": rng.choice([0, 1, 250, 253, 254, 255]), "frames": length + rng.choice([0, 2, 5]),
               "ch0": rng.choice([0, 1, 7, 254, 255])}


_old_disable = None


def setup():
    global _old_disable
    _old_disable = logging.root.manager.disable
    logging.disable(logging.CRITICAL)


def teardown():
    logging.disable(_old_disable or 0)
