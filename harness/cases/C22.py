"""C22 Transports deliver stream frames once, in order, without crashing (real TCPTransport/UDPTransport, protocol factories driven directly)."""
import asyncio
import warnings

from xknx.io.transport.tcp_transport import TCPTransport
from xknx.io.transport.udp_transport import UDPTransport

from harness import knxip_lib as L

PROPERTY = "C22"
CASE_TIMEOUT = 2.0
HANG_IS_VIOLATION = True
EXHAUSTIVE = False
RULE = ("tcp: streams of <= 12 octets (minimal / short well-formed frames, malformed frames with readable length, unreadable "
        "octets, partial frames) split at EVERY subset of boundaries; longer streams of 2..8 segments drawn from all 29 body "
        "classes + malformed + garbage + partial tail split at every single boundary and at random boundary sets; one chunk "
        "of >= 2000 minimal frames; the whole stream in one chunk is run next to every splitting. udp: datagram sequences "
        "taken from the C20 generator. non-trivial = distinct cases in which at least one frame is delivered or skipped")
TRUSTED = ["model XknxVerif.Model.Stream hand-written on top of the C20 frame model",
           "the asyncio transport is absent: the protocol factories' data_received / datagram_received are called directly "
           "with the chunks (what the selector event loop does); user callbacks only record"]

MIN = bytes.fromhex("061005300006")


class _TCP(TCPTransport):
    __slots__ = ()


class _UDP(UDPTransport):
    __slots__ = ()


def setup():
    warnings.simplefilter("ignore", DeprecationWarning)
    try:
        asyncio.get_event_loop_policy().get_event_loop()
    except RuntimeError:
        asyncio.set_event_loop(asyncio.new_event_loop())


def run_tcp(chunks):
    events = []
    t = _TCP(("127.0.0.1", 3671))
    t.register_callback(lambda frame, source, transport: events.append(L.render(frame.body)))
    fac = TCPTransport.TCPTransportFactory(data_received_callback=t.data_received_callback,
                                           connection_lost_callback=lambda: None)
    for c in chunks:
        try:
            fac.data_received(c)
        except MemoryError:
            events.append("!other:MemoryError")
        except Exception as e:  # noqa: BLE001
            if type(e).__name__ == "CaseTimeout":
                raise
            events.append("!" + L.exc_class(e))
    return (";".join(events) or "-") + " buf=" + L.hx(t._buffer)


def run_udp(dgrams):
    events = []
    t = _UDP(("0.0.0.0", 0), ("127.0.0.1", 3671))
    t.register_callback(lambda frame, source, transport: events.append(L.render(frame.body)))
    fac = UDPTransport.UDPTransportFactory(data_received_callback=t.data_received_callback)
    for d in dgrams:
        try:
            fac.datagram_received(d, ("192.168.1.9", 3671))
        except MemoryError:
            events.append("!other:MemoryError")
        except Exception as e:  # noqa: BLE001
            if type(e).__name__ == "CaseTimeout":
                raise
            events.append("!" + L.exc_class(e))
    return ";".join(events) or "-"


def chunks_of(case):
    t = case["op"].split()
    return t[1], [bytes.fromhex(h) if h != "-" else b"" for h in t[2].split(",")]


def run_impl(case):
    kind, chunks = chunks_of(case)
    soft_guard = L.guarded
    if kind == "tcp":
        out, err = soft_guard(lambda: run_tcp(chunks))
        if err:
            return {"out": err}
        one, err = soft_guard(lambda: run_tcp([b"".join(chunks)]))
        return {"out": out + " |one " + (one or err), "expect": out}
    out, err = soft_guard(lambda: run_udp(chunks))
    if err:
        return {"out": err}

    def direct():
        from xknx.knxip import KNXIPFrame
        r = []
        for d in chunks:
            if not d:
                continue
            try:
                r.append(L.render(KNXIPFrame.from_knx(d)[0].body))
            except Exception as e:  # noqa: BLE001
                if type(e).__name__ == "CaseTimeout":
                    raise
                if L.exc_class(e).startswith("other"):
                    r.append("!" + L.exc_class(e))
        return ";".join(r) or "-"
    dr, err = soft_guard(direct)
    return {"out": out + " |direct " + (dr or err), "expect": out}


def oracle(case, out):
    kind, chunks = chunks_of(case)
    if "!" in out or out.startswith("err"):
        return "an exception escaped the transport's receive callback: " + out[:200]
    if kind == "tcp":
        got, one = out.split(" |one ")
        if got != one:
            return f"chunking changes what is delivered: chunked -> {got[:150]} ; whole stream at once -> {one[:150]}"
        if "frames" in case:
            evs, buf = got.rsplit(" buf=", 1)
            want = ";".join(case["frames"]) or "-"
            if evs != want:
                return f"delivered {evs[:200]} but the stream's well-formed frames are {want[:200]}"
            if buf != (case.get("tail") or "-"):
                return f"buffer after the stream is {buf}, expected the partial frame {case.get('tail')}"
    else:
        got, direct = out.split(" |direct ")
        if got != direct:
            return f"UDP transport delivered {got[:150]} but the datagrams that parse are {direct[:150]}"
    return None


def nontrivial(case, out):
    return not out.startswith("- ") and out != "-"


def outcome_class(out):
    if out.startswith("err"):
        return out
    head = out.split(" |")[0]
    evs = head.split(" buf=")[0]
    n = 0 if evs == "-" else evs.count(";") + 1
    kind = "tcp" if " buf=" in head else "udp"
    buf = "" if kind == "udp" else (" buf=empty" if head.endswith(" buf=-") else " buf=partial")
    return f"{kind} frames={n if n < 5 else '5+'}{buf}"


def splittings(stream, cuts):
    out, prev = [], 0
    for c in cuts:
        out.append(stream[prev:c])
        prev = c
    out.append(stream[prev:])
    return out


def tcp_case(chunks, **kw):
    c = {"op": "c22 tcp " + ",".join(L.hx(x) for x in chunks)}
    c.update(kw)
    return c


BAD_ACK = bytes.fromhex("06100421000a04010077")        # TUNNELLING_ACK with unknown status: malformed, length readable
BAD_SVC = bytes.fromhex("0610ffff000700")              # unknown service type, length 7 readable
BAD_VER = bytes.fromhex("0620053000080102")            # wrong protocol version, length 8 readable
CSR = bytes.fromhex("0610020800080100")                # CONNECTIONSTATE_RESPONSE
RI2 = bytes.fromhex("061005300008aabb")                # ROUTING_INDICATION, 2 cEMI octets
SHORT_STREAMS = [
    MIN + MIN,
    MIN + b"\x06\x10\x05",
    CSR + b"\x06\x10\x05\x30",
    BAD_SVC + b"\x06\x10\x05"[:3] + b"",
    b"\xff" + MIN + b"\x06",
    b"\x06\x10\x05\x30\x00\x00" + MIN,                 # total length 0: unreadable, resynchronise
    b"\x06\x06\x10\x05\x30\x00\x06"[:7] + b"\x06\x10",
    BAD_VER + b"\x06\x10\x05\x30"[:2],
]
SHORT_STREAMS_12 = [MIN + MIN, BAD_SVC + MIN[:5], b"\xff\xfe" + BAD_ACK, RI2 + b"\x06\x10\x02\x08"]


def segment(rng):
    """(bytes, render or None, kind)"""
    r = rng.random()
    if r < 0.62:
        spec = L.gen_spec(rng, rng.choice(L.BODY_CLASSES))
        if spec["cls"] in ("RoutingIndication", "TunnellingRequest", "DeviceConfigurationRequest"):
            spec["cemi"] = spec["cemi"][:40]
        return L.frame_bytes(spec), L.render(L.build(spec)), "good"
    if r < 0.7:
        return MIN, "RoutingIndication:-", "good"
    return rng.choice([BAD_ACK, BAD_SVC, BAD_VER,
                       bytes.fromhex("06100206000801"),              # CONNECT_RESPONSE too short... length 8 announced, 7 there
                       bytes.fromhex("0610020400080008"),            # DESCRIPTION_RESPONSE with zero-length DIB
                       bytes.fromhex("0610053300060"[:12]),          # ROUTING_SYSTEM_BROADCAST: no body class
                       bytes.fromhex("06100420000604")[:6],          # TUNNELLING_REQUEST empty body
                       ]), None, "bad"


def fix_bad(b):
    """make sure a 'bad' segment announces exactly its own length (readable) and is >= 6 octets"""
    b = bytearray(b)
    if len(b) < 6:
        b = bytearray(BAD_SVC)
    b[4:6] = len(b).to_bytes(2, "big")
    return bytes(b)


def generate(rng, tier):
    quick = tier == "quick"
    # ---- every subset of boundaries for short streams ----------------------
    shorts = [s for s in SHORT_STREAMS if len(s) <= 10] if quick else list(SHORT_STREAMS)
    shorts += SHORT_STREAMS_12[:1] if quick else SHORT_STREAMS_12
    for s in shorts:
        n = len(s)
        for mask in range(1 << (n - 1)):
            cuts = [i + 1 for i in range(n - 1) if mask >> i & 1]
            yield tcp_case(splittings(s, cuts), src="all-splits")
    # ---- longer structured streams -----------------------------------------
    for _ in range(6 if quick else 250):
        segs = [segment(rng) for _ in range(rng.randint(2, 8))]
        segs = [(fix_bad(b), r, k) if k == "bad" else (b, r, k) for b, r, k in segs]
        tail = b""
        if rng.random() < 0.6:
            tb = segment(rng)[0]
            tail = tb[:rng.randrange(1, len(tb))]
            if len(tail) >= 6:      # keep it a frame beginning whose announced length is not there yet
                tail = tail if tail[4] * 256 + tail[5] > len(tail) else tail[:5]
        stream = b"".join(b for b, _, _ in segs) + tail
        frames = [r for _, r, k in segs if k == "good"]
        kw = {"frames": frames, "tail": L.hx(tail) if tail else "", "src": "segments"}
        n = len(stream)
        step = 1 if n <= (300 if quick else 3000) else n // 300
        for cut in range(1, n, step):
            yield tcp_case(splittings(stream, [cut]), **kw)
        for _ in range(20 if quick else 200):
            k = rng.choice([2, 3, 5, 10, max(1, n // 3), n - 1])
            cuts = sorted(rng.sample(range(1, n), min(k, n - 1)))
            yield tcp_case(splittings(stream, cuts), **kw)
        yield tcp_case([bytes([x]) for x in stream], **kw)
    # ---- streams with unreadable garbage (chunking independence + model only) ----
    for _ in range(8 if quick else 300):
        parts = []
        for _ in range(rng.randint(2, 6)):
            r = rng.random()
            if r < 0.45:
                parts.append(segment(rng)[0])
            elif r < 0.7:
                parts.append(bytes(rng.choice([0, 5, 6, 7, 0x10, 0xFF, rng.randrange(256)]) for _ in range(rng.randint(1, 9))))
            else:
                parts.append(rng.choice([b"\x06\x10\x05\x30\x00\x03", b"\x06\x10\x05\x30\x00\x05\x06", b"\x06" * 7, MIN[:5]]))
        stream = b"".join(parts)
        n = len(stream)
        if n < 2:
            continue
        for cut in range(1, n, max(1, n // 120)):
            yield tcp_case(splittings(stream, [cut]), src="garbage")
        for _ in range(10 if quick else 100):
            cuts = sorted(rng.sample(range(1, n), min(rng.choice([2, 4, 9]), n - 1)))
            yield tcp_case(splittings(stream, cuts), src="garbage")
    # ---- many frames in one chunk (recursion depth) -------------------------
    yield tcp_case([MIN * 2000], frames=["RoutingIndication:-"] * 2000, tail="", src="many")
    yield tcp_case([(MIN + BAD_SVC) * 1100 + MIN[:4]], frames=["RoutingIndication:-"] * 1100, tail=L.hx(MIN[:4]), src="many")
    yield tcp_case([BAD_ACK * 2500], frames=[], tail="", src="many")
    if not quick:
        yield tcp_case([MIN * 5000, MIN * 5000], frames=["RoutingIndication:-"] * 10000, tail="", src="many")
        yield tcp_case([b"\xff" * 3000 + MIN], src="many")
    # ---- UDP datagram sequences from C20's input space ----------------------
    from harness.cases import C20
    pool = []
    for c in C20.generate(rng, "quick"):
        h = c["op"].split()[2]
        if len(h) <= 400:
            pool.append(h)
    rng.shuffle(pool)
    take = 600 if quick else len(pool)
    i = 0
    while i < take:
        k = rng.randint(1, 5)
        yield {"op": "c22 udp " + ",".join(pool[i:i + k]), "src": "udp"}
        i += k


def finding_key(case, msg):
    return case["op"]
