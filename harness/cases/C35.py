"""C35 State updater reads exactly when its tracking policy says (mode R on vloop + mode F for option parsing).

Scenario case: {"default": <XKNX(state_updater=...)>, "rvs": [[sync_state option, has_state_address, answers]], "steps": [...]}
  answers   how the bus answers the successive GroupValueReads of that value: list (cycled) of delays in us, or None = never
            (ValueReader times out after 2 s)
  steps     ["B"] xknx.start()  ["C", c] connection state change  ["G", i] devices.async_add(switch i)
            ["H", i] devices.async_remove(switch i)  ["T", i, "s"|"m"] incoming GroupValueWrite on the state / main address
            ["A", dt_us] let virtual time pass   ["W", n] burst of n outgoing GroupValueWrites on an unrelated address (keeps
            the outgoing queue busy when "rate" > 0 or "send_delay" > 0);   every scenario ends with xknx.stop()
  "rate" = XKNX(rate_limit=...), "send_delay" = us the stub interface needs per frame (both default 0)
Real XKNX.start/stop, StateUpdater, _StateTracker, RemoteValue(Switch), ValueReader, TelegramQueue run on vloop; only
`xknx.knxip_interface` is a stub (confirms every frame at once).  Observed: GroupValueRead telegrams queued on
`xknx.telegrams` (R), completion of the shielded read tasks (D, via the loop task factory), processed state telegrams (U),
delivered connection states (C), the outgoing queue becoming busy / drained (QB / QI, recording asyncio.Queue subclass) and
acquisition / release of a read slot (SA / SR, recording asyncio.Semaphore subclass put in place of the updater's semaphore).
Parse case: {"op": "c35 parse <default> <option>"} - StateUpdater.parse_tracker_options as a pure function (mode F).
"""
import asyncio
import logging

from harness import vloop
from xknx import XKNX
from xknx.cemi import CEMIFrame, CEMIMessageCode
from xknx.core import XknxConnectionState
from xknx.core.state_updater import StateTrackerType, StateUpdater, TrackerOptions
from xknx.devices import Switch
from xknx.dpt import DPTBinary
from xknx.io import ConnectionConfig
from xknx.telegram import GroupAddress, IndividualAddress, Telegram, TelegramDirection
from xknx.telegram.apci import GroupValueRead, GroupValueResponse, GroupValueWrite

PROPERTY = "C35"
RULE = ("scenarios of <=40 steps (start, connection changes, add/remove of 1-5 switches with tracker options init / expire n / "
        "every n / number / True / False / default from XKNX(state_updater=...), with or without state address, state telegrams on "
        "the state or the main address, time steps with boundary values 2 s, interval-1us, interval, interval+1us) and bus "
        "answers per read (delay 0..1.999999 s or none -> 2 s timeout); half of the random scenarios and 32 scripted ones keep the "
        "OUTGOING queue busy (XKNX(rate_limit) in {2,5,10,20} and/or a slow interface stub 40-700 ms per frame, bursts of 1-12 "
        "writes placed before connects, disconnects, removals and state telegrams) so that trackers are cancelled while they hold a "
        "read slot and wait for the queue to drain; plus StateUpdater.parse_tracker_options on a grid of "
        "defaults x options (bool, ints, floats, strings, TrackerOptions, boundary 0/1/1440/1441). non-trivial = scenario with "
        ">=1 read and >=1 connection loss, unregistration or state telegram; every distinct parse line")
TRUSTED = ["model XknxVerif.Model.StateUpdater is a hand-written monitor; tied to xknx/core/state_updater.py, value_reader.py, "
           "remote_value.py by trace acceptance on every run; constants regenerated (Generated/StateUpdaterConst.lean)",
           "harness/vloop.py virtual-time loop; read completion observed through loop.set_task_factory on the RemoteValue.read_state tasks; "
           "stub knxip_interface (confirmation immediately or after a scripted per-frame delay); the outgoing queue becoming busy/idle is "
           "observed by a recording asyncio.Queue subclass put in place of telegram_queue.outgoing_queue; read-slot acquire/release by a "
           "recording asyncio.Semaphore subclass put in place of StateUpdater._semaphore (private attribute: the harness fails loudly if it disappears)",
           "option strings are ASCII; NaN/inf intervals and a second registration of an already registered value are not generated"]
CASE_TIMEOUT = 20.0
MIN = 60_000_000
import inspect  # noqa: E402
PARALLEL_READS = inspect.signature(StateUpdater.__init__).parameters["parallel_reads"].default

STATES = {0: XknxConnectionState.DISCONNECTED, 1: XknxConnectionState.CONNECTING, 2: XknxConnectionState.CONNECTED}
CODE = {v: k for k, v in STATES.items()}
KIND = {StateTrackerType.INIT: "i", StateTrackerType.EXPIRE: "x", StateTrackerType.PERIODICALLY: "e"}
OPTS = ["init", "expire 1", "expire 2", "every 1", "every 3", "expire", True, 2, 1.5, False, None, "EVERY 1", "bogus 3"]
DEFAULTS = [False, True, "every 2", "init", 3]


class _Stub:
    def __init__(self, xknx, send_delay=0):
        self.xknx = xknx
        self.send_delay = send_delay
        self.connection_config = ConnectionConfig()

    async def start(self):
        pass

    async def stop(self):
        pass

    async def send_cemi(self, cemi):
        if self.send_delay:
            await asyncio.sleep(self.send_delay / 1e6)
        self.xknx.cemi_handler.handle_cemi_frame(CEMIFrame(code=CEMIMessageCode.L_DATA_CON, data=cemi.data))


class _RecOutQueue(asyncio.Queue):
    """outgoing_queue: reports when it becomes busy (unfinished 0 -> 1) and when it has drained (-> 0)."""

    def __init__(self, rec):
        super().__init__()
        self._rec = rec
        self._n = 0

    def put_nowait(self, item):
        if self._n == 0:
            self._rec("QB")
        self._n += 1
        super().put_nowait(item)

    def task_done(self):
        super().task_done()
        self._n -= 1
        if self._n == 0:
            self._rec("QI")


class _RecSem(asyncio.Semaphore):
    """the updater's read-slot semaphore: reports acquisitions and releases."""

    def __init__(self, value, rec):
        super().__init__(value)
        self._rec = rec

    async def acquire(self):
        r = await super().acquire()
        self._rec("SA")
        return r

    def release(self):
        self._rec("SR")
        super().release()


class _RecQueue(asyncio.Queue):
    def __init__(self, on_put):
        super().__init__()
        self._on_put = on_put

    def put_nowait(self, item):
        self._on_put(item)
        super().put_nowait(item)


def effective(xknx, opt, has_state):
    """(kind, interval_us) the updater will use for a RemoteValue with this sync_state, 'n' if it does not register."""
    sync = opt if opt is not None else xknx.state_updater.default_use_updater
    if not (sync and has_state):
        return ("n", 0)
    to = xknx.state_updater.parse_tracker_options(sync, "harness")
    return (KIND[to.tracker_type], int(round(to.update_interval_min * MIN)))


async def _scenario(loop, case):
    t0 = loop.time()
    trace = []
    last_t = [0]

    def rec(*ev):
        t = vloop.q(loop.time() - t0)
        if t != last_t[0]:
            trace.append(f"A,{t}")
            last_t[0] = t
        trace.append(",".join(str(x) for x in ev))

    xknx = XKNX(state_updater=case["default"], connection_state_changed_cb=lambda st: rec("C", CODE[st]),
                rate_limit=case.get("rate", 0))
    xknx.knxip_interface = _Stub(xknx, case.get("send_delay", 0))
    if not hasattr(xknx.state_updater, "_semaphore"):
        raise RuntimeError("StateUpdater has no _semaphore attribute any more: adapt the slot instrumentation")
    xknx.state_updater._semaphore = _RecSem(PARALLEL_READS, rec)  # noqa: SLF001
    xknx.telegram_queue.outgoing_queue = _RecOutQueue(rec)
    rvs = case["rvs"]
    sws, cfg, by_state, by_main, by_rv, nreads = [], [], {}, {}, {}, []
    for i, (opt, has_state, _answers) in enumerate(rvs):
        sw = Switch(xknx, f"sw{i}", group_address=f"1/0/{i}", group_address_state=f"1/1/{i}" if has_state else None,
                    sync_state=opt)
        sws.append(sw)
        cfg.append(effective(xknx, opt, has_state))
        by_state[GroupAddress(f"1/1/{i}")] = i
        by_main[GroupAddress(f"1/0/{i}")] = i
        by_rv[id(sw.switch)] = i
        nreads.append(0)

    def inject(i, which, response):
        ga = GroupAddress(f"1/1/{i}" if which == "s" else f"1/0/{i}")
        pl = GroupValueResponse(DPTBinary(1)) if response else GroupValueWrite(DPTBinary(1))
        xknx.telegrams.put_nowait(Telegram(destination_address=ga, direction=TelegramDirection.INCOMING, payload=pl,
                                           source_address=IndividualAddress("1.1.200")))

    def on_put(item):
        if item is None or item.direction != TelegramDirection.OUTGOING or not isinstance(item.payload, GroupValueRead):
            return
        i = by_state.get(item.destination_address)
        if i is None:
            rec("R", "?")
            return
        rec("R", i)
        answers = rvs[i][2]
        d = answers[nreads[i] % len(answers)] if answers else None
        nreads[i] += 1
        if d is not None:
            if d == 0:
                loop.call_soon(inject, i, "s", True)
            else:
                loop.call_later(d / 1e6, inject, i, "s", True)

    def on_telegram(telegram):
        if telegram.direction != TelegramDirection.INCOMING:
            return
        if not isinstance(telegram.payload, GroupValueWrite | GroupValueResponse):
            return
        if telegram.destination_address in by_state:
            rec("U", by_state[telegram.destination_address], "s")
        elif telegram.destination_address in by_main:
            rec("U", by_main[telegram.destination_address], "m")

    def factory(lp, coro, **kw):
        t = asyncio.Task(coro, loop=lp, **kw)
        if getattr(coro, "__qualname__", "") == "RemoteValue.read_state":
            rv = coro.cr_frame.f_locals.get("self") if coro.cr_frame is not None else None
            i = by_rv.get(id(rv))
            t.add_done_callback(lambda _t, i=i: rec("D", "?" if i is None else i))
        return t

    xknx.telegrams = _RecQueue(on_put)
    xknx.telegram_queue.register_telegram_received_cb(on_telegram)
    loop.set_task_factory(factory)
    started = False
    try:
        for st in case["steps"]:
            op = st[0]
            if op == "B":
                if not started:
                    rec("B")
                    await xknx.start()
                    started = True
            elif op == "C":
                xknx.connection_manager.connection_state_changed(STATES[st[1]])
            elif op == "G":
                if sws[st[1]] not in xknx.devices:
                    rec("G", st[1])
                    xknx.devices.async_add(sws[st[1]])
            elif op == "H":
                if sws[st[1]] in xknx.devices:
                    rec("H", st[1])
                    xknx.devices.async_remove(sws[st[1]])
            elif op == "T":
                inject(st[1], st[2], False)
            elif op == "W":
                for _ in range(st[1]):
                    xknx.telegrams.put_nowait(Telegram(destination_address=GroupAddress("5/0/1"),
                                                       payload=GroupValueWrite(DPTBinary(1))))
            elif op == "A":
                await asyncio.sleep(st[1] / 1e6)
            await loop.settle()
        if started:
            rec("X")
            await xknx.stop()
        await loop.settle()
    finally:
        loop.set_task_factory(None)
        xknx.started.clear()
    return list(trace), cfg   # (tasks cancelled at loop shutdown must not add observations)


_old_disable = None


def setup():
    global _old_disable
    _old_disable = logging.root.manager.disable
    logging.disable(logging.CRITICAL)


def teardown():
    logging.disable(_old_disable or logging.NOTSET)


# ---------------------------------------------------------------------------------------------
# option parsing (mode F)

def enc_opt(o):
    if isinstance(o, bool):
        return f"B{int(o)}"
    if isinstance(o, TrackerOptions):
        return f"T{KIND[o.tracker_type]}:{enc_num(o.update_interval_min)}"
    if isinstance(o, int | float):
        return "N" + enc_num(o)
    return "S" + o.replace(" ", "_") if o != "" else "S"


def enc_num(x):
    """number of minutes -> integer thousandths (the generator only produces such values)"""
    return str(int(round(x * 1000)))


def run_parse(case):
    default, opt = case["default"], case["opt"]
    xk = None   # parse_tracker_options never touches xknx
    try:
        su = StateUpdater(xk, default_tracker_option=default)
        to = su.parse_tracker_options(opt, "harness")
    except IndexError:
        return "err IndexError"
    except ValueError:
        return "err ValueError"
    return f"{KIND[to.tracker_type]} {enc_num(to.update_interval_min)}"


def parse_cases(rng, tier):
    nums = [0, 1, 2, 59, 60, 1439, 1440, 1441, 100000, -1, -5, 0.5, 0.999, 1.001, 1.5, 1440.001, 1439.999, 0.001]
    strs = ["init", "INIT", "Init", "expire", "expire 30", "EXPIRE 1", "expire 0", "expire 1440", "expire 1441", "expire 99999",
            "every", "every 5", "Every 60", "every 0", "every abc", "expire 3.5", "expire -3", "init 10", "bogus", "bogus 10",
            "expire  7", " expire 7", "expire 7 9", "  ", "every 007", "expireX 5"]
    tos = [TrackerOptions(t, n) for t in StateTrackerType for n in (0, 1, 30, 1440, 1441, 0.5, 2.5)]
    opts = [True, False] + nums + strs + tos
    defaults = [False, True, 30, 0, 5000, 2.5, "init", "every 10", "expire 99999", "bogus 3", "every", TrackerOptions(StateTrackerType.INIT, 7)]
    for d in defaults:
        for o in opts:
            yield {"op": f"c35 parse {enc_opt(d)} {enc_opt(o)}", "default": d, "opt": o}
    for _ in range(300 if tier == "quick" else 5000):
        d = rng.choice(defaults)
        r = rng.random()
        if r < 0.4:
            o = rng.choice([rng.randint(-3, 2000), round(rng.uniform(-2, 1500), 3)])
        elif r < 0.9:
            w = rng.choice(["init", "expire", "every", "EVERY", "ExPiRe", "bogus", "in it"])
            tail = rng.choice(["", " 0", " 1", " 5", " 1440", " 1441", " 12x", " x", " 3 4", "  2"])
            o = w + tail
        else:
            o = TrackerOptions(rng.choice(list(StateTrackerType)), rng.choice([rng.randint(-3, 2000), round(rng.uniform(0, 3), 3)]))
        yield {"op": f"c35 parse {enc_opt(d)} {enc_opt(o)}", "default": d, "opt": o}


# ---------------------------------------------------------------------------------------------

SCRIPTS = [
    [["G", 0], ["G", 1], ["G", 2], ["B"], ["C", 2], ["A", 500_000], ["T", 0, "m"], ["A", 100_000], ["A", 5_000_000], ["A", MIN],
     ["A", MIN], ["C", 0], ["A", 1_000_000], ["C", 2], ["A", 3 * MIN]],
    [["C", 2], ["G", 0], ["B"], ["G", 1], ["A", 1_000_000], ["H", 0], ["A", MIN], ["G", 0], ["A", 30_000_000], ["T", 0, "s"],
     ["A", MIN - 1], ["A", 1], ["A", 1], ["A", 2 * MIN], ["C", 1], ["A", MIN], ["C", 2], ["A", MIN]],
    [["B"], ["G", 0], ["G", 1], ["G", 2], ["G", 3], ["C", 2], ["A", 2_000_000], ["A", 2_000_000], ["C", 0], ["C", 2], ["A", 1],
     ["T", 1, "s"], ["T", 2, "m"], ["A", MIN], ["H", 1], ["H", 2], ["A", 3 * MIN]],
]


BUSY_SCRIPTS = [
    # connection comes up while the queue is busy; it is lost again before the queue has drained; reconnect on an idle bus
    [["G", 0], ["G", 1], ["G", 2], ["B"], ["W", 6], ["A", 50_000], ["C", 2], ["A", 100_000], ["C", 0], ["A", 3_000_000], ["C", 2],
     ["A", 5_000_000], ["A", MIN], ["A", MIN]],
    # devices removed while their trackers hold the slots and wait for the queue
    [["G", 0], ["G", 1], ["G", 2], ["B"], ["W", 6], ["A", 50_000], ["C", 2], ["A", 100_000], ["H", 0], ["H", 1], ["A", 3_000_000],
     ["A", 5_000_000], ["G", 0], ["A", 5_000_000], ["A", MIN]],
    # state telegram for an expire tracker that waits for the queue; then periodic reads must go on
    [["G", 1], ["G", 3], ["G", 2], ["B"], ["W", 6], ["A", 50_000], ["C", 2], ["A", 100_000], ["T", 1, "s"], ["T", 3, "m"], ["A", 3_000_000],
     ["A", MIN], ["W", 12], ["A", MIN], ["A", 2 * MIN]],
    # burst in the middle of periodic operation, flapping connection during it
    [["G", 0], ["G", 1], ["G", 2], ["G", 3], ["B"], ["C", 2], ["A", 5_000_000], ["A", MIN - 6_000_000], ["W", 12], ["A", 1_100_000], ["C", 1],
     ["C", 2], ["A", 200_000], ["C", 0], ["A", 100_000], ["C", 2], ["A", 5_000_000], ["A", MIN], ["A", MIN]],
]


def generate(rng, tier):
    yield from parse_cases(rng, tier)
    answer_sets = [[1000], [0], [500_000], [None], [1_999_999], [1000, None], [None, 0], []]
    for opt in OPTS:
        for si, script in enumerate(SCRIPTS):
            for ans in ([1000], [None], [0, None]):
                rvs = [[opt, True, ans], ["expire 1", True, [None]], ["every 1", True, [1000]], ["init", si != 2, ans]]
                yield {"default": DEFAULTS[si % len(DEFAULTS)], "rvs": rvs, "steps": script}
    # busy outgoing queue (rate limit / slow interface + bursts of writes) around connects, disconnects, removals, updates
    for rate, delay in ((10, 0), (5, 0), (0, 150_000), (20, 40_000)):
        for si, script in enumerate(BUSY_SCRIPTS):
            for ans in ([1000], [None]):
                rvs = [["init", True, ans], ["expire 1", True, ans], ["every 1", True, [1000]], ["expire 2", True, [None]]]
                yield {"default": False, "rvs": rvs, "steps": script, "rate": rate, "send_delay": delay}
    n = 250 if tier == "quick" else 4000
    for _ in range(n):
        nr = rng.randint(1, 5)
        rvs = [[rng.choice(OPTS), rng.random() < 0.85, rng.choice(answer_sets)] for _ in range(nr)]
        steps = []
        pre = rng.random()
        if pre < 0.3:
            steps.append(["C", 2])
        for i in range(nr):
            if rng.random() < 0.6:
                steps.append(["G", i])
        steps.append(["B"])
        for _ in range(rng.randint(3, 38)):
            r = rng.random()
            if r < 0.18:
                steps.append(["C", rng.choice([0, 1, 2, 2, 2])])
            elif r < 0.30:
                steps.append(["G", rng.randrange(nr)])
            elif r < 0.38:
                steps.append(["H", rng.randrange(nr)])
            elif r < 0.55:
                steps.append(["T", rng.randrange(nr), rng.choice("ssm")])
            else:
                steps.append(["A", rng.choice([1, 1000, 500_000, 1_999_999, 2_000_000, 2_000_001, 30_000_000, MIN - 1, MIN, MIN + 1,
                                               MIN - 2_000_000, 2 * MIN, 3 * MIN, 90_000_000, 10 * MIN])])
        case = {"default": rng.choice(DEFAULTS), "rvs": rvs, "steps": steps}
        if rng.random() < 0.5:
            # keep the outgoing queue busy: rate limit and/or slow interface, bursts of writes sprinkled over the steps
            case["rate"] = rng.choice([0, 2, 5, 10, 20])
            case["send_delay"] = rng.choice([0, 0, 40_000, 150_000, 700_000]) if case["rate"] else rng.choice([40_000, 150_000, 700_000])
            k = 0
            while k < len(steps):
                if steps[k][0] in "CGHT" and rng.random() < 0.5:
                    steps.insert(k, ["W", rng.choice([1, 2, 3, 6, 12])])
                    k += 1
                    if rng.random() < 0.5:
                        steps.insert(k, ["A", rng.choice([1, 50_000, 100_000, 150_000, 300_000])])
                        k += 1
                k += 1
        yield case


def run_impl(case):
    if "op" in case:
        return run_parse(case)
    trace, cfg = vloop.run(lambda loop: _scenario(loop, case))
    s = ";".join(trace)
    c = ";".join(f"{k}:{iv}" for k, iv in cfg)
    return {"out": c + " " + s, "line": f"c35 monitor {c} {s or '-'}", "expect": "accept"}


READ_TIMEOUT = 2_000_000


def oracle(case, out):
    if "op" in case:
        if out.startswith("err"):
            return None   # recorded as observation in notes (whitespace-only option string); not part of the property text
        kind, iv = out.split()
        opt = case["opt"]
        if isinstance(opt, str) and opt.split():
            want = {"INIT": "i", "EXPIRE": "x", "EVERY": "e"}.get(opt.split()[0].upper())
            if want and want != kind:
                return f"option {opt!r} parsed as tracker type {kind!r}, the word says {want!r}"
            if want and len(opt.split()) > 1 and opt.split()[1].isascii() and opt.split()[1].isdigit():
                m = min(max(int(opt.split()[1]), 1), 1440) * 1000
                if int(iv) != m:
                    return f"option {opt!r} parsed with interval {int(iv) / 1000} min"
        if isinstance(opt, TrackerOptions) and KIND[opt.tracker_type] != kind:
            return f"TrackerOptions {opt!r} parsed as tracker type {kind!r}"
        if not (1000 <= int(iv) <= 1_440_000):
            # an out-of-range default can only come from an out-of-range *default* passed through unclamped
            return f"parsed interval {int(iv) / 1000} min outside 1..1440"
        return None
    cfgs, _, trace = out.partition(" ")
    cfg = [(c.split(":")[0], int(c.split(":")[1])) for c in cfgs.split(";")]
    n = len(cfg)
    evs = [e.split(",") for e in trace.split(";")] if trace else []
    now = 0
    connected = listening = started = False
    reg = [False] * n
    inflight = []                 # [i, t_read]
    need_init = [False] * n       # a (re)connection / registration owes one read
    last_update = [None] * n      # time of the last state telegram seen while tracked (for 'expire')
    last_read = [None] * n        # time the previous read was issued
    next_due = [None] * n         # when the next periodic read is due (set when the tracker's own read completes / on update)
    own = [None] * n              # index into `inflight` bookkeeping: the read the tracker is waiting for (its issue time)
    init_done = [False] * n
    reads_since_start = [0] * n
    stopped_at = None
    qbusy = False                 # outgoing queue has unfinished telegrams (trackers holding a slot wait for it to drain)
    held = 0                      # read slots currently acquired

    def due_now():
        return sum(1 for i in range(n) if started and reg[i] and cfg[i][0] != "n"
                   and (need_init[i] or (next_due[i] is not None and next_due[i] <= now)))

    def start_all():
        for i in range(n):
            if reg[i] and cfg[i][0] != "n":
                need_init[i] = True
                init_done[i] = False

    for idx, e in enumerate(evs):
        k = e[0]
        if k == "A":
            t = int(e[1])
            # every acquired slot belongs to a read in progress or to a tracker that still wants to read
            if held - len(inflight) > due_now():
                return (f"{held} read slot(s) are taken but only {len(inflight)} read(s) are in progress and {due_now()} tracker(s) "
                        f"wait to read: a slot was lost (event #{idx})")
            if not qbusy and held != len(inflight):
                return f"outgoing queue idle, {held} slots taken, {len(inflight)} reads in progress (event #{idx})"
            # reads owed before the clock moves on (once the outgoing queue has drained)
            if started and len(inflight) < 2 and not qbusy:
                for i in range(n):
                    if need_init[i] and reg[i]:
                        return f"value {i}: no read although it is registered, connected since {now} us and fewer than two reads are in progress (event #{idx})"
                    if reg[i] and next_due[i] is not None and next_due[i] < t:
                        return (f"value {i} ({cfg[i][0]} {cfg[i][1] / MIN} min): periodic read was due at {next_due[i]} us, none issued by {t} us "
                                f"although fewer than two reads are in progress (event #{idx})")
            now = t
        elif k == "QB":
            qbusy = True
        elif k == "QI":
            qbusy = False
        elif k == "SA":
            held += 1
            if held > PARALLEL_READS:
                return f"{held} read slots acquired at once (event #{idx})"
        elif k == "SR":
            held -= 1
            if held < len(inflight):
                return f"a read slot was released while its read is still in progress ({len(inflight)} reads, {held} slots) (event #{idx})"
        elif k == "B":
            listening = True
            if connected:
                started = True
                start_all()
        elif k == "X":
            listening = False
            started = False
            need_init = [False] * n
            next_due = [None] * n
            own = [None] * n
        elif k == "C":
            c = int(e[1])
            connected = c == 2
            if listening:
                if c == 2 and not started:
                    started = True
                    start_all()
                elif c != 2 and started:
                    started = False
                    stopped_at = now
                    need_init = [False] * n
                    next_due = [None] * n
                    own = [None] * n
        elif k == "G":
            i = int(e[1])
            reg[i] = True
            if started and cfg[i][0] != "n":
                need_init[i] = True
                init_done[i] = False
        elif k == "H":
            i = int(e[1])
            reg[i] = False
            need_init[i] = False
            next_due[i] = None
            own[i] = None
        elif k == "U":
            i = int(e[1])
            if started and reg[i]:
                last_update[i] = now
                if cfg[i][0] == "x":
                    # an 'expire' tracker restarts its timer on every state update; an initial read that was still waiting
                    # for a free read slot is dropped (the state is known now)
                    need_init[i] = False
                    next_due[i] = now + cfg[i][1]
                    own[i] = None
        elif k == "R":
            if e[1] == "?":
                return f"GroupValueRead for an address that is no state address (event #{idx})"
            i = int(e[1])
            kind, iv = cfg[i]
            if kind == "n":
                return f"value {i} is read although it has no tracker (no state address / sync_state off) (event #{idx})"
            if not started:
                return f"value {i} is read while the updater is not connected (event #{idx})"
            if not reg[i]:
                return f"value {i} is read while it is not registered (event #{idx})"
            if len(inflight) >= 2:
                return f"value {i} is read while two reads are already in progress {[(a, b) for a, b in inflight]} (event #{idx})"
            if held <= len(inflight):
                return f"value {i} is read without holding a read slot (event #{idx})"
            need_init_was = need_init[i]
            if need_init[i]:
                need_init[i] = False
            else:
                if kind == "i":
                    return f"value {i} (init) is read again without a new connection/registration (event #{idx})"
                if kind == "x" and last_update[i] is not None and now - last_update[i] < iv:
                    return (f"value {i} (expire {iv / MIN} min) is read {now - last_update[i]} us after its last state update "
                            f"(event #{idx})")
                if last_read[i] is not None and now - last_read[i] < iv:
                    return (f"value {i} ({'expire' if kind == 'x' else 'every'} {iv / MIN} min) is read again {now - last_read[i]} us "
                            f"after its previous read (event #{idx})")
            last_read[i] = now
            next_due[i] = None
            own[i] = (now, need_init_was)
            inflight.append([i, now])
        elif k == "D":
            if e[1] == "?":
                continue
            i = int(e[1])
            for j, (a, _b) in enumerate(inflight):
                if a == i:
                    if own[i] is not None and own[i][0] == _b and started and reg[i]:
                        # the tracker's own read completed: an init tracker is finished, the others sleep one interval
                        if not (cfg[i][0] == "i" and own[i][1]):
                            next_due[i] = now + cfg[i][1]
                        own[i] = None
                    inflight.pop(j)
                    break
    return None


def nontrivial(case, out):
    if "op" in case:
        return True
    return ";R," in out and (";H," in out or ";U," in out or out.count(";C,") > 1)


def outcome_class(out):
    return out.split(" ")[0][:12] if not out.startswith(("i ", "x ", "e ", "err")) else out.split(" ")[0]


def finding_key(case, msg):
    if "op" in case:
        return case["op"]
    return "c35 " + str(case["default"]) + f" r{case.get('rate', 0)}d{case.get('send_delay', 0)} " + ";".join(f"{o}/{int(h)}/{a}" for o, h, a in case["rvs"]) + " " + \
        ";".join(",".join(str(x) for x in s) for s in case["steps"])


def shrink(case, msg):
    if "op" in case:
        return case

    def fails(c):
        try:
            return oracle(c, run_impl(c)["out"]) is not None
        except Exception:  # noqa: BLE001
            return False
    cur = dict(case)
    changed = True
    while changed and len(cur["steps"]) > 1:
        changed = False
        for i in range(len(cur["steps"])):
            cand = dict(cur, steps=cur["steps"][:i] + cur["steps"][i + 1:])
            if fails(cand):
                cur = cand
                changed = True
                break
    return cur


if __name__ == "__main__":
    import json
    import random
    import sys
    from harness import framework
    setup()
    rng = random.Random(int(sys.argv[1]) if len(sys.argv) > 1 else 0)
    cases, lines, exps = [], [], []
    for k, c in enumerate(generate(rng, sys.argv[2] if len(sys.argv) > 2 else "quick")):
        r = run_impl(c)
        out = r if isinstance(r, str) else r["out"]
        m = oracle(c, out)
        if m:
            print(json.dumps(c, default=str), "\n ", out[:3000], "\n  oracle:", m)
            break
        cases.append(c)
        lines.append(c["op"] if isinstance(r, str) else r["line"])
        exps.append(r if isinstance(r, str) else "accept")
    try:
        outs = framework.drive(lines)
        bad = [(c, l, o, x) for c, l, o, x in zip(cases, lines, outs, exps) if o != x]
        print(len(cases), "cases;", len(bad), "disagree")
        for c, l, o, x in bad[:4]:
            k = int(o.split("@")[1]) if "@" in o else -1
            evs = l.split(" ")[3].split(";") if "monitor" in l else []
            print(json.dumps(c, default=str)[:600], "\n ", l[:200], "\n  model:", o, "impl:", x, evs[max(0, k - 12):k + 1])
    except Exception as ex:  # noqa: BLE001
        print("driver:", ex)
