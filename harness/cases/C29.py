"""C29 A secure session only accepts fresh wrapped frames and never sends plain ones (mode R, virtual time).

The real `SecureSession` runs on `harness/vloop.py`.  `TCPTransport.connect` is replaced (class level, restored)
by a stub that installs a recording stream transport; a harness-side "server" (harness/ipsec_ref.py, independent
of xknx's crypto helpers) owns an X25519 key, derives the session key from the client's SessionRequest and builds
every frame the session receives: genuine, replayed, reordered, forged-MAC, wrong-session, plain, nested,
remote-diagnosis, authenticated-but-unparsable - before, at and after the handshake.  All send paths are driven:
requests, heartbeats (ConnectionStateRequest), the keepalive timer, SessionStatus CLOSE on stop.  Observed: frames
passed to a catch-all callback, bytes written (opened with the session key by the server), exceptions, and a probe of
`initialized` / `_sequence_number_received` / `_sequence_number` after every step.
"""
from __future__ import annotations

import asyncio
import functools
import logging

from cryptography.hazmat.primitives import serialization
from cryptography.hazmat.primitives.asymmetric.x25519 import X25519PrivateKey, X25519PublicKey

from harness import ipsec_ref as R
from harness import vloop
from xknx.exceptions import CommunicationError, CouldNotParseKNXIP, IPSecureError, RequestResponseError
from xknx.io import ip_secure
from xknx.io.const import SESSION_KEEPALIVE_RATE
from xknx.io.ip_secure import SecureSession
from xknx.io.transport.tcp_transport import TCPTransport
from xknx.knxip import (
    HPAI,
    ConnectionStateRequest,
    ConnectionStateResponse,
    ConnectRequest,
    ConnectResponse,
    DescriptionRequest,
    DescriptionResponse,
    DeviceConfigurationAck,
    DisconnectRequest,
    DisconnectResponse,
    KNXIPFrame,
    KNXIPServiceType,
    RoutingBusy,
    RoutingIndication,
    SearchRequest,
    SecureWrapper,
    SessionAuthenticate,
    SessionRequest,
    SessionResponse,
    SessionStatus,
    TimerNotify,
    TunnellingAck,
    TunnellingRequest,
)
from xknx.knxip.connect_response import ConnectResponseData
from xknx.knxip.knxip_enum import SecureSessionStatusCode
from xknx.telegram import IndividualAddress

logging.getLogger("xknx").setLevel(logging.CRITICAL + 1)

PROPERTY = "C29"
EXHAUSTIVE = False
CASE_TIMEOUT = 20.0
RULE = ("generated session histories on a virtual clock: connect (with / without device authentication, good / bad "
        "SessionResponse MAC, no answer), <= 40 received frames (genuine in order, replayed, reordered, far-future and 2^48-1 "
        "sequence numbers, forged MAC, wrong key, wrong session id with and without a valid MAC, plain frames of every "
        "implemented service, nested wrapper, remote diagnosis / configuration services, authenticated but unparsable inner) "
        "before / in the same TCP chunk as / after the SessionResponse, interleaved with sends of every kind (requests, "
        "heartbeat, plain attempts before the handshake, counter poked to 2^48-2..2^48), keepalive periods, stop, reconnect. "
        "non-trivial = history with a completed handshake and at least one forwarded and one dropped wrapped frame")
TRUSTED = [
    "model XknxVerif.Model.SecureSession hand-written; FORBIDDEN_WRAPPED_SERVICES, service codes and SESSION_KEEPALIVE_RATE regenerated each run",
    "harness/ipsec_ref.py (independent CBC-MAC/CTR over the AES block primitive of `cryptography`) builds and opens all frames; "
    "`macOk` is its verdict and is an uninterpreted input of the theorems; X25519, PBKDF2 and SHA-256 are done by cryptography/hashlib",
    "TCPTransport.connect replaced by a stub installing a recording transport; transport.close() schedules _connection_lost like asyncio does",
    "state probe after every step reads initialized/_sequence_number_received/_sequence_number; _sequence_number is poked to reach 2^48",
]

SVC = KNXIPServiceType
KEEPALIVE_MS = round(SESSION_KEEPALIVE_RATE * 1000)
MAX48 = (1 << 48) - 1
ADDR = ("127.0.0.1", 3671)
USER_ID = 2
USER_PW = "secret"
DEV_PW = "trustme"
SERVER_SERIAL = bytes.fromhex("00fa12345678")

_cemi = bytes.fromhex("2900bce011010001010081")


def _hpai():
    return HPAI("192.168.1.5", 3671)


# plain KNXnet/IP frames by name (built with the repo's own body classes: they are *inputs*)
def _frames():
    f = {
        "search_req": SearchRequest(discovery_endpoint=_hpai()),
        "descr_req": DescriptionRequest(control_endpoint=_hpai()),
        "connect_req": ConnectRequest(control_endpoint=_hpai(), data_endpoint=_hpai()),
        "connect_resp": ConnectResponse(communication_channel=1, data_endpoint=_hpai(),
                                        crd=ConnectResponseData(individual_address=IndividualAddress("1.1.5"))),
        "constate_req": ConnectionStateRequest(communication_channel_id=1, control_endpoint=_hpai()),
        "constate_resp": ConnectionStateResponse(communication_channel_id=1),
        "disconnect_req": DisconnectRequest(communication_channel_id=1, control_endpoint=_hpai()),
        "disconnect_resp": DisconnectResponse(communication_channel_id=1),
        "devconf_ack": DeviceConfigurationAck(communication_channel_id=1, sequence_counter=0),
        "tunnel_req": TunnellingRequest(communication_channel_id=1, sequence_counter=3, raw_cemi=_cemi),
        "tunnel_ack": TunnellingAck(communication_channel_id=1, sequence_counter=3),
        "routing_ind": RoutingIndication(raw_cemi=_cemi),
        "routing_busy": RoutingBusy(),
        "session_req": SessionRequest(ecdh_client_public_key=bytes(range(32))),
        "session_auth": SessionAuthenticate(user_id=2, message_authentication_code=bytes(16)),
        "timer_notify": TimerNotify(timer_value=5, serial_number=bytes(6), message_tag=bytes(2),
                                    message_authentication_code=bytes(16)),
    }
    out = {k: KNXIPFrame.init_from_body(v).to_knx() for k, v in f.items()}
    for st in SecureSessionStatusCode:
        out[f"status_{st.value}"] = KNXIPFrame.init_from_body(SessionStatus(status=st)).to_knx()
    # services without a body class in xknx: header + dummy body (remote diagnosis / configuration)
    for code in (0x0740, 0x0741, 0x0742, 0x0743):
        out[f"raw_{code:04x}"] = bytes((0x06, 0x10)) + code.to_bytes(2, "big") + (10).to_bytes(2, "big") + bytes(4)
    return out


FR = _frames()
PLAIN_NAMES = [k for k in FR if not k.startswith("raw_")]
INNER_OK = ["connect_resp", "constate_resp", "disconnect_req", "disconnect_resp", "tunnel_req", "tunnel_req", "tunnel_ack",
            "tunnel_ack", "devconf_ack", "status_0", "status_4", "routing_ind", "search_req", "session_req", "timer_notify",
            "descr_req"]
INNER_FORBIDDEN = ["raw_0740", "raw_0741", "raw_0742", "raw_0743", "nested"]
INNER_UNPARSABLE = ["garbage", "truncated", "unknown_svc", "bad_version"]
SEND_NAMES = ["connect_req", "constate_req", "constate_req", "tunnel_req", "tunnel_req", "tunnel_ack", "disconnect_req",
              "status_4", "session_req", "descr_req"]


def _svc_of(raw):
    return int.from_bytes(raw[2:4], "big")


def _aux_of(raw):
    return raw[6] if _svc_of(raw) == SVC.SESSION_STATUS.value and len(raw) >= 7 else 0


_real_connect = TCPTransport.connect
_real_gen = ip_secure.generate_ecdh_key_pair
_real_du = ip_secure.derive_user_password
_real_dd = ip_secure.derive_device_authentication_password


def setup():
    ip_secure.derive_user_password = functools.lru_cache(maxsize=None)(_real_du)
    ip_secure.derive_device_authentication_password = functools.lru_cache(maxsize=None)(_real_dd)


def teardown():
    TCPTransport.connect = _real_connect
    ip_secure.generate_ecdh_key_pair = _real_gen
    ip_secure.derive_user_password = _real_du
    ip_secure.derive_device_authentication_password = _real_dd


def _exc_kind(e):
    if isinstance(e, IPSecureError):
        return "ipsec"
    if isinstance(e, RequestResponseError):
        return "rr"
    if isinstance(e, CommunicationError):
        return "comm"
    if isinstance(e, CouldNotParseKNXIP):
        return "parse"
    return "other:" + type(e).__name__


class _Stream:
    """Stands in for the asyncio stream transport."""

    def __init__(self, world):
        self.world = world
        self.closed = False

    def write(self, data):
        self.world.on_write(bytes(data))

    def close(self):
        if not self.closed:
            self.closed = True
            # asyncio: connection_lost is called from a later loop iteration
            asyncio.get_running_loop().call_soon(self.world.on_closed)

    def get_extra_info(self, _n):
        return ADDR


class _World:
    """The session under test, its recording transport, and the harness-side server."""

    def __init__(self, loop, seed, dap):
        self.loop = loop
        self.trace = []
        self.call = None          # writes/exceptions of the harness call in progress
        self.key = None           # session key of the running session as the server knows it
        self.key_ep = (999997, 0)  # its epoch: (client key-pair id, server key id)
        self.adopted = None       # (key, epoch) the client adopted at its last handshake (seen on its SessionAuthenticate)
        self.client_pub = None
        self.client_pubs = []     # distinct public keys seen in SessionRequests written by connect(): index = key-pair id
        self.cur_kp = 0
        self.keys = {}            # session key octets -> epoch, for every (client key, server key) pair so far
        self.server_privs = [X25519PrivateKey.from_private_bytes(bytes((seed * 7 + i * 13 + 1 + 29 * j) % 256 for i in range(32)))
                             for j in range(3)]
        self.server_pubs = [k.public_key().public_bytes(serialization.Encoding.Raw, serialization.PublicFormat.Raw)
                            for k in self.server_privs]
        self.sessions = []        # per connect(): what the server sent: {"resp": [raw...], "wrap": [(raw, epoch, token)...]}
        self.dap = dap
        self.connect_task = None
        self.lost_pending = False
        n = [0]

        def gen_pair():
            n[0] += 1
            priv = X25519PrivateKey.from_private_bytes(bytes((seed * 31 + n[0] * 17 + i * 3 + 5) % 256 for i in range(32)))
            return priv, priv.public_key().public_bytes(serialization.Encoding.Raw, serialization.PublicFormat.Raw)
        ip_secure.generate_ecdh_key_pair = gen_pair
        world = self

        async def fake_connect(self_):
            self_.transport = _Stream(world)
        TCPTransport.connect = fake_connect
        self.session = SecureSession(remote_addr=ADDR, user_id=USER_ID, user_password=USER_PW,
                                     device_authentication_password=DEV_PW if dap else None,
                                     connection_lost_cb=lambda: None)
        self.session.register_callback(self.on_forward, None)
        self.fwd = None

    def now(self):
        return int(round((self.loop.time() - 1000.0) * 1000))

    def derive(self, kp, srv):
        key = R.session_key(self.server_privs[srv].exchange(X25519PublicKey.from_public_bytes(self.client_pubs[kp])))
        self.keys.setdefault(key, (kp, srv))
        return key

    # ---- outputs of the implementation -------------------------------------------------------
    def on_forward(self, frame, _src, _tr):
        raw = frame.to_knx()
        self.fwd = (frame.header.service_type_ident.value, _aux_of(raw))

    def decode_write(self, data):
        svc = _svc_of(data)
        if svc == R.WRAPPER_SVC:
            # which session key was this wrapper made under?  (the adopted one first, then every key known to the server)
            cands = ([self.adopted[0]] if self.adopted else []) + [k for k in self.keys]
            u, ep = None, (999999, 0)
            for k in cands:
                uu = R.unwrap(k, data)
                if uu is not None and uu["mac_ok"]:
                    u, ep = uu, self.keys[k]
                    break
            if u is None:
                return ("ww", 0, 0, 0, 0, 0, ep[0], ep[1])
            ok = int(u["serial"] == ip_secure.XKNX_SERIAL_NUMBER
                     and u["tag"] == ip_secure.MESSAGE_TAG_TUNNELLING and len(u["payload"]) >= 6
                     and int.from_bytes(u["payload"][4:6], "big") == len(u["payload"]))
            svc_in = _svc_of(u["payload"]) if len(u["payload"]) >= 4 else 0
            if svc_in == SVC.SESSION_AUTHENTICATE.value and self.call is None:
                self.sid_active = u["session_id"]
                self.adopted = (k, ep)
            return ("ww", u["seq"], svc_in, _aux_of(u["payload"]), ok, u["session_id"], ep[0], ep[1])
        if svc == SVC.SESSION_REQUEST.value and len(data) == 46 and self.call is None:
            # the SessionRequest written by connect() itself carries the client's ephemeral public key
            self.client_pub = data[14:46]
            if self.client_pub not in self.client_pubs:
                self.client_pubs.append(self.client_pub)
            self.cur_kp = self.client_pubs.index(self.client_pub)
            for j in range(len(self.server_privs)):
                self.derive(self.cur_kp, j)
            return ("wp", svc, self.cur_kp)
        return ("wp", svc, -1)

    sid_sent = 0
    sid_active = None

    def on_write(self, data):
        w = self.decode_write(data)
        if self.call is not None:
            self.call.append(w)
        elif w[0] == "ww":
            self.trace.append(("aw", self.now()) + tuple(w[1:]))
        else:
            self.trace.append(("ap", self.now(), w[1], w[2]))

    def on_closed(self):
        # the peer side of transport.close(): asyncio calls protocol.connection_lost -> TCPTransport._connection_lost
        if self.session.transport is not None:
            self.do_stop(lost=True)

    # ---- inputs ------------------------------------------------------------------------------
    def probe(self):
        s = self.session
        self.trace.append(("st", self.now(), int(s.initialized), s._sequence_number_received, s._sequence_number))

    def do_conn(self):
        self.trace.append(("conn", self.now(), int(self.dap)))
        self.sessions.append({"resp": [], "wrap": []})

        async def run():
            try:
                await self.session.connect()
                self.trace.append(("cres", self.now(), "ok"))
            except Exception as e:  # noqa: BLE001
                self.trace.append(("cres", self.now(), _exc_kind(e)))
        self.connect_task = asyncio.create_task(run())

    def build(self, spec):
        """Frame spec -> (bytes, observation prefix)."""
        kind = spec["f"]
        nsess = len(self.sessions)
        rec = self.sessions[-1] if self.sessions else {"resp": [], "wrap": []}
        cur_key = self.adopted[0] if self.adopted else None
        if kind == "replay":
            # something the server sent in an EARLIER session of this object, octet for octet
            k = spec["sess"]
            pool = self.sessions[k][spec["kind"]] if 0 <= k < nsess - 1 else []
            if not pool:
                return None
            item = pool[spec["i"] % len(pool)]
            if spec["kind"] == "resp":
                raw = item
                sid, spub, mac = int.from_bytes(raw[6:8], "big"), raw[8:40], raw[40:56]
                ok = int(mac == R.session_response_mac(R.device_authentication_code(DEV_PW), sid,
                                                       self.client_pub or bytes(32), spub))
                srv = self.server_pubs.index(spub)
                if self.client_pub is not None:
                    self.key, self.key_ep = self.derive(self.cur_kp, srv), (self.cur_kp, srv)
                self.sid_sent = sid
                return raw, ("rxr", sid, ok, srv), k
            raw, ep, tok = item
            u = R.unwrap(cur_key or bytes(16), raw)
            return raw, ("rxw", u["session_id"], u["seq"], int(bool(cur_key) and u["mac_ok"]), tok, ep[0], ep[1]), k
        if kind == "resp":
            sid = spec["sid"]
            srv = spec.get("srv", 0) % len(self.server_privs)
            spub = self.server_pubs[srv]
            mac = R.session_response_mac(R.device_authentication_code(DEV_PW), sid, self.client_pub or bytes(32), spub)
            if not spec["mac"]:
                mac = bytes((mac[0] ^ 0x40,)) + mac[1:]
            self.sid_sent = sid
            if self.client_pub is not None:
                self.key, self.key_ep = self.derive(self.cur_kp, srv), (self.cur_kp, srv)
            raw = bytes.fromhex("061009520038") + sid.to_bytes(2, "big") + spub + mac
            rec["resp"].append(raw)
            return raw, ("rxr", sid, int(bool(spec["mac"])), srv), nsess - 1
        if kind == "plain":
            raw = FR[spec["svc"]]
            return raw, ("rxp", _svc_of(raw)), nsess - 1
        assert kind == "wrap"
        inner_name = spec["inner"]
        key = self.key or bytes(16)
        if inner_name == "nested":
            inner = R.wrap(key, self.sid_active or 0, bytes(6), SERVER_SERIAL, b"\x00\x00", FR["tunnel_ack"])
            tok = f"s{R.WRAPPER_SVC}"
        elif inner_name == "garbage":
            inner, tok = bytes.fromhex("ffee01020304050607"), "u"
        elif inner_name == "truncated":
            inner, tok = FR["tunnel_req"][:-3], "u"       # header announces more octets than there are
        elif inner_name == "unknown_svc":
            inner, tok = bytes.fromhex("06100aaa0008") + b"\x00\x00", "u"
        elif inner_name == "bad_version":
            inner, tok = bytes.fromhex("061204210a") + FR["tunnel_ack"][5:], "u"
        else:
            inner = FR[inner_name]
            tok = f"s{_svc_of(inner)}"
        good_key = spec.get("key", "ok") == "ok"
        use_key = key if good_key else bytes(x ^ 0x5A for x in key)
        ep = self.key_ep if good_key else (999998, 0)
        own = self.sid_active if self.sid_active is not None else self.sid_sent
        sid = own if spec["sid"] == "ok" else int(spec["sid"])
        seq = int(spec["seq"])
        raw = bytearray(R.wrap(use_key, sid, seq.to_bytes(6, "big"), SERVER_SERIAL, bytes.fromhex(spec.get("tag", "0000")), inner))
        t = spec.get("tamper")
        if t == "mac":
            raw[-1] ^= 0x01
        elif t == "data":
            raw[22] ^= 0x80
        elif t == "seq":          # claims a later sequence number than the one that was authenticated
            raw[8:14] = (min(seq + 1, MAX48)).to_bytes(6, "big") if seq < MAX48 else (seq - 1).to_bytes(6, "big")
        elif t == "sid":          # session id rewritten after the MAC was made
            raw[6:8] = ((sid + 1) % 65536).to_bytes(2, "big")
        elif t == "serial":
            raw[15] ^= 0xFF
        elif t == "tag":
            raw[21] ^= 0x01
        raw = bytes(raw)
        if t is None and good_key:
            rec["wrap"].append((raw, ep, tok))
        u = R.unwrap(cur_key or bytes(16), raw)     # the verdict under the session key the client currently holds
        return raw, ("rxw", u["session_id"], u["seq"], int(bool(cur_key) and u["mac_ok"]), tok, ep[0], ep[1]), nsess - 1

    def do_chunk(self, specs):
        built = [b for b in (self.build(s) for s in specs) if b is not None]
        if not built:
            return
        results = []
        # deliver one TCP chunk; learn per-frame outcomes through the catch-all callback
        pending = list(built)
        data = b"".join(b[0] for b in built)
        orig = SecureSession.handle_knxipframe
        world = self
        idx = [0]

        def spy(self_, frame, source):
            i = idx[0]
            idx[0] += 1
            world.fwd = None
            try:
                orig(self_, frame, source)
            except Exception as e:  # noqa: BLE001
                results.append((i, "x:" + _exc_kind(e)))
                raise
            results.append((i, "f" if world.fwd is not None else "d"))
        SecureSession.handle_knxipframe = spy
        try:
            try:
                self.session.data_received_callback(data)
            except Exception:  # noqa: BLE001
                pass
        finally:
            SecureSession.handle_knxipframe = orig
        for i, out in results:
            pre, born = built[i][1], built[i][2]
            # `@n`: the connect() during which the server built the frame (oracle only; stripped from the monitor line)
            self.trace.append((pre[0], self.now()) + tuple(pre[1:]) + (f"{out}@{born}",))
        del pending

    def do_send(self, name):
        raw = FR[name]
        frame, _ = KNXIPFrame.from_knx(raw)
        self.call = []
        try:
            self.session.send(frame)
            out = None
        except Exception as e:  # noqa: BLE001
            out = "e:" + _exc_kind(e)
        writes, self.call = self.call, None
        self.trace.append(("snd", self.now(), _svc_of(raw), _aux_of(raw), self._outcome(writes, out, _svc_of(raw), _aux_of(raw))))

    def _outcome(self, writes, exc, svc, aux):
        if exc is not None:
            return exc if not writes else "bad:write+exc"
        if len(writes) != 1:
            return f"bad:{len(writes)}writes"
        w = writes[0]
        if w[0] == "wp":
            return "p" if w[1] == svc else "bad:plain-other"
        if w[2] != svc or w[3] != aux or not w[4] or w[5] != self.sid_active:
            return "bad:wrapper"
        return f"w{w[1]}:{w[6]}:{w[7]}"

    def do_stop(self, lost=False):
        self.call = []
        try:
            if lost:
                self.session._connection_lost()
            else:
                self.session.stop()
            out = None
        except Exception as e:  # noqa: BLE001
            out = "e:" + _exc_kind(e)
        writes, self.call = self.call, None
        if not writes and out is None:
            o = "n"
        else:
            o = self._outcome(writes, out, SVC.SESSION_STATUS.value, SecureSessionStatusCode.STATUS_CLOSE.value)
        self.trace.append(("stop", self.now(), o))


async def _main(loop, case):
    w = _World(loop, case.get("seed", 0), bool(case.get("dap", 1)))
    for step in case["steps"]:
        k = step["k"]
        if k == "conn":
            if w.connect_task is not None and not w.connect_task.done():
                continue
            w.do_conn()
        elif k == "chunk":
            w.do_chunk(step["frames"])
        elif k == "snd":
            w.do_send(step["svc"])
        elif k == "stop":
            if w.connect_task is not None and not w.connect_task.done():
                # schedule restriction (see notes/C29.md): stop() racing a pending connect() is not generated;
                # the pending connect is cancelled first, as the tunnel's own teardown does
                w.connect_task.cancel()
                await asyncio.gather(w.connect_task, return_exceptions=True)
                w.trace.append(("cres", w.now(), "cancelled"))
            w.do_stop()
        elif k == "poke":
            if not w.session.initialized:
                # the counter can only get near 2^48 by sending wrappers; poking it before the handshake (connect()
                # resets it) would make the SessionAuthenticate itself fail - an artefact, not a reachable history
                continue
            w.session._sequence_number = int(step["v"])
            w.trace.append(("poke", w.now(), int(step["v"])))
        elif k == "sleep":
            await asyncio.sleep(step["ms"] / 1000.0)
        await loop.settle()
        w.probe()
    # quiesce: cancel what is left
    if w.connect_task is not None and not w.connect_task.done():
        w.connect_task.cancel()
    w.session.stop_keepalive_task()
    return w.trace


def _fmt(trace):
    return ";".join(",".join(str(x) for x in o) for o in trace)


def run_impl(case):
    try:
        trace = vloop.run(lambda loop: _main(loop, case), start=1000.0)
    finally:
        TCPTransport.connect = _real_connect
        ip_secure.generate_ecdh_key_pair = _real_gen
    out = _fmt(trace)
    import re
    return {"out": out, "line": "c29 monitor " + re.sub(r"@-?\d+", "", out), "expect": "accept"}


# --------------------------------------------------------------------------------------------------
# oracle: the property restated on the trace (independent of the Lean monitor)
# --------------------------------------------------------------------------------------------------

FORBIDDEN = {0x0950, 0x0740, 0x0741, 0x0742, 0x0743}   # nested wrapper, remote diagnosis / configuration (spec)


def _parse(out):
    tr = []
    for tok in out.split(";"):
        if tok:
            tr.append(tok.split(","))
    return tr


def _res(tok):
    """'f@2' -> ('f', 2)"""
    r, _, born = tok.partition("@")
    return r, (int(born) if born else None)


def oracle(case, out):
    tr = _parse(out)
    init = False            # handshake completed (SessionResponse accepted and SessionAuthenticate sent)
    responded = None        # (sid) of the SessionResponse forwarded to the pending connect
    responded_mac = True
    dap = bool(case.get("dap", 1))
    connecting = False
    sid = None
    last_fwd = -1
    next_seq = 0
    nconn = 0               # number of connect() calls so far: frames born in connect n belong to session n
    seen_kp = set()         # key pairs announced in SessionRequests
    written = set()         # (key epoch, sequence number) of wrappers written
    poked = False
    for o in tr:
        k = o[0]
        if k == "conn":
            connecting, responded, last_fwd, next_seq = True, None, -1, 0
            nconn += 1
        elif k == "rxr":
            res, born = _res(o[-1])
            if res == "f":
                if init:
                    return "plain SessionResponse accepted after the session was authenticated"
                if connecting:
                    responded = int(o[2])
                    responded_mac = o[3] == "1"
            elif res != "d":
                return f"plain SessionResponse: outcome {res}"
        elif k == "rxp":
            if _res(o[-1])[0] == "f":
                return f"plain frame of service 0x{int(o[2]):04x} was passed on"
        elif k == "rxw":
            _, _t, fsid, seq, mac, inner, _ek, _es, res = o
            res, born = _res(res)
            seq = int(seq)
            if res == "f":
                why = []
                if not init:
                    why.append("before the handshake")
                if born is not None and born != nconn - 1:
                    why.append(f"it was wrapped for session #{born + 1} of this object and arrived in session #{nconn}")
                if mac != "1":
                    why.append("MAC does not verify")
                if sid is None or int(fsid) != sid:
                    why.append(f"session id {fsid} is not ours ({sid})")
                if seq <= last_fwd:
                    why.append(f"sequence number {seq} not above the last accepted {last_fwd}")
                if not inner.startswith("s"):
                    why.append("inner frame unparsable")
                elif int(inner[1:]) in FORBIDDEN:
                    why.append(f"inner service 0x{int(inner[1:]):04x} is a nested wrapper / remote-diagnosis service")
                if why:
                    return "wrapped frame passed on although " + ", ".join(why)
                last_fwd = seq
        elif k in ("ap",):
            if init or int(o[2]) != SVC.SESSION_REQUEST.value:
                return f"plain frame of service 0x{int(o[2]):04x} written" + (" after the handshake" if init else "")
            if o[3] in seen_kp:
                return ("the SessionRequest of this connect() carries the same public key as an earlier one: no fresh key "
                        "agreement, the session key of the earlier session is derived again")
            seen_kp.add(o[3])
        elif k == "aw":
            _, _t, seq, svc, aux, ok, wsid, ek, es = o
            if not init:
                if responded is None or int(svc) != SVC.SESSION_AUTHENTICATE.value:
                    return "wrapped frame written before a SessionResponse was accepted"
                if dap and not responded_mac:
                    return "handshake completed on a SessionResponse whose MAC does not verify (device authentication configured)"
                init, sid, connecting = True, responded, False
            if int(wsid) != sid:
                return f"wrapper written for session id {wsid}, the session id is {sid}"
            if ok != "1" or int(seq) != next_seq:
                return f"wrapper written with sequence number {seq} (valid={ok}), expected {next_seq}"
            if not poked and (ek, es, seq) in written:
                return f"outgoing wrapper repeats a (session key, sequence number) pair: key epoch ({ek},{es}), number {seq}"
            written.add((ek, es, seq))
            next_seq += 1
        elif k in ("snd", "stop"):
            res = o[-1]
            if res.startswith("bad"):
                return f"{k}: {res}"
            if res == "p":
                if init or int(o[2]) != SVC.SESSION_REQUEST.value:
                    return f"plain frame of service 0x{int(o[2]):04x} written" + (" after the handshake" if init else "")
            elif res.startswith("w"):
                wseq, ek, es = res[1:].split(":")
                if not init:
                    return "wrapped frame written before the handshake"
                if int(wseq) != next_seq or next_seq > MAX48:
                    return f"wrapper written with sequence number {wseq}, expected {next_seq}"
                if not poked and (ek, es, wseq) in written:
                    return f"outgoing wrapper repeats a (session key, sequence number) pair: key epoch ({ek},{es}), number {wseq}"
                written.add((ek, es, wseq))
                next_seq += 1
            elif res.startswith("e:") and init and k == "snd" and next_seq <= MAX48 and res != "e:ipsec":
                return f"send after the handshake failed with {res}"
            elif res.startswith("e:other"):
                return f"{k} raised {res}"
            if k == "stop" and not res.startswith("e:"):
                init, connecting = False, False
        elif k == "poke":
            next_seq = int(o[2])
            poked = True
        elif k == "cres":
            if o[2] != "ok" and not init:
                connecting = False
        elif k == "st":
            if int(o[3]) != last_fwd:
                return f"receive counter is {o[3]} but the last accepted sequence number is {last_fwd}"
    return None


def nontrivial(case, out):
    tr = _parse(out)
    f = any(o[0] == "rxw" and o[-1].startswith("f") for o in tr)
    d = any(o[0] == "rxw" and o[-1].startswith("d") for o in tr)
    return f and d


def outcome_class(out):
    tr = _parse(out)
    f = sum(1 for o in tr if o[0] == "rxw" and o[-1].startswith("f"))
    d = sum(1 for o in tr if o[0] == "rxw" and not o[-1].startswith("f"))
    n = sum(1 for o in tr if o[0] == "aw" and o[3] == str(SVC.SESSION_AUTHENTICATE.value))
    return f"fwd{min(f, 3)}-drop{min(d, 3)}-sessions{min(n, 3)}"


def finding_key(case, msg):
    return "steps " + _short(case)


def _short(case):
    import json
    return json.dumps(case["steps"], separators=(",", ":"))[:400]


def shrink(case, msg):
    steps = list(case["steps"])
    kind = " ".join(msg.split()[:4])

    def fails(st):
        c = dict(case, steps=st)
        try:
            m = oracle(c, run_impl(c)["out"])
            return m is not None and " ".join(m.split()[:4]) == kind
        except Exception:  # noqa: BLE001
            return False
    changed = True
    while changed and len(steps) > 1:
        changed = False
        for i in range(len(steps)):
            cand = steps[:i] + steps[i + 1:]
            if fails(cand):
                steps, changed = cand, True
                break
    return dict(case, steps=steps, shrunk_from=len(case["steps"]))


# --------------------------------------------------------------------------------------------------
# generator
# --------------------------------------------------------------------------------------------------

def _wrap_spec(rng, st, genuine_p=0.45):
    """A received wrapper; `st` tracks the server's counter so that most frames are genuine and in order."""
    r = rng.random()
    spec = {"f": "wrap", "sid": "ok", "inner": rng.choice(INNER_OK)}
    if r < genuine_p:
        st["seq"] = min(st["seq"] + rng.choice([1, 1, 1, 2, 7]), MAX48)
        spec["seq"] = st["seq"]
        if rng.random() < 0.08:
            spec["inner"] = rng.choice(["status_5", "status_3", "status_2", "status_1"])
        return spec
    kind = rng.choice(["replay", "old", "equal", "future", "max", "forgemac", "forgedata", "forgeseq", "wrongkey", "wrongsid",
                       "wrongsid_mac", "tamper_sid", "nested", "forbidden", "unparsable", "tag", "serial", "seq0"])
    nxt = min(st["seq"] + 1, MAX48)
    spec["seq"] = nxt
    if kind == "replay":
        spec["seq"] = max(0, st["seq"])
    elif kind == "old":
        spec["seq"] = rng.randrange(0, max(1, st["seq"] + 1))
    elif kind == "equal":
        spec["seq"] = max(0, st["seq"])
    elif kind == "future":
        st["seq"] += rng.choice([1000, 1 << 20, 1 << 40])
        st["seq"] = min(st["seq"], MAX48 - 2)
        spec["seq"] = st["seq"]
    elif kind == "max":
        spec["seq"] = rng.choice([MAX48, MAX48 - 1])
        st["seq"] = spec["seq"]
    elif kind == "forgemac":
        spec["tamper"] = "mac"
    elif kind == "forgedata":
        spec["tamper"] = "data"
    elif kind == "forgeseq":
        spec["tamper"] = "seq"
    elif kind == "wrongkey":
        spec["key"] = "bad"
    elif kind == "wrongsid":
        spec["sid"] = rng.choice([0, 65535, 77])
        spec["key"] = "bad"
    elif kind == "wrongsid_mac":
        spec["sid"] = rng.choice([0, 65535, 77])      # MAC valid for that other id (same key)
    elif kind == "tamper_sid":
        spec["tamper"] = "sid"
    elif kind == "nested":
        spec["inner"] = "nested"
    elif kind == "forbidden":
        spec["inner"] = rng.choice(INNER_FORBIDDEN)
    elif kind == "unparsable":
        spec["inner"] = rng.choice(INNER_UNPARSABLE)
    elif kind == "tag":
        spec["tamper"] = "tag"
    elif kind == "serial":
        spec["tamper"] = "serial"
    elif kind == "seq0":
        spec["seq"] = 0
    # frames that should be accepted move the server's counter
    if kind in ("nested", "forbidden", "unparsable") or "tamper" in spec or spec.get("key") == "bad" or spec["sid"] != "ok":
        pass
    elif spec["seq"] > st["seq"]:
        st["seq"] = spec["seq"]
    return spec


def _gen_case(rng, big):
    dap = rng.random() < 0.7
    sid = rng.choice([1, 1, 2, 255, 256, 65535, 0, rng.randrange(65536)])
    steps = []
    st = {"seq": -1}
    budget = rng.randrange(5, 41 if big else 25)
    nsess = [0]

    def noise(n):
        fr = []
        for _ in range(n):
            r = rng.random()
            if r < 0.35:
                fr.append({"f": "plain", "svc": rng.choice(PLAIN_NAMES)})
            elif r < 0.45:
                fr.append({"f": "resp", "sid": rng.choice([sid, sid, 9]), "mac": rng.choice([1, 1, 0])})
            else:
                fr.append(_wrap_spec(rng, st))
        return fr

    # before connect
    if rng.random() < 0.3:
        steps.append({"k": "chunk", "frames": noise(rng.randrange(1, 4))})
    if rng.random() < 0.2:
        steps.append({"k": "snd", "svc": rng.choice(SEND_NAMES)})
    steps.append({"k": "conn"})
    # between SessionRequest and SessionResponse
    if rng.random() < 0.35:
        steps.append({"k": "chunk", "frames": noise(rng.randrange(1, 3))})
    if rng.random() < 0.2:
        steps.append({"k": "snd", "svc": rng.choice(SEND_NAMES)})
    mode = rng.random()
    if mode < 0.08:
        steps.append({"k": "sleep", "ms": 1100})          # no answer: connect times out
    else:
        macok = 0 if mode < 0.2 else 1
        resp = {"f": "resp", "sid": sid, "mac": macok}
        st["seq"] = -1
        # frames in the same TCP chunk as the SessionResponse are handled before the handshake continues
        same = noise(rng.randrange(0, 3)) if rng.random() < 0.4 else []
        steps.append({"k": "chunk", "frames": [resp] + same})
        st["seq"] = -1 if any(f["f"] == "wrap" for f in same) else st["seq"]
        # authentication answer
        a = rng.random()
        if a < 0.8:
            steps.append({"k": "chunk", "frames": [_auth_status(st, 0)]})
        elif a < 0.9:
            steps.append({"k": "chunk", "frames": [_auth_status(st, 1)]})
        else:
            steps.append({"k": "sleep", "ms": 10100})
    # after the handshake
    n = 0
    while n < budget:
        r = rng.random()
        if r < 0.5:
            c = rng.randrange(1, 5)
            steps.append({"k": "chunk", "frames": noise(c)})
            n += c
        elif r < 0.75:
            steps.append({"k": "snd", "svc": rng.choice(SEND_NAMES)})
            n += 1
        elif r < 0.83:
            steps.append({"k": "sleep", "ms": rng.choice([KEEPALIVE_MS, KEEPALIVE_MS - 1, KEEPALIVE_MS + 1, 2 * KEEPALIVE_MS, 1000, 49000])})
            n += 1
        elif r < 0.90:
            steps.append({"k": "poke", "v": rng.choice([MAX48 - 1, MAX48, MAX48 + 1, MAX48 - 2, 255, 65536])})
            n += 1
        elif r < 0.96:
            steps.append({"k": "stop"})
            n += 1
            if rng.random() < 0.75:
                nsess[0] += 1
                n += _next_session(rng, steps, st, sid, nsess[0])
        else:
            steps.append({"k": "chunk", "frames": [dict(_wrap_spec(rng, st, 1.0), inner=rng.choice(["status_5", "status_3", "status_2"]))]})
            n += 1
    return {"seed": rng.randrange(200), "dap": int(dap), "steps": steps}


def _next_session(rng, steps, st, sid, k):
    """A further session on the same object (auto-reconnect): the peer answers afresh - or plays back what the server
    sent in an earlier session (SessionResponse and wrapped frames, octet for octet)."""
    steps.append({"k": "conn"})
    st["seq"] = -1
    prev = rng.randrange(k)
    mode = rng.random()
    if mode < 0.5:
        # recorded SessionResponse, then the recorded wrapped traffic in its original order
        steps.append({"k": "chunk", "frames": [{"f": "replay", "sess": prev, "kind": "resp", "i": 0}]})
        cnt = rng.randrange(1, 6)
        i0 = 0 if rng.random() < 0.7 else rng.randrange(4)
        for j in range(cnt):
            steps.append({"k": "chunk", "frames": [{"f": "replay", "sess": prev, "kind": "wrap", "i": i0 + j}]})
        return cnt + 1
    # genuine new session (same or another server key), recorded frames mixed in
    steps.append({"k": "chunk", "frames": [{"f": "resp", "sid": sid, "mac": 1, "srv": rng.choice([0, 0, 1, 2])}]})
    steps.append({"k": "chunk", "frames": [_auth_status(st, 0)]})
    cnt = rng.randrange(0, 4)
    for j in range(cnt):
        steps.append({"k": "chunk", "frames": [{"f": "replay", "sess": prev, "kind": rng.choice(["wrap", "wrap", "resp"]), "i": rng.randrange(6)}]})
    return cnt + 2


def _auth_status(st, code):
    st["seq"] = min(st["seq"] + 1, MAX48)
    return {"f": "wrap", "sid": "ok", "seq": st["seq"], "inner": f"status_{code}"}


def generate(rng, tier):
    n = 400 if tier == "quick" else 8000
    for _ in range(n):
        yield _gen_case(rng, tier != "quick" or rng.random() < 0.3)
