"""C07 Datapoint decoding is total with declared errors only.

One case = one DPT class x one block of payloads; the outcome is the run-length
encoded list of outcome classes (ok / parse / conv / other:<Exception>), which the
Lean model (`XknxVerif.DPT.handle`) must reproduce exactly.  `sdd` cases push the
same payloads through the real `GroupAddressDPT.set_decoded_data`.
"""
from harness import dptlib as D
from xknx.core.group_address_dpt import GroupAddressDPT
from xknx.telegram import Telegram
from xknx.telegram.address import GroupAddress
from xknx.telegram.apci import GroupValueResponse, GroupValueWrite

PROPERTY = "C07"
MODULES = ["XknxVerif.Props.C07"]
DRIVE_PROCS = 8
CASE_TIMEOUT = 20.0
RULE = ("every concrete DPT class (DPTBase.dpt_class_tree) x {all 64 DPTBinary values, the empty array, all 256 one-octet arrays, "
        "two-octet arrays (all 65536 for classes with a 2-octet payload in both tiers and for every class in the thorough tier; "
        "boundaries + 3072 random otherwise), for the class's own length L>=3 every octet value in every position over two base "
        "patterns + random payloads, wrong lengths 3..16/20/255} through Transcoder.from_knx and through "
        "GroupAddressDPT.set_decoded_data; one case = one class x one payload block, outcome = RLE of outcome classes; "
        "non-trivial = blocks in which at least one payload passes validate_payload")
TRUSTED = ["model XknxVerif.Model.DPT.* is hand-written, parameterised by the regenerated table Generated/DPTTable.lean; "
           "that Python raises nothing but the two declared errors is established by this enumeration, not by the proof"]
EXHAUSTIVE_THOROUGH = True

_stats = {"payloads": 0, "classes": set(), "unmodelled": []}


def _blocks(prefix, ln, total, step):
    for lo in range(0, total, step):
        yield f"{prefix}{ln}:{lo}-{min(total, lo + step) - 1}"


def _rand_hex(rng, ln, n):
    return ["".join(f"{rng.randrange(256):02x}" for _ in range(ln)) or "-" for _ in range(n)]


def _position_sweep(rng, ln):
    """every octet value in every position over two base patterns"""
    out = []
    for base in (bytes(ln), bytes(rng.randrange(256) for _ in range(ln))):
        for pos in range(ln):
            for v in range(256):
                b = bytearray(base)
                b[pos] = v
                out.append(b.hex())
    return out


def _chunks(lst, n):
    for i in range(0, len(lst), n):
        yield lst[i:i + n]


def payload_specs(cls, rng, tier, two_octet_full=None, block=8192, light_wrong=False):
    """Shared by C07/C08/C10: payload block specs for one class."""
    L, k = cls.payload_length, D.kind(cls)
    yield "b0-63"
    yield "a0:0-0"
    yield "a1:0-255"
    full2 = (k == "a" and L == 2) or tier == "thorough" if two_octet_full is None else two_octet_full
    if full2:
        yield from _blocks("a", 2, 65536, block)
    else:
        edge = ["0000", "0001", "00ff", "0100", "7fff", "8000", "ff00", "fffe", "ffff"]
        yield "x" + ",".join(edge + _rand_hex(rng, 2, 16 if light_wrong else 3072))
    if k == "a" and L >= 3:
        for ch in _chunks(_position_sweep(rng, L), 2048):
            yield "x" + ",".join(ch)
        n = 20000 if tier == "thorough" else 3000
        for ch in _chunks(_rand_hex(rng, L, n), 2000):
            yield "x" + ",".join(ch)
    wrong = [ln for ln in list(range(3, 17)) + [20, 255] if not (k == "a" and ln == L)]
    yield "x" + ",".join(h for ln in wrong for h in _rand_hex(rng, ln, 3))


def generate(rng, tier):
    for cls in D.CLASSES:
        name = cls.__name__
        for spec in payload_specs(cls, rng, tier):
            yield {"op": f"dpt dec {name} {spec}"}
        # the consumer-side entry point
        L, k = cls.payload_length, D.kind(cls)
        yield {"op": f"dpt sdd {name} b0-63"}
        yield {"op": f"dpt sdd {name} a1:0-255"}
        if k == "a":
            yield {"op": f"dpt sdd {name} x" + ",".join(_rand_hex(rng, L, 64) + _rand_hex(rng, L + 1, 4) + _rand_hex(rng, max(L - 1, 0), 4))}


class _SDD:
    ga = GroupAddress(1)
    tables = {}

    @classmethod
    def table(cls, dpt):
        t = cls.tables.get(dpt)
        if t is None:
            t = GroupAddressDPT()
            t._ga_dpts[cls.ga.raw] = dpt  # GroupAddressDPT.set() resolves by number/name; classes without a distinct number are reached directly
            t._ga_dpts[cls.other.raw] = D.BY_NAME["DPT2ByteFloat"]
            cls.tables[dpt] = t
        return t

    other = GroupAddress(2)

    @classmethod
    def disturb(cls, table):
        """History: ANOTHER address of the same table has just received an undecodable payload (a declared, logged error that
        leaves per-table state behind); decoding for the address under test must not depend on it."""
        from xknx.dpt import DPTArray
        tg = Telegram(destination_address=cls.other, payload=GroupValueWrite(DPTArray((1, 2, 3))))
        table.set_decoded_data(tg)


def run_impl(case):
    _, op, name, spec = case["op"].split(" ")
    cls = D.BY_NAME[name]
    outs, first_other = [], None
    n = 0
    if op == "dec":
        for k, data in D.expand(spec):
            n += 1
            st, _ = D.decode(cls, D.mk_payload(k, data))
            outs.append(st)
            if st.startswith("other:") and first_other is None:
                first_other = D.spec_single(k, data)
    else:
        table = _SDD.table(cls)
        import logging
        logging.getLogger("xknx.ga_dpt").disabled = True
        for i, (k, data) in enumerate(D.expand(spec)):
            n += 1
            if i % 3 == 0:
                try:
                    _SDD.disturb(table)
                except Exception:  # noqa: BLE001  judged on the address under test below
                    pass
            svc = (GroupValueWrite if i % 2 == 0 else GroupValueResponse)(D.mk_payload(k, data))
            tg = Telegram(destination_address=_SDD.ga, payload=svc)
            try:
                table.set_decoded_data(tg)
                st = "set" if tg.decoded_data is not None else "unset"
                if st == "set" and tg.decoded_data.transcoder is not cls:
                    st = "other:wrong-transcoder"
            except Exception as e:  # noqa: BLE001
                st = D.exc_class(e)
                st = st if st.startswith("other:") else "other:escaped-" + st
            outs.append(st)
            if st.startswith("other:") and first_other is None:
                first_other = D.spec_single(k, data)
    _stats["payloads"] += n
    _stats["classes"].add(name)
    r = D.rle(outs)
    return {"out": r + (f" !{first_other}" if first_other else ""), "expect": r}


def oracle(case, out):
    _, op, name, spec = case["op"].split(" ")
    if "other:" in out:
        rle, _, first = out.partition(" !")
        bad = [t for t in rle.split(",") if t.startswith("other:")][0]
        what = "from_knx" if op == "dec" else "set_decoded_data"
        return f"{name}.{what}: payload {first} -> {bad.split('*')[0]} (neither a value nor a parse/conversion error)"
    return None


def nontrivial(case, out):
    return "ok" in out or "conv" in out or "set" in out.replace("unset", "")


def shrink(case, msg):
    res = run_impl(case)
    if " !" in res["out"]:
        first = res["out"].split(" !")[1]
        parts = case["op"].split(" ")
        return {"op": " ".join(parts[:3] + [first])}
    return case


def finding_key(case, msg):
    parts = case["op"].split(" ")
    return f"{parts[1]} {parts[2]}"


def outcome_class(out):
    return ",".join(sorted({t.split("*")[0] for t in out.split(" !")[0].split(",")}))[:60]


def evidence_extra():
    unm = sorted({f"{c.__name__}:{D.FAM[c.__name__]}" for c in D.CLASSES if D.FAM[c.__name__].startswith("unmodelled")})
    return {"payload_evaluations": _stats["payloads"], "classes_covered": len(_stats["classes"]),
            "classes_total": len(D.CLASSES), "unmodelled_classes": unm}
