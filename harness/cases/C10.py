"""C10 Complex and enum datapoint values round-trip through their JSON form.

One case = one DPTComplex/DPTEnum class x one block of payloads.  Per accepted payload:
v = from_knx(p); form = v.as_dict() (complex) | v.name.lower() (enum);
form' = json.loads(json.dumps(form)); p' = to_knx(form'); v' = from_knx(p').
The Lean model must reproduce v, form' (and p', v' when they differ) exactly.
"""
import json

from harness import dptlib as D
from harness.cases.C07 import payload_specs
from xknx.dpt.dpt import DPTEnum

PROPERTY = "C10"
MODULES = ["XknxVerif.Props.C10"]
DRIVE_PROCS = 8
CASE_TIMEOUT = 20.0
RULE = ("every DPTComplex / DPTEnum class x {all 64 DPTBinary values, all 256 one-octet arrays, for 3..8-octet classes every octet "
        "value in every position over two base patterns + 3000 (quick) / 20000 (thorough) random payloads, for DPT 19 additionally every "
        "combination of the ten status bits x field boundaries, a few wrong-length payloads}; the dict / name form goes through a real "
        "json.dumps(allow_nan=False)/json.loads cycle before to_knx; non-trivial = blocks with at least one accepted payload")
TRUSTED = ["model XknxVerif.Model.DPT.* (asDict/fromDict over a small JSON value type) is hand-written and parameterised by "
           "Generated/DPTTable.lean; the model takes json.loads(json.dumps(x)) == x for JSON-native x as given (checked on the "
           "implementation side of every case)"]

_stats = {"payloads": 0, "accepted": 0, "classes": set()}
JSON_CLASSES = [c for c in D.CLASSES if D.is_json_kind(c)]


def _dt19_flag_sweep():
    """all 2^10 status-bit combinations of DPT 19 x boundary field values"""
    out = []
    fields = [(0, 1, 1, 0, 0, 0), (255, 12, 31, 0xF8 & 0xE0 | 23, 59, 59), (100, 6, 15, (7 << 5) | 24, 0, 0),
              (100, 0, 0, 0, 0, 0), (126, 12, 31, (3 << 5) | 24, 0, 1)]
    for f in fields:
        for s6 in range(256):
            for s7 in (0x00, 0x40, 0x80, 0xC0):
                out.append(bytes((*f, s6, s7)).hex())
    return out


def generate(rng, tier):
    for cls in JSON_CLASSES:
        name = cls.__name__
        for spec in payload_specs(cls, rng, tier, two_octet_full=False, block=512, light_wrong=True):
            yield {"op": f"dpt json {name} {spec}"}
        if name == "DPTDateTime":
            sw = _dt19_flag_sweep()
            for i in range(0, len(sw), 1024):
                yield {"op": f"dpt json {name} x" + ",".join(sw[i:i + 1024])}


def json_form(cls, v):
    if issubclass(cls, DPTEnum):
        return v.name.lower()
    return v.as_dict()


def native(x):
    """JSON-native: None/bool/int/float/str, lists and str-keyed dicts thereof."""
    if x is None or type(x) in (bool, int, float, str):
        return True
    if type(x) is list:
        return all(native(i) for i in x)
    if type(x) is dict:
        return all(type(k) is str and native(i) for k, i in x.items())
    return False


def roundtrip(cls, k, data):
    p = D.mk_payload(k, data)
    st, v = D.decode(cls, p)
    if st != "ok":
        return ("r" if st in ("parse", "conv") else st), None
    cv = D.canon(v)
    try:
        form = json_form(cls, v)
    except Exception as e:  # noqa: BLE001
        return f"{cv}>form-{type(e).__name__}", f"decoded value {v!r}: building the dict/name form raised {type(e).__name__}"
    try:
        text = json.dumps(form, allow_nan=False)
        form2 = json.loads(text)
    except Exception as e:  # noqa: BLE001
        return f"{cv}>json-{type(e).__name__}", f"decoded value {v!r}: form {form!r} is not JSON serializable ({type(e).__name__})"
    cf = D.canon(form2)
    if not native(form) or form2 != form or D.canon(form) != cf:
        return f"{cv}>{cf}>not-native", f"decoded value {v!r}: form {form!r} is not JSON-native (comes back as {form2!r})"
    st2, p2 = D.encode(cls, form2)
    if st2 != "ok":
        return f"{cv}>{cf}>{st2}", f"decoded value {v!r}: JSON form {text} is refused by to_knx ({st2})"
    cp2 = D.payload_canon(p2)
    st3, v2 = D.decode(cls, p2)
    if st3 != "ok":
        return f"{cv}>{cf}>{cp2}>{st3}", f"JSON form {text} encodes to {cp2} which from_knx refuses ({st3})"
    cv2 = D.canon(v2)
    tok = f"{cv}>{cf}" if (cp2 == D.payload_canon(p) and cv2 == cv) else f"{cv}>{cf}>{cp2}>{cv2}"
    if not D.same_value(v, v2):
        return tok, f"decodes to {v!r}; JSON form {text} encodes to {cp2}, which decodes to {v2!r}"
    return tok, None


def run_impl(case):
    _, _op, name, spec = case["op"].split(" ")
    cls = D.BY_NAME[name]
    toks, first = [], None
    for k, data in D.expand(spec):
        tok, bad = roundtrip(cls, k, data)
        toks.append(tok)
        if tok != "r":
            _stats["accepted"] += 1
        if (bad or tok.startswith("other:")) and first is None:
            first = (D.spec_single(k, data), bad or f"from_knx raised {tok}")
    _stats["payloads"] += len(toks)
    _stats["classes"].add(name)
    r = D.rle(toks)
    if first:
        return {"out": f"{r} !{first[0]} !{first[1]}", "expect": r}
    return {"out": r, "expect": r}


def oracle(case, out):
    if " !" in out:
        _, first, why = out.split(" !", 2)
        name = case["op"].split(" ")[2]
        return f"{name}: payload {first} {why}"
    return None


def nontrivial(case, out):
    return not all(t.startswith("r*") for t in out.split(" !")[0].split(","))


def shrink(case, msg):
    res = run_impl(case)
    if " !" in res["out"]:
        first = res["out"].split(" !")[1]
        parts = case["op"].split(" ")
        return {"op": " ".join(parts[:3] + [first])}
    return case


def finding_key(case, msg):
    parts = case["op"].split(" ")
    return f"{parts[1]} {parts[2]}"


def outcome_class(out):
    if " !" in out:
        return "violation"
    return "all-rejected" if all(t.startswith("r*") for t in out.split(",")) else "accepted"


def evidence_extra():
    unm = sorted({f"{c.__name__}:{D.FAM[c.__name__]}" for c in JSON_CLASSES if D.FAM[c.__name__].startswith("unmodelled")})
    return {"payload_evaluations": _stats["payloads"], "payloads_accepted_and_round_tripped": _stats["accepted"],
            "classes_covered": len(_stats["classes"]), "classes_total": len(JSON_CLASSES), "unmodelled_classes": unm}
