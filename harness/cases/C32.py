"""C32 Device management requests get only their own answer (mode R on the virtual-time loop, closed-loop scripted server).

A case scripts the callers and the server:

    calls   [[t, k, kind, obj, inst, pid], ...]      caller k starts read_property ("r") / write_property ("w") at tick t
    srv     [[[delay, action], ...], ...]            reaction of the server to the n-th DeviceConfigurationRequest
                                                     transmission it sees (missing entries: acknowledge + matching answer)
    ev      [[t, action], ...]                       things the server does on its own at tick t

actions:  A ack ok | E ack with error status | W ack for another channel | S<d> ack with sequence +d (only with
          VERIF_C32_STALE_ACK=1) | M matching answer | F matching answer carrying an error code | P other property id |
          I other instance | O other object type | T answer of the other type | N indication for the same property |
          X a request-coded frame | G unparsable cEMI | R repeat the last server frame (same server sequence) |
          K skip one server sequence number | Cd server DisconnectRequest | Cl TCP connection lost | Cu user disconnect()
Ticks are 2**-20 s.  Before every injected event the harness sleeps to its instant and lets the loop settle, so timers
that are due at the same instant fire first; after it the loop settles again.  The trace handed to the Lean model is
the open-loop list of inputs; the model (a deterministic discrete-event simulation) must predict every output with
its instant.
"""
from __future__ import annotations

import asyncio
import heapq
import logging
import os

from harness import vloop

from xknx.cemi import (
    CEMIFrame,
    CEMIMessageCode,
    CEMIMPropInfo,
    CEMIMPropReadRequest,
    CEMIMPropReadResponse,
    CEMIMPropWriteResponse,
)
from xknx.exceptions import CommunicationError
from xknx.io import const as io_const
from xknx.io.device_management_connection import (
    TCPDeviceManagementConnection,
    UDPDeviceManagementConnection,
)
from xknx.io.transport import TCPTransport, UDPTransport
from xknx.knxip import (
    HPAI,
    ConnectionStateRequest,
    ConnectionStateResponse,
    ConnectRequest,
    ConnectResponse,
    DeviceConfigurationAck,
    DeviceConfigurationRequest,
    DisconnectRequest,
    DisconnectResponse,
    ErrorCode,
    KNXIPFrame,
)
from xknx.profile.const import ResourceObjectType

PROPERTY = "C32"
CASE_TIMEOUT = 10.0
TICK = 2.0 ** -20
TMO = round(io_const.DEVICE_CONFIGURATION_REQUEST_TIMEOUT / TICK)
REPS = io_const.DEVICE_CONFIGURATION_REQUEST_REPETITIONS
CHANNEL = 23
REMOTE = ("192.168.1.2", 3671)
LOCAL = ("192.168.1.1", 12345)
OBJ = {0: ResourceObjectType.OBJECT_DEVICE, 11: ResourceObjectType.OBJECT_KNXNETIP_PARAMETER}
STALE = os.environ.get("VERIF_C32_STALE_ACK") == "1"

_rec = None


class FakeSock:
    def sendto(self, data, addr=None):
        _rec.sent(data)

    def write(self, data):
        _rec.sent(data)

    def close(self):
        pass

    def get_extra_info(self, *_a):
        return REMOTE


class UDPStub(UDPTransport):
    async def connect(self):
        self.transport = FakeSock()

    def getsockname(self):
        return LOCAL


class TCPStub(TCPTransport):
    async def connect(self):
        self.transport = FakeSock()


class UDPConn(UDPDeviceManagementConnection):
    def _init_transport(self):
        self.transport = UDPStub(local_addr=LOCAL, remote_addr=REMOTE, multicast=False)


class TCPConn(TCPDeviceManagementConnection):
    def _init_transport(self):
        self.transport = TCPStub(remote_addr=REMOTE, connection_lost_cb=self._transport_connection_lost)


def cemi_desc(raw):
    try:
        c = CEMIFrame.from_knx(raw)
    except Exception:  # noqa: BLE001
        return "gb:0:0:0"
    code = {CEMIMessageCode.M_PROP_READ_REQ: "rq", CEMIMessageCode.M_PROP_WRITE_REQ: "wq",
            CEMIMessageCode.M_PROP_READ_CON: "rc", CEMIMessageCode.M_PROP_WRITE_CON: "wc",
            CEMIMessageCode.M_PROP_INFO_IND: "in"}.get(c.code, "ot")
    pi = getattr(c.data, "property_info", None)
    if pi is None:
        return f"{code}:0:0:0"
    return f"{code}:{int(pi.object_type)}:{pi.object_instance}:{int(pi.property_id)}"


class Rec:
    def __init__(self, loop, case):
        self.loop, self.case = loop, case
        self.t0 = loop.time()
        self.inputs = []
        self.buckets = [[]]
        self.heap = []
        self.order = 0
        self.ntx = 0
        self.sseq = 0
        self.last_srv = None
        self.wake = None
        self.setup = True
        self.conn = None
        self.tasks = []
        self.user_close = []

    def now(self):
        x = (self.loop.time() - self.t0) / TICK
        r = round(x)
        if abs(x - r) > 1e-6:
            raise RuntimeError(f"instant off the tick grid: {x}")
        return r

    def out(self, s):
        self.buckets[-1].append((self.now(), s))

    def push(self, t, action, ctx=None):
        self.order += 1
        heapq.heappush(self.heap, (t, self.order, action, ctx))
        if self.wake is not None and not self.wake.done():
            self.wake.set_result(None)

    def sent(self, data):
        frame, _ = KNXIPFrame.from_knx(data)
        b = frame.body
        if isinstance(b, ConnectRequest):
            self.loop.call_soon(self.deliver, ConnectResponse(communication_channel=CHANNEL))
        elif isinstance(b, ConnectionStateRequest):
            self.loop.call_soon(self.deliver, ConnectionStateResponse(communication_channel_id=CHANNEL))
        elif isinstance(b, DisconnectRequest):
            self.out("dreq")
            self.push(self.now(), "D")
        elif isinstance(b, DisconnectResponse):
            self.out("dresp")
        elif isinstance(b, DeviceConfigurationAck):
            self.out(f"ack:{b.sequence_counter}")
        elif isinstance(b, DeviceConfigurationRequest):
            self.out(f"tx:{b.sequence_counter}:{cemi_desc(b.raw_cemi)}")
            srv = self.case.get("srv", [])
            react = srv[self.ntx] if self.ntx < len(srv) else [[0, "A"], [0, "M"]]
            self.ntx += 1
            pi = CEMIFrame.from_knx(b.raw_cemi)
            ctx = (b.sequence_counter, pi)
            for delay, action in react:
                self.push(self.now() + int(delay), action, ctx)
        else:
            self.out(f"sent?{type(b).__name__}")

    def deliver(self, body):
        self.conn.transport.handle_knxipframe(KNXIPFrame.init_from_body(body), HPAI(*REMOTE))

    def srv_cemi(self, raw, tag, skip=0, repeat=False):
        """The server sends a DeviceConfigurationRequest carrying raw cEMI."""
        if repeat:
            if self.last_srv is None:
                return
            sseq, raw, tag = self.last_srv
        else:
            self.sseq = (self.sseq + skip) % 256
            sseq = self.sseq
            self.sseq = (self.sseq + 1) % 256
            self.last_srv = (sseq, raw, tag)
        self.inputs.append(f"m:{self.now()}:{sseq}:{tag}")
        self.buckets.append([])
        self.deliver(DeviceConfigurationRequest(communication_channel_id=CHANNEL, sequence_counter=sseq, raw_cemi=raw))

    def do(self, action, ctx):
        """Perform one scripted action now. Returns a coroutine to await or None."""
        a = action[0]
        seq, req = ctx if (ctx and a != "c") else (0, None)
        if a == "D":
            self.inputs.append(f"d:{self.now()}")
            self.buckets.append([])
            self.deliver(DisconnectResponse(communication_channel_id=CHANNEL))
        elif a in "AEWS":
            if a == "S" and not STALE:
                return None
            status = ErrorCode.E_NO_ERROR if a != "E" else ErrorCode.E_CONNECTION_ID
            ch = CHANNEL + 1 if a == "W" else CHANNEL
            s = (seq + int(action[1:] or 1)) % 256 if a == "S" else seq
            self.inputs.append(f"a:{self.now()}:{s}:{int(status != ErrorCode.E_NO_ERROR)}:{int(ch == CHANNEL)}")
            self.buckets.append([])
            self.deliver(DeviceConfigurationAck(communication_channel_id=ch, sequence_counter=s, status_code=status))
        elif a in "MFPIOTNX":
            if req is None:
                return None
            pi = req.data.property_info
            obj, inst, pid = pi.object_type, pi.object_instance, int(pi.property_id)
            is_read = req.code is CEMIMessageCode.M_PROP_READ_REQ
            if a == "P":
                pid = pid + 1
            if a == "I":
                inst = inst + 1
            if a == "O":
                obj = OBJ[11] if int(obj) == 0 else OBJ[0]
            if a == "T":
                is_read = not is_read
            err = a == "F"
            info = CEMIMPropInfo(object_type=obj, object_instance=inst, property_id=pid,
                                 number_of_elements=0 if err else 1)
            data = self.order % 251
            if a == "N":
                raw = CEMIFrame(code=CEMIMessageCode.M_PROP_INFO_IND,
                                data=CEMIMPropReadResponse(property_info=info, data=bytes([data]))).to_knx()
                tag = f"in:{int(obj)}:{inst}:{pid}:0:{data}"
            elif a == "X":
                raw = CEMIFrame(code=CEMIMessageCode.M_PROP_READ_REQ, data=CEMIMPropReadRequest(property_info=info)).to_knx()
                tag = f"rq:{int(obj)}:{inst}:{pid}:0:0"
            elif is_read:
                raw = CEMIFrame(code=CEMIMessageCode.M_PROP_READ_CON,
                                data=CEMIMPropReadResponse(property_info=info, data=bytes([7 if err else data]))).to_knx()
                tag = f"rc:{int(obj)}:{inst}:{pid}:{int(err)}:{0 if err else data}"
            else:
                raw = CEMIFrame(code=CEMIMessageCode.M_PROP_WRITE_CON,
                                data=CEMIMPropWriteResponse(property_info=info, error_code=7 if err else None)).to_knx()
                tag = f"wc:{int(obj)}:{inst}:{pid}:{int(err)}:0"
            self.srv_cemi(raw, tag)
        elif a == "G":
            self.srv_cemi(b"\xfc\x00", "gb:0:0:0:0:0")
        elif a == "R":
            self.srv_cemi(None, None, repeat=True)
        elif a == "K":
            self.sseq = (self.sseq + 1) % 256
        elif a == "Q":     # unsolicited frame given explicitly: Q<code>:<obj>:<inst>:<pid>
            code, obj, inst, pid = action[1:].split(":")
            info = CEMIMPropInfo(object_type=OBJ[int(obj)], object_instance=int(inst), property_id=int(pid))
            data = self.order % 251
            cls = {"rc": CEMIMessageCode.M_PROP_READ_CON, "in": CEMIMessageCode.M_PROP_INFO_IND}[code]
            raw = CEMIFrame(code=cls, data=CEMIMPropReadResponse(property_info=info, data=bytes([data]))).to_knx()
            self.srv_cemi(raw, f"{code}:{obj}:{inst}:{pid}:0:{data}")
        elif a == "C":
            kind = action[1]
            if kind == "l" and self.case["proto"] != "tcp":
                kind = "d"
            self.inputs.append(f"x:{self.now()}:{kind}")
            self.buckets.append([])
            if kind == "d":
                self.deliver(DisconnectRequest(communication_channel_id=CHANNEL))
            elif kind == "l":
                self.conn.transport._connection_lost()
            else:
                self.user_close.append(asyncio.create_task(self.conn.disconnect()))
        elif a == "c":
            k, kind, obj, inst, pid = ctx
            self.inputs.append(f"c:{self.now()}:{k}:{kind}:{obj}:{inst}:{pid}")
            self.buckets.append([])
            self.tasks.append(asyncio.create_task(self.call(k, kind, obj, inst, pid)))
        else:
            raise ValueError(action)
        return None

    async def call(self, k, kind, obj, inst, pid):
        try:
            if kind == "r":
                data = await self.conn.read_property(OBJ[obj], pid, object_instance=inst)
                self.out(f"res:{k}:ok:{data.hex()}")
            else:
                await self.conn.write_property(OBJ[obj], pid, bytes([k]), object_instance=inst)
                self.out(f"res:{k}:ok:-")
        except CommunicationError:
            self.out(f"res:{k}:comm")
        except asyncio.CancelledError:
            self.out(f"res:{k}:other-CancelledError")
            raise
        except Exception as e:  # noqa: BLE001
            self.out(f"res:{k}:other-{type(e).__name__}")


async def scenario(loop, case):
    global _rec
    rec = _rec = Rec(loop, case)
    cb_log = rec
    conn = (UDPConn(REMOTE[0], REMOTE[1], LOCAL[0], LOCAL[1], indication_callback=lambda c: cb_log.out("ind:" + cemi_desc(c.to_knx())))
            if case["proto"] == "udp" else
            TCPConn(REMOTE[0], REMOTE[1], indication_callback=lambda c: cb_log.out("ind:" + cemi_desc(c.to_knx()))))
    rec.conn = conn
    await conn.connect()
    rec.t0 = loop.time()
    rec.setup = False
    for t, k, kind, obj, inst, pid in case.get("calls", []):
        rec.push(int(t), "c", (k, kind, obj, inst, pid))
    for t, action in case.get("ev", []):
        rec.push(int(t), action, (0, None))
    horizon = None
    while True:
        if rec.heap:
            t = rec.heap[0][0]
        else:
            if all(x.done() for x in rec.tasks) and all(x.done() for x in rec.user_close):
                break
            if horizon is None:
                horizon = rec.now() + (REPS + 3) * TMO
            t = horizon
            if rec.now() >= horizon:
                break
        rec.wake = loop.create_future()
        h = loop.call_at(rec.t0 + t * TICK, lambda w=rec.wake: (not w.done()) and w.set_result(None))
        if t > rec.now():
            await rec.wake
        h.cancel()
        rec.wake = None
        await loop.settle()
        while rec.heap and rec.heap[0][0] <= rec.now():
            _, _, action, ctx = heapq.heappop(rec.heap)
            rec.do(action, ctx)
            await loop.settle()
    rec.inputs.append(f"z:{rec.now()}")
    rec.unfinished = [i for i, x in enumerate(rec.tasks) if not x.done()]
    for x in rec.tasks + rec.user_close:
        if not x.done():
            x.cancel()
    conn._heartbeat.stop()
    return rec


def render(rec):
    parts = []
    for b in rec.buckets:
        parts.append(",".join(f"{t}:{s}" for t, s in sorted(b)) or "-")
    return ";".join(parts)


def run_impl(case):
    logging.getLogger("xknx").setLevel(logging.CRITICAL)
    logging.getLogger("asyncio").setLevel(logging.CRITICAL)
    rec = vloop.run(scenario, case, patch_clock=True, epoch=0.0)
    outs = render(rec)
    if rec.unfinished:
        outs += f";unfinished:{rec.unfinished}"
    return {"out": " ".join(rec.inputs) + " => " + outs,
            "line": f"dm run {case['proto']} " + " ".join(rec.inputs), "expect": outs}
