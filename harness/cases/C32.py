"""C32 Device management requests get only their own answer (mode R on the virtual-time loop, closed-loop scripted server).

A case scripts the callers and the server:

    calls   [[t, k, kind, obj, inst, pid], ...]      caller k starts read_property ("r") / write_property ("w") at tick t
    srv     [[[delay, action], ...], ...]            reaction of the server to the n-th DeviceConfigurationRequest
                                                     transmission it sees (missing entries: acknowledge + matching answer)
    ev      [[t, action], ...]                       things the server does on its own at tick t

actions:  A ack ok | E ack with error status | W ack for another channel | S<d> ack with sequence +d (only with
          VERIF_C32_STALE_ACK=1) | M matching answer | F matching answer carrying an error code | P other property id |
          I other instance | O other object type | T answer of the other type | N indication for the same property |
          X a request-coded frame | G unparsable cEMI | R repeat the last server frame (same server sequence) |
          K skip one server sequence number | Cd server DisconnectRequest | Cl TCP connection lost | Cu user disconnect()
Ticks are 2**-20 s.  Before every injected event the harness sleeps to its instant and lets the loop settle, so timers
that are due at the same instant fire first; after it the loop settles again.  The trace handed to the Lean model is
the open-loop list of inputs; the model (a deterministic discrete-event simulation) must predict every output with
its instant.
"""
from __future__ import annotations

import asyncio
import heapq
import logging
import os

from harness import vloop

from xknx.cemi import (
    CEMIFrame,
    CEMIMessageCode,
    CEMIMPropInfo,
    CEMIMPropReadRequest,
    CEMIMPropReadResponse,
    CEMIMPropWriteResponse,
)
from xknx.exceptions import CommunicationError
from xknx.io import const as io_const
from xknx.io.device_management_connection import (
    TCPDeviceManagementConnection,
    UDPDeviceManagementConnection,
)
from xknx.io.transport import TCPTransport, UDPTransport
from xknx.knxip import (
    HPAI,
    ConnectionStateRequest,
    ConnectionStateResponse,
    ConnectRequest,
    ConnectResponse,
    DeviceConfigurationAck,
    DeviceConfigurationRequest,
    DisconnectRequest,
    DisconnectResponse,
    ErrorCode,
    KNXIPFrame,
)
from xknx.profile.const import ResourceObjectType

PROPERTY = "C32"
CASE_TIMEOUT = 10.0
TICK = 2.0 ** -20
TMO = round(io_const.DEVICE_CONFIGURATION_REQUEST_TIMEOUT / TICK)
REPS = io_const.DEVICE_CONFIGURATION_REQUEST_REPETITIONS
CHANNEL = 23
REMOTE = ("192.168.1.2", 3671)
LOCAL = ("192.168.1.1", 12345)
OBJ = {0: ResourceObjectType.OBJECT_DEVICE, 11: ResourceObjectType.OBJECT_KNXNETIP_PARAMETER}
STALE = os.environ.get("VERIF_C32_STALE_ACK") == "1"

_rec = None


class FakeSock:
    def sendto(self, data, addr=None):
        _rec.sent(data)

    def write(self, data):
        _rec.sent(data)

    def close(self):
        pass

    def get_extra_info(self, *_a):
        return REMOTE


class UDPStub(UDPTransport):
    async def connect(self):
        self.transport = FakeSock()

    def getsockname(self):
        return LOCAL


class TCPStub(TCPTransport):
    async def connect(self):
        self.transport = FakeSock()


class UDPConn(UDPDeviceManagementConnection):
    def _init_transport(self):
        self.transport = UDPStub(local_addr=LOCAL, remote_addr=REMOTE, multicast=False)


class TCPConn(TCPDeviceManagementConnection):
    def _init_transport(self):
        self.transport = TCPStub(remote_addr=REMOTE, connection_lost_cb=self._transport_connection_lost)


def cemi_desc(raw):
    try:
        c = CEMIFrame.from_knx(raw)
    except Exception:  # noqa: BLE001
        return "gb:0:0:0"
    code = {CEMIMessageCode.M_PROP_READ_REQ: "rq", CEMIMessageCode.M_PROP_WRITE_REQ: "wq",
            CEMIMessageCode.M_PROP_READ_CON: "rc", CEMIMessageCode.M_PROP_WRITE_CON: "wc",
            CEMIMessageCode.M_PROP_INFO_IND: "in"}.get(c.code, "ot")
    pi = getattr(c.data, "property_info", None)
    if pi is None:
        return f"{code}:0:0:0"
    return f"{code}:{int(pi.object_type)}:{pi.object_instance}:{int(pi.property_id)}"


class Rec:
    def __init__(self, loop, case):
        self.loop, self.case = loop, case
        self.t0 = loop.time()
        self.inputs = []
        self.buckets = [[]]
        self.heap = []
        self.order = 0
        self.ntx = 0
        self.sseq = 0
        self.last_srv = None
        self.wake = None
        self.setup = True
        self.conn = None
        self.tasks = []
        self.user_close = []

    def now(self):
        x = (self.loop.time() - self.t0) / TICK
        r = round(x)
        if abs(x - r) > 1e-6:
            raise RuntimeError(f"instant off the tick grid: {x}")
        return r

    def out(self, s):
        self.buckets[-1].append((self.now(), s))

    def push(self, t, action, ctx=None):
        self.order += 1
        heapq.heappush(self.heap, (t, self.order, action, ctx))
        if self.wake is not None and not self.wake.done():
            self.wake.set_result(None)

    def sent(self, data):
        frame, _ = KNXIPFrame.from_knx(data)
        b = frame.body
        if isinstance(b, ConnectRequest):
            self.loop.call_soon(self.deliver, ConnectResponse(communication_channel=CHANNEL))
        elif isinstance(b, ConnectionStateRequest):
            self.loop.call_soon(self.deliver, ConnectionStateResponse(communication_channel_id=CHANNEL))
        elif isinstance(b, DisconnectRequest):
            self.out("dreq")
            self.push(self.now(), "D")
        elif isinstance(b, DisconnectResponse):
            self.out("dresp")
        elif isinstance(b, DeviceConfigurationAck):
            self.out(f"ack:{b.sequence_counter}")
        elif isinstance(b, DeviceConfigurationRequest):
            self.out(f"tx:{b.sequence_counter}:{cemi_desc(b.raw_cemi)}")
            srv = self.case.get("srv", [])
            react = srv[self.ntx] if self.ntx < len(srv) else [[0, "A"], [0, "M"]]
            self.ntx += 1
            pi = CEMIFrame.from_knx(b.raw_cemi)
            ctx = (b.sequence_counter, pi)
            for delay, action in react:
                self.push(self.now() + int(delay), action, ctx)
        else:
            self.out(f"sent?{type(b).__name__}")

    def deliver(self, body):
        self.conn.transport.handle_knxipframe(KNXIPFrame.init_from_body(body), HPAI(*REMOTE))

    def srv_cemi(self, raw, tag, skip=0, repeat=False):
        """The server sends a DeviceConfigurationRequest carrying raw cEMI."""
        if repeat:
            if self.last_srv is None:
                return
            sseq, raw, tag = self.last_srv
        else:
            self.sseq = (self.sseq + skip) % 256
            sseq = self.sseq
            self.sseq = (self.sseq + 1) % 256
            self.last_srv = (sseq, raw, tag)
        self.inputs.append(f"m:{self.now()}:{sseq}:{tag}")
        self.buckets.append([])
        self.deliver(DeviceConfigurationRequest(communication_channel_id=CHANNEL, sequence_counter=sseq, raw_cemi=raw))

    def do(self, action, ctx):
        """Perform one scripted action now. Returns a coroutine to await or None."""
        a = action[0]
        seq, req = ctx if (ctx and a != "c") else (0, None)
        if a == "D":
            self.inputs.append(f"d:{self.now()}")
            self.buckets.append([])
            self.deliver(DisconnectResponse(communication_channel_id=CHANNEL))
        elif a in "AEWS":
            if a == "S" and not STALE:
                return None
            status = ErrorCode.E_NO_ERROR if a != "E" else ErrorCode.E_CONNECTION_ID
            ch = CHANNEL + 1 if a == "W" else CHANNEL
            s = (seq + int(action[1:] or 1)) % 256 if a == "S" else seq
            if s != self.conn.sequence_number and not STALE:
                return None     # an ACK for a counter no longer in use: C24 territory (needs b-tunnel's filter)
            if a == "W" and not STALE:
                return None
            self.inputs.append(f"a:{self.now()}:{s}:{int(status != ErrorCode.E_NO_ERROR)}:{int(ch == CHANNEL)}")
            self.buckets.append([])
            self.deliver(DeviceConfigurationAck(communication_channel_id=ch, sequence_counter=s, status_code=status))
        elif a in "MFPIOTNX":
            if req is None:
                return None
            pi = req.data.property_info
            obj, inst, pid = pi.object_type, pi.object_instance, int(pi.property_id)
            is_read = req.code is CEMIMessageCode.M_PROP_READ_REQ
            if a == "P":
                pid = pid + 1
            if a == "I":
                inst = inst + 1
            if a == "O":
                obj = OBJ[11] if int(obj) == 0 else OBJ[0]
            if a == "T":
                is_read = not is_read
            err = a == "F"
            info = CEMIMPropInfo(object_type=obj, object_instance=inst, property_id=pid,
                                 number_of_elements=0 if err else 1)
            data = self.order % 251
            if a == "N":
                raw = CEMIFrame(code=CEMIMessageCode.M_PROP_INFO_IND,
                                data=CEMIMPropReadResponse(property_info=info, data=bytes([data]))).to_knx()
                tag = f"in:{int(obj)}:{inst}:{pid}:0:{data}"
            elif a == "X":
                raw = CEMIFrame(code=CEMIMessageCode.M_PROP_READ_REQ, data=CEMIMPropReadRequest(property_info=info)).to_knx()
                tag = f"rq:{int(obj)}:{inst}:{pid}:0:0"
            elif is_read:
                raw = CEMIFrame(code=CEMIMessageCode.M_PROP_READ_CON,
                                data=CEMIMPropReadResponse(property_info=info, data=bytes([7 if err else data]))).to_knx()
                tag = f"rc:{int(obj)}:{inst}:{pid}:{int(err)}:{0 if err else data}"
            else:
                raw = CEMIFrame(code=CEMIMessageCode.M_PROP_WRITE_CON,
                                data=CEMIMPropWriteResponse(property_info=info, error_code=7 if err else None)).to_knx()
                tag = f"wc:{int(obj)}:{inst}:{pid}:{int(err)}:0"
            self.srv_cemi(raw, tag)
        elif a == "G":
            self.srv_cemi(b"\xfc\x00", "gb:0:0:0:0:0")
        elif a == "R":
            self.srv_cemi(None, None, repeat=True)
        elif a == "K":
            self.sseq = (self.sseq + 1) % 256
        elif a == "Q":     # unsolicited frame given explicitly: Q<code>:<obj>:<inst>:<pid>
            code, obj, inst, pid = action[1:].split(":")
            info = CEMIMPropInfo(object_type=OBJ[int(obj)], object_instance=int(inst), property_id=int(pid))
            data = self.order % 251
            cls = {"rc": CEMIMessageCode.M_PROP_READ_CON, "in": CEMIMessageCode.M_PROP_INFO_IND}[code]
            raw = CEMIFrame(code=cls, data=CEMIMPropReadResponse(property_info=info, data=bytes([data]))).to_knx()
            self.srv_cemi(raw, f"{code}:{obj}:{inst}:{pid}:0:{data}")
        elif a == "C":
            kind = action[1]
            if kind == "l" and self.case["proto"] != "tcp":
                kind = "d"
            self.inputs.append(f"x:{self.now()}:{kind}")
            self.buckets.append([])
            if kind == "d":
                self.deliver(DisconnectRequest(communication_channel_id=CHANNEL))
            elif kind == "l":
                self.conn.transport._connection_lost()
            else:
                self.user_close.append(asyncio.create_task(self.conn.disconnect()))
        elif a == "c":
            k, kind, obj, inst, pid = ctx
            self.inputs.append(f"c:{self.now()}:{k}:{kind}:{obj}:{inst}:{pid}")
            self.buckets.append([])
            self.tasks.append(asyncio.create_task(self.call(k, kind, obj, inst, pid)))
        else:
            raise ValueError(action)
        return None

    async def call(self, k, kind, obj, inst, pid):
        try:
            if kind == "r":
                data = await self.conn.read_property(OBJ[obj], pid, object_instance=inst)
                self.out(f"res:{k}:ok:{data.hex()}")
            else:
                await self.conn.write_property(OBJ[obj], pid, bytes([k]), object_instance=inst)
                self.out(f"res:{k}:ok:-")
        except CommunicationError:
            self.out(f"res:{k}:comm")
        except asyncio.CancelledError:
            self.out(f"res:{k}:other-CancelledError")
            raise
        except Exception as e:  # noqa: BLE001
            self.out(f"res:{k}:other-{type(e).__name__}")


async def scenario(loop, case):
    global _rec
    rec = _rec = Rec(loop, case)
    cb_log = rec
    conn = (UDPConn(REMOTE[0], REMOTE[1], LOCAL[0], LOCAL[1], indication_callback=lambda c: cb_log.out("ind:" + cemi_desc(c.to_knx())))
            if case["proto"] == "udp" else
            TCPConn(REMOTE[0], REMOTE[1], indication_callback=lambda c: cb_log.out("ind:" + cemi_desc(c.to_knx()))))
    rec.conn = conn
    await conn.connect()
    rec.t0 = loop.time()
    rec.setup = False
    for t, k, kind, obj, inst, pid in case.get("calls", []):
        rec.push(int(t), "c", (k, kind, obj, inst, pid))
    for t, action in case.get("ev", []):
        rec.push(int(t), action, (0, None))
    idle, seen = 0, -1
    while True:
        if rec.heap:
            t = rec.heap[0][0]
        else:
            if all(x.done() for x in rec.tasks) and all(x.done() for x in rec.user_close):
                break
            n_out = sum(len(b) for b in rec.buckets)
            idle = idle + 1 if n_out == seen else 0
            seen = n_out
            if idle >= 2:
                break               # nothing happened for two full timeouts: a request hangs
            t = rec.now() + TMO + 1
        rec.wake = loop.create_future()
        h = loop.call_at(rec.t0 + t * TICK, lambda w=rec.wake: (not w.done()) and w.set_result(None))
        if t > rec.now():
            await rec.wake
        h.cancel()
        rec.wake = None
        await loop.settle()
        while rec.heap and rec.heap[0][0] <= rec.now():
            _, _, action, ctx = heapq.heappop(rec.heap)
            rec.do(action, ctx)
            await loop.settle()
    rec.inputs.append(f"z:{rec.now()}")
    rec.buckets.append([])
    rec.unfinished = [i for i, x in enumerate(rec.tasks) if not x.done()]
    for x in rec.tasks + rec.user_close:
        if not x.done():
            x.cancel()
    conn._heartbeat.stop()
    return rec


def render(rec):
    parts = []
    for b in rec.buckets:
        parts.append(",".join(f"{t}:{s}" for t, s in sorted(b)) or "-")
    return ";".join(parts)


def run_impl(case):
    logging.getLogger("xknx").setLevel(logging.CRITICAL)
    logging.getLogger("asyncio").setLevel(logging.CRITICAL)
    rec = vloop.run(scenario, case, patch_clock=True, epoch=0.0)
    outs = render(rec)
    if rec.unfinished:
        outs += f";unfinished:{rec.unfinished}"
    return {"out": " ".join(rec.inputs) + " => " + outs,
            "line": f"dm run {case['proto']} " + " ".join(rec.inputs), "expect": outs}


# --------------------------------------------------------------------------------------------------
# Oracle
# --------------------------------------------------------------------------------------------------

RULE = ("closed-loop scripts: 1-3 callers (read/write, 4 properties, start instants incl. equal instants and the timeout "
        "boundaries) against a scripted server: per transmission an ACK (ok / error status / none / duplicated) and answers "
        "(matching, error, other property / instance / object type / other service, indication, request-coded, unparsable, "
        "late around the timeout +-1 tick, twice, before the ACK), repeated / skipped server sequence numbers, unsolicited "
        "frames, and a close (server DisconnectRequest, TCP connection lost, user disconnect) at every position; UDP and TCP. "
        "ACKs with a foreign channel or sequence number only with VERIF_C32_STALE_ACK=1 (they need b-tunnel's C24 fix). "
        "non-trivial = at least one request was transmitted")
TRUSTED = ["model XknxVerif.Model.DevMgmt hand-written; the three constants regenerated from xknx.io.const / RequestResponse",
           "harness/vloop.py; transports replaced by subclasses whose socket records the serialized frames (the real "
           "send/serialisation path runs); ConnectRequest and heartbeat ConnectionStateRequests are answered by the harness",
           "the ACK filter of xknx/io/request_response/device_configuration.py is modelled as repaired by branch b-tunnel (C24)"]
ASSUMPTIONS = ["every injected event is followed by the loop running to quiescence (no two server frames inside one loop iteration)",
               "DeviceConfigurationAcks carry the channel and sequence counter of the transmission they answer (until b-tunnel's fix is merged)"]
KNOWN_CLOSE = "close-during-ack-wait"


def parse_trace(out):
    ins, outs = out.split(" => ")
    ins = ins.split()
    parts = outs.split(";")
    unfinished = None
    if parts[-1].startswith("unfinished"):
        unfinished = parts.pop()
    buckets = [[] if b == "-" else [(int(x.split(":")[0]), x.split(":", 1)[1]) for x in b.split(",")] for b in parts]
    return ins, buckets, unfinished


def oracle(case, out):
    msgs = check(case, out)
    if not msgs:
        return None
    strong = [m for m in msgs if not m.startswith(KNOWN_CLOSE)]
    return (strong or msgs)[0]


def check(case, out):
    udp = case["proto"] == "udp"
    ins, buckets, unfinished = parse_trace(out)
    msgs = []
    if unfinished:
        msgs.append("a request never finished: " + unfinished)
    # flatten to a time-ordered event list: ("in", fields) / ("out", t, fields)
    events = [("out", t, o.split(":")) for t, o in buckets[0]]
    for i, tok in enumerate(ins):
        events.append(("in", int(tok.split(":")[1]), tok.split(":")))
        b = buckets[i + 1] if i + 1 < len(buckets) else []
        # results before transmissions at the same instant (a request is sent after its predecessor returned)
        events += [("out", t, o.split(":")) for t, o in sorted(b, key=lambda x: (x[0], 0 if x[1].startswith("res") else 1))]
    calls = {}          # k -> (t, kind, prop)
    fifo = []           # unresolved callers in call order
    owner = None        # caller whose request is on the wire
    group = None        # dict(seq, desc, n, first_t, last_t, acked, answered)
    prev_seq = None
    frames = []         # (t, code, prop, err, data, delivered_after_owner)
    is_open = True
    closed_at = None
    pending_close = []  # callers that must fail at closed_at
    for ev in events:
        if ev[0] == "in":
            f = ev[2]
            t = ev[1]
            if f[0] == "c":
                calls[int(f[2])] = (t, f[3], (f[4], f[5], f[6]))
                fifo.append(int(f[2]))
            elif f[0] == "a":
                if group and udp and int(f[2]) == group["seq"] and f[3] == "0" and f[4] == "1" and t < group["last_t"] + TMO:
                    group["acked"] = True
            elif f[0] == "m":
                frames.append((t, f[3], (f[4], f[5], f[6]), f[7], int(f[8]), owner))
                if group and f[3] in ("rc", "wc", "rq"):
                    group["answered"] = True
            elif f[0] == "x":
                effective = is_open if f[2] != "l" else is_open
                if effective:
                    is_open = False
                    closed_at = t
                    awaiting_ack = bool(group) and udp and not group["acked"] and not (group["answered"] and t >= group["last_t"] + TMO)
                    pending_close = [(k, awaiting_ack or (owner is not None and awaiting_ack)) for k in fifo]
                    if awaiting_ack:
                        pending_close = [(k, True) for k in fifo]
            continue
        _, t, f = ev
        if f[0] == "tx":
            seq, desc = int(f[1]), ":".join(f[2:])
            if group and owner is not None and seq == group["seq"] and desc == group["desc"]:
                group["n"] += 1
                if group["n"] > 1 + REPS:
                    msgs.append(f"request with counter {seq} transmitted {group['n']} times")
                group["last_t"] = t
            else:
                if owner is not None:
                    msgs.append(f"request {desc} sent at {t} while the request of caller {owner} is outstanding")
                if not fifo:
                    msgs.append(f"request {desc} sent without a caller")
                    continue
                k = fifo[0]
                ck = calls[k]
                want = ("rq" if ck[1] == "r" else "wq") + ":" + ":".join(ck[2])
                if desc != want:
                    msgs.append(f"request {desc} sent, but the next caller {k} asked for {want}")
                if prev_seq is not None and seq != (prev_seq + 1) % 256:
                    msgs.append(f"sequence counter went from {prev_seq} to {seq}")
                if prev_seq is None and seq != 0:
                    msgs.append(f"first sequence counter is {seq}")
                owner, prev_seq = k, seq
                group = {"seq": seq, "desc": desc, "n": 1, "first_t": t, "last_t": t, "acked": not udp, "answered": False}
        elif f[0] == "res":
            k = int(f[1])
            if f[2].startswith("other"):
                msgs.append(f"caller {k} failed with {f[2][6:]}, not CommunicationError")
            if k not in calls or k not in fifo:
                msgs.append(f"result for unknown or finished caller {k}")
                continue
            ct, kind, prop = calls[k]
            if f[2] == "ok":
                if owner != k:
                    msgs.append(f"caller {k} got an answer without its request being sent")
                code = "rc" if kind == "r" else "wc"
                good = [fr for fr in frames if fr[1] == code and fr[2] == prop and fr[3] == "0" and fr[5] == k and fr[0] <= t
                        and (kind == "w" or f"{fr[4]:02x}" == f[3])]
                if not good:
                    msgs.append(f"caller {k} ({kind} {':'.join(prop)}) returned {f[3]} but no {code} answer for that property "
                                f"arrived while its request was outstanding")
            for kk, known in pending_close:
                if kk == k and t != closed_at:
                    if known:
                        msgs.append(f"{KNOWN_CLOSE}: connection closed at {closed_at} while caller {k}'s request awaited its "
                                    f"acknowledgement; it failed only at {t}")
                    else:
                        msgs.append(f"connection closed at {closed_at} but caller {k} failed only at {t}")
            fifo.remove(k)
            if owner == k:
                owner, group = None, None
        elif f[0] == "ind":
            pass
    # indications go to the callback only, and every delivered indication reaches it
    for i, tok in enumerate(ins):
        f = tok.split(":")
        b = buckets[i + 1] if i + 1 < len(buckets) else []
        inds = [o for _, o in b if o.startswith("ind")]
        if f[0] == "m" and f[3] == "in":
            acked = any(o == f"ack:{f[2]}" for _, o in b)
            fresh = not any(x.split(":")[0] == "m" and x.split(":")[2] == f[2] and ins.index(x) < i and
                            all(y.split(":")[0] != "m" or y.split(":")[2] == f[2] for y in ins[ins.index(x):i]) for x in ins[:i])
            if (acked or not udp) and fresh and not inds and closed_at is None:
                msgs.append(f"indication {tok} did not reach the indication callback")
        elif inds:
            msgs.append(f"indication callback invoked by {tok}")
    return msgs


def finding_key(case, msg):
    if msg.startswith(KNOWN_CLOSE):
        return KNOWN_CLOSE
    return canon(case)


def canon(case):
    return f"{case['proto']} calls={case.get('calls')} srv={case.get('srv')} ev={case.get('ev')}"[:300]


def nontrivial(case, out):
    return ":tx:" in out


def outcome_class(out):
    ks = sorted({o.split(":")[3] for o in out.replace(";", ",").split(",") if ":res:" in o})
    return ",".join(ks) or "no-result"


def shrink(case, msg):
    def cls(m):
        return (m or "").split(":")[0][:25]
    want = cls(msg)

    def fails(c):
        try:
            return cls(oracle(c, run_impl(c)["out"])) == want
        except Exception:  # noqa: BLE001
            return False
    c = dict(case)
    for key in ("ev", "calls", "srv"):
        lst = list(c.get(key, []))
        i = len(lst) - 1
        while i >= 0:
            trial = dict(c, **{key: lst[:i] + lst[i + 1:]})
            if fails(trial):
                lst = lst[:i] + lst[i + 1:]
                c = trial
            i -= 1
    srv = [list(r) for r in c.get("srv", [])]
    for n in range(len(srv)):
        j = len(srv[n]) - 1
        while j >= 0:
            trial_srv = [list(r) for r in srv]
            del trial_srv[n][j]
            trial = dict(c, srv=trial_srv)
            if fails(trial):
                srv = trial_srv
                c = trial
            j -= 1
    return c


# --------------------------------------------------------------------------------------------------
# Generator
# --------------------------------------------------------------------------------------------------

PROPS = [(11, 1, 52), (11, 1, 53), (0, 1, 11), (0, 2, 11)]
DELAYS = [0, 0, 0, 1, 1, 10, 100, 2 ** 20, TMO - 1, TMO, TMO + 1, TMO // 2]


def gen_reaction(rng, single, tcp):
    d = lambda: rng.choice(DELAYS)  # noqa: E731
    m = rng.randrange(24)
    if m < 6:
        return [[0, "A"], [d(), "M"]]
    if m == 6:
        return [[0, "M"], [rng.choice([0, 5, 100]), "A"]]
    if m == 7:
        return [] if rng.random() < 0.5 else [[d(), "M"]]
    if m == 8:
        return [[0, "E"]] + ([[1, "M"]] if rng.random() < 0.3 else [])
    if m == 9:
        return ([[0, "A"], [0, "A"]] if single or STALE else [[0, "A"]]) + [[d(), "M"]]
    if m == 10:
        st = [[rng.choice([0, 1, 10]), rng.choice("PIOTNXG")] for _ in range(rng.randrange(1, 4))]
        return [[0, "A"]] + sorted(st, key=lambda x: x[0]) + [[rng.choice([10, 100, TMO - 1, TMO]), "M"]]
    if m == 11:
        return [[0, "A"], [rng.choice([TMO - 1, TMO, TMO + 1]), "M"]]
    if m == 12:
        return [[0, "A"], [0, "M"], [rng.choice([0, 1]), "M"]]
    if m == 13:
        return [[0, "A"], [d(), "F"]]
    if m == 14:
        return [[rng.choice([0, 1, TMO - 1]), "A"], [d(), rng.choice(["R", "K", "M"])], [d() + 1, "M"], [TMO // 2, "M"]]
    if m == 15:
        kind = rng.choice(["Cd", "Cu", "Cl" if tcp else "Cd"])
        seq = [[0, "A"], [10, "M"]]
        seq.insert(rng.randrange(3), [rng.choice([0, 5, 10, 11]), kind])
        return sorted(seq, key=lambda x: x[0])
    if m == 16:
        return [[rng.choice([0, 1, 100, TMO - 1, TMO]), rng.choice(["Cd", "Cu"])]]
    if m == 17:
        return [[TMO - 1, "A"], [TMO - 1, "M"]] if rng.random() < 0.5 else [[TMO, "A"], [TMO, "M"]]
    if m == 18 and STALE:
        return [[0, rng.choice(["S1", "S255", "W"])], [5, "A"], [10, "M"]]
    if m == 19:
        return [[0, "N"], [0, "A"], [1, "N"], [2, "M"]]
    if m == 20:
        return [[0, "A"], [1, "T"], [2, "O"], [3, "M"]]
    return [[0, "A"], [0, "M"]]


def generate(rng, tier):
    thorough = tier != "quick"
    # F1: a close of every kind at every position of a two-caller exchange, both transports
    base = [[0, "A"], [10, "N"], [20, "P"], [30, "M"]]
    for proto in ("udp", "tcp"):
        for kind in ("Cd", "Cu", "Cl"):
            if kind == "Cl" and proto == "udp":
                continue
            for pos in range(len(base) + 1):
                for dt in (0, 5):
                    t = (base[pos - 1][0] if pos else 0) + dt
                    r = sorted(base[:pos] + [[t, kind]] + base[pos:], key=lambda x: x[0])
                    yield {"op": "dm scn", "proto": proto, "calls": [[0, 1, "r", 11, 1, 52], [1, 2, "w", 0, 1, 11]], "srv": [r]}
            for t in (0, 1, TMO - 1, TMO, TMO + 1, 2 * TMO, 4 * TMO):
                yield {"op": "dm scn", "proto": proto, "calls": [[0, 1, "r", 11, 1, 52], [1, 2, "w", 0, 1, 11]],
                       "srv": [[]], "ev": [[t, kind]]}
    # F2: every stale-answer kind before the real answer, read and write
    for proto in ("udp", "tcp"):
        for kind in "rw":
            for a in "PIOTNXGF":
                for d in (0, 1, TMO - 1):
                    yield {"op": "dm scn", "proto": proto, "calls": [[0, 1, kind, 11, 1, 52], [0, 2, kind, 11, 1, 53]],
                           "srv": [[[0, "A"], [d, a], [d + 1, "M"]]]}
    # F3: acknowledgement timing
    for d_ack in (None, 0, 1, TMO - 1, TMO, TMO + 1, 2 * TMO - 1, 4 * TMO - 1, 4 * TMO):
        for d_ans in (None, 0, 1, TMO - 1, TMO, TMO + 1):
            r = ([[d_ack, "A"]] if d_ack is not None else []) + ([[d_ans, "M"]] if d_ans is not None else [])
            yield {"op": "dm scn", "proto": "udp", "calls": [[0, 1, "r", 11, 1, 52], [3, 2, "r", 11, 1, 52]],
                   "srv": [sorted(r, key=lambda x: x[0]), [[0, "A"], [0, "M"]] if d_ack != 0 else []]}
    # F3b: the k-th transmission is the first to be acknowledged (k beyond the repetitions: never), with silence or
    # error-status ACKs before it; one and two callers
    for k in range(0, REPS + 3):
        for quiet in ([], [[0, "E"]], [[TMO - 1, "E"]], [[5, "M"]]):
            for ncall in (1, 2):
                calls = [[0, 1, "r", 11, 1, 52], [7, 2, "w", 0, 1, 11]][:ncall]
                yield {"op": "dm scn", "proto": "udp", "calls": calls,
                       "srv": [quiet] * k + [[[0, "A"], [0, "M"]]] + [[]] * (REPS + 3)}
    # F4: random
    for _ in range(1500 if not thorough else 40000):
        proto = "udp" if rng.random() < 0.7 else "tcp"
        ncall = rng.choice([1, 1, 2, 2, 3])
        calls = []
        for k in range(1, ncall + 1):
            p = rng.choice(PROPS if rng.random() < 0.6 else PROPS[:2])
            calls.append([rng.choice([0, 0, 0, 1, 5, 100, TMO - 1, TMO, TMO + 1, 2 * TMO]), k, rng.choice("rrw"), *p])
        calls.sort(key=lambda c: c[0])
        srv = [gen_reaction(rng, ncall == 1, proto == "tcp") for _ in range(rng.randrange(0, 7))]
        ev = []
        for _ in range(rng.choice([0, 0, 1, 2, 3])):
            t = rng.choice([0, 1, 7, 50, 2 ** 20, TMO - 1, TMO, TMO + 1, 2 * TMO, 3 * TMO + 5])
            r = rng.random()
            if r < 0.5:
                p = rng.choice(PROPS)
                ev.append([t, f"Q{rng.choice(['in', 'in', 'rc'])}:{p[0]}:{p[1]}:{p[2]}"])
            elif r < 0.8:
                ev.append([t, rng.choice(["Cd", "Cu", "Cl" if proto == "tcp" else "Cd"])])
            else:
                ev.append([t, rng.choice(["G", "R", "K"])])
        ev.sort(key=lambda e: e[0])
        yield {"op": "dm scn", "proto": proto, "calls": calls, "srv": srv, "ev": ev}
