"""C40 Cover position estimates stay within bounds and never fail.

Real TravelCalculator (directly, and through a real Cover device) driven by generated histories with `time.time`
patched to a scripted clock.  Clock readings are binary64 values >= 1024 s, reported to the model as whole ticks of 2^-42 s (exact), travel times
are passed to the Lean model as the exact rational value of the Python float.  The Lean side is a monitor over the exact
model: it replays the history, checks every reported estimate against the exact one (accepting the neighbouring integer
when the exact pre-truncation value is within 1e-9 of an integer at a reading within a few ticks: binary64 rounding), and adopts the reported stop position.
The oracle restates the property on the Python outputs alone with an exact `fractions.Fraction` reference.
"""
from __future__ import annotations

import time
from fractions import Fraction

from xknx import XKNX
from xknx.devices import Cover, TravelCalculator

PROPERTY = "C40"
RULE = ("generated histories (<=40 ops) of set_position / update_position / start_travel(_up/_down) / stop / queries at "
        "non-decreasing scripted clock readings; advances drawn from {0, one tick (2^-42 s), 2^-20 s, 1/7, 1/3, 1/2, 2/3, 99/100 of the "
        "remaining travel time, exactly the remaining time (+-1 tick), the arrival instant as binary64 computes it (+-1 ulp), beyond, random}; travel times from {0.5, 1, 22, 25, 60, 100/3} "
        "+ random + boundary {0, one tick, 1e-3, 3600}; positions 0..100 + a malformed stream (outside 0..100, non-positive travel time); "
        "run on TravelCalculator and through Cover; a second schedule advances the clock on every read of time.time (oracle only); "
        "non-trivial = distinct history with at least one estimate strictly between last known position and target")
TRUSTED = [
    "model XknxVerif.Model.Travel is exact rational arithmetic; binary64 rounding inside the interpolation is NOT modelled: "
    "the monitor accepts the neighbouring integer when the exact pre-truncation value is within 1e-9 of an integer",
    "time.time is replaced by the scripted clock for the duration of a case (module attribute patch, restored afterwards)",
]
ASSUMPTIONS = ["clock readings are non-decreasing (the property's own hypothesis)", "travel times are finite floats"]
CASE_TIMEOUT = 10.0

TICK = 2.0 ** -42     # every binary64 >= 1024.0 is a whole number of ticks
BASE = 1024 << 42
TT_DICT = [0.5, 1.0, 22.0, 25.0, 60.0, 100 / 3]
TT_EDGE = [0.0, 2.0 ** -20, 1e-3, 3600.0, 100 * 2.0 ** -20]
EARLY_KEY = "estimate equals the target less than one position step before the travel time has elapsed (int() truncates toward the target)"


# --------------------------------------------------------------------------- generation

def _gen_history(rng, tt, n, malformed):
    """ops with clock advances chosen relative to the (approximate) remaining travel time."""
    evs = []
    L = G = None
    for _ in range(n):
        rem = 0.0
        if L is not None and G is not None and L != G:
            rem = (tt[0] if G > L else tt[1]) * abs(G - L) / 100
        remt = max(rem, 0) / TICK
        r = rng.random()
        if r < 0.26:
            dt = 0
        elif r < 0.32:
            dt = rng.choice([1, 1 << 22])                      # one tick / one 2^-20 s
        elif r < 0.60 and remt > 0:
            f = rng.choice([Fraction(1, 7), Fraction(1, 3), Fraction(1, 2), Fraction(2, 3), Fraction(99, 100)])
            dt = int(remt * f)
        elif r < 0.72 and remt > 0:
            dt = max(0, int(remt) + rng.choice([0, 0, 1, 1, -1, 2]))
        elif r < 0.86:
            dt = rng.choice(["A", "A", "A-", "A+"])             # the arrival instant as the code computes it (+-1 ulp)
        elif r < 0.93:
            dt = int(2 * remt) + rng.randrange(1 << 44)
        else:
            dt = rng.randrange(1 << rng.choice([4, 24, 42, 46]))
        pos = lambda: (rng.choice([0, 1, 50, 99, 100]) if rng.random() < 0.35 else rng.randrange(101)) \
            if not (malformed and rng.random() < 0.3) else rng.choice([-5, -1, 101, 150, 255])
        r = rng.random()
        if r < 0.10:
            p = pos(); op = f"S{p}"; L = G = p
        elif r < 0.24:
            p = pos() if (G is None or rng.random() < 0.6) else G
            op = f"U{p}"; L = p
        elif r < 0.40:
            op = "X"
            if L is not None:
                G = L
        elif r < 0.64:
            g = pos(); op = f"T{g}"
            if L is None:
                L = g
            G = g
        elif r < 0.70:
            op = "TU"; L = 0 if L is None else L; G = 0
        elif r < 0.76:
            op = "TD"; L = 100 if L is None else L; G = 100
        else:
            op = "Q"
        evs.append([dt, op])
    return evs


def generate(rng, tier):
    thorough = tier == "thorough"
    n = 30000 if thorough else 1200
    for k in range(n):
        malformed = k % 10 == 9
        r = rng.random()
        pick = lambda: (rng.choice(TT_DICT) if r < 0.6 else (rng.uniform(0.1, 120.0) if r < 0.85 else rng.choice(TT_EDGE)))
        tt = [pick(), pick() if rng.random() < 0.6 else None]
        if tt[1] is None:
            tt[1] = tt[0]
        if malformed and rng.random() < 0.3:
            tt[rng.randrange(2)] = rng.choice([-1.0, 0.0])
        ln = rng.choice([3, 8, 20, 40])
        case = {"tt": [float(x).hex() for x in tt], "evs": _gen_history(rng, tt, ln, malformed),
                "base": BASE + rng.randrange(1 << rng.choice([20, 46, 51])), "via": "cover" if k % 3 == 2 else "tc", "sched": "const"}
        if k % 8 == 7:
            # the clock advances on EVERY read of time.time (between the reads inside one call)
            case["sched"] = "adv"
            case["adv"] = rng.choice([1, 1 << 32, 1 << 40, 1 << 42, 5 << 42])
        yield case
    # boundary dictionary: equal readings around stop / start, exact arrival instants in both directions
    for ttv in TT_DICT + TT_EDGE:
        for (a, b) in [(0, 100), (100, 0), (100, 30), (30, 100), (50, 50), (32, 15)]:
            rem = ttv * abs(a - b) / 100 / TICK
            for dt in [0, 1, max(0, int(rem) - 1), int(rem), int(rem) + 1, int(rem / 2), "A", "A-", "A+"]:
                for tail in (["Q"], ["X", "Q"], ["X", "X"], [f"T{a}", "Q"]):
                    evs = [[0, f"S{a}"], [0, f"T{b}"], [dt, "Q"]] + [[0, o] for o in tail] + [[1, "Q"]]
                    yield {"tt": [float(ttv).hex()] * 2, "evs": evs, "base": BASE + (12345 << 20) + 777, "via": "tc", "sched": "const"}


# --------------------------------------------------------------------------- implementation

class _Clock:
    """time.time replacement: reading = k ticks, rounded to binary64 (k is re-read from the rounded value)."""

    def __init__(self, k, adv):
        self.adv, self.reads = adv, 0
        self.set(k)

    def set(self, k):
        self.v = float(k) * TICK
        f = Fraction(self.v) / Fraction(TICK)
        assert f.denominator == 1
        self.k = f.numerator

    def set_float(self, v):
        if v >= self.v:
            self.set(int(Fraction(v) / Fraction(TICK)))

    def __call__(self):
        v = self.v
        self.reads += 1
        if self.adv:
            self.set(self.k + self.adv)
        return v


def _apply(tc, op):
    if op == "X":
        tc.stop()
    elif op == "Q":
        pass
    elif op == "TU":
        tc.start_travel_up()
    elif op == "TD":
        tc.start_travel_down()
    elif op[0] == "S":
        tc.set_position(int(op[1:]))
    elif op[0] == "U":
        tc.update_position(int(op[1:]))
    elif op[0] == "T":
        tc.start_travel(int(op[1:]))
    else:
        raise ValueError(op)


def _show(p):
    if p is None:
        return "n"
    if type(p) is not int:
        return f"!{type(p).__name__}"
    return str(p)


def _frac(x):
    """exact value of a float in ticks as 'n/d'"""
    f = Fraction(x) / Fraction(TICK)
    return f"{f.numerator}/{f.denominator}"


def run_impl(case):
    tt = [float.fromhex(x) for x in case["tt"]]
    clock = _Clock(case["base"], case.get("adv", 0) if case["sched"] == "adv" else 0)
    real = time.time
    toks = []
    try:
        time.time = clock
        if case["via"] == "cover":
            dev = Cover(XKNX(), "c", group_address_long="1/2/3", group_address_position="1/2/4",
                        travel_time_down=tt[0], travel_time_up=tt[1])
            tc, q = dev.travelcalculator, dev
        else:
            tc = q = TravelCalculator(tt[0], tt[1])

        def est():
            try:
                return _show(q.current_position())
            except Exception as e:  # noqa: BLE001
                return f"!{type(e).__name__}"

        import math
        L = G = ts = None                       # what a caller knows; only used to aim at the arrival instant
        for dt, op in case["evs"]:
            if isinstance(dt, str):
                if L is not None and G is not None and ts is not None:
                    arr = ts + tc.calculate_travel_time(L, G)
                    if math.isfinite(arr):
                        arr = {"A": arr, "A-": math.nextafter(arr, -math.inf), "A+": math.nextafter(arr, math.inf)}[dt]
                        clock.set_float(arr)
            else:
                clock.set(clock.k + dt)
            t, tv = clock.k, clock.v
            pre = est()
            try:
                _apply(tc, op)
                opx = op
            except Exception as e:  # noqa: BLE001
                opx = f"{op}!{type(e).__name__}"
            post = est()
            try:
                fl = "".join("1" if f() else "0" for f in (q.is_traveling, q.position_reached, q.is_opening, q.is_closing,
                                                            q.is_open, q.is_closed))
            except Exception as e:  # noqa: BLE001
                fl = f"!{type(e).__name__}"
            toks.append(f"{t};{opx};{pre};{post};{fl}")
            if pre[:1] != "!" and "!" not in opx:
                if op[0] == "S":
                    L = G = int(op[1:]); ts = tv
                elif op[0] == "U":
                    L = int(op[1:]); ts = tv
                elif op == "X" and pre != "n":
                    L = G = int(pre)
                elif op[0] == "T":
                    g = {"TU": 0, "TD": 100}[op] if op in ("TU", "TD") else int(op[1:])
                    L, G, ts = (g if L is None else int(pre)), g, tv
    finally:
        time.time = real
    out = ",".join(toks)
    if case["sched"] == "adv":
        return {"out": out, "line": None}
    return {"out": out, "line": f"travel mon {_frac(tt[0])} {_frac(tt[1])} {out}", "expect": "accept"}


# --------------------------------------------------------------------------- oracle (Python outputs only)

def _between(q, a, b):
    return min(a, b) <= q <= max(a, b)


def oracle(case, out):
    tt = [Fraction(float.fromhex(x)) for x in case["tt"]]
    adv = case["sched"] == "adv"
    L = G = None          # last known position / target, as the caller knows them
    ts = None             # reading of the last timestamp update (ticks)
    direction = "stopped"
    confirmed = False
    lo = hi = None        # hull for the advancing-clock schedule
    prev = None           # (estimate, target) of the previous observation, for monotonicity
    early = []            # known-finding class; reported only if nothing else is wrong with the history
    for i, tok in enumerate(out.split(",")):
        t, op, pre, post, fl = tok.split(";")
        t = int(t)
        where = f"op #{i} {op} at tick {t}"
        if "!" in op or "!" in pre or "!" in post or "!" in fl:
            return f"{where}: raised / wrong type ({tok})"

        def check(q, what):
            """bounds + arrival for one reported estimate; returns a message or None"""
            if (q == "n") != (L is None):
                return f"{where}: {what} estimate {q} but last known position is {L}"
            if L is None:
                return None
            q = int(q)
            if adv:
                if not (lo <= q <= hi):
                    return f"{where}: {what} estimate {q} outside [{lo}, {hi}] (positions known/targeted so far)"
                return None
            if G is None:
                return None if q == L else f"{where}: {what} estimate {q} with no target, last known {L}"
            if not _between(q, L, G):
                return f"{where}: {what} estimate {q} not between last known position {L} and target {G}"
            # arrival: equals the target iff the travel time has elapsed (or confirmed / direction says reached)
            rel = G - L
            dir_reached = (rel <= 0 and direction == "down") or (rel >= 0 and direction == "up")
            if confirmed:
                return None if q == L else f"{where}: {what} estimate {q}, confirmed position {L}"
            rem = (tt[0] if rel > 0 else tt[1]) * abs(rel) / 100          # seconds, exact
            el = Fraction(t - ts) * Fraction(TICK)
            margin = Fraction(1, 10 ** 9) * (1 + max(rem, 0))               # binary64 slack at the arrival instant
            if dir_reached or rem <= 0 or el >= rem + margin:
                if q != G:
                    return f"{where}: {what} estimate {q}, but the travel time to target {G} has elapsed"
            elif el <= rem - margin and q == G:
                v = L + rel * el / rem
                if abs(G - v) < 1:
                    early.append(f"{where}: {what} {EARLY_KEY}: estimate {q} = target at exact position {float(v):.6f}")
                    return None
                return f"{where}: {what} estimate {q} = target {G} long before arrival (exact position {float(v):.6f})"
            return None

        m = check(pre, "pre")
        if m:
            return m
        if prev is not None and pre != "n" and prev[0] != "n" and not adv and G is not None:
            a, b = int(prev[0]), int(pre)
            if (G >= L and b < a) or (G <= L and b > a):
                return f"{where}: estimate moved from {a} to {b}, away from target {G}"
        # the caller's knowledge after the operation
        if op[0] == "S":
            L = G = int(op[1:]); ts = t; confirmed = True
            lo = hi = L
        elif op[0] == "U":
            L = int(op[1:]); ts = t
            if G is not None and L == G:
                confirmed = True
            if adv and lo is not None and G is not None:
                lo, hi = min(lo, L), max(hi, L)       # the inner stop position is only known to lie in the hull
            else:
                lo, hi = (L, L) if G is None else (min(L, G), max(L, G))
        elif op == "X":
            if pre != "n":
                L = G = int(pre); confirmed = False; direction = "stopped"
                if not adv:
                    lo = hi = L
        elif op[0] == "T":
            g = {"TU": 0, "TD": 100}.get(op) if op in ("TU", "TD") else int(op[1:])
            if L is None:
                L = G = g; ts = t; confirmed = True; lo = hi = g
            else:
                L = int(pre); G = g; ts = t; confirmed = False
                direction = "down" if g > L else "up"
                if adv:
                    lo, hi = min(lo, g), max(hi, g)
                else:
                    lo, hi = min(L, g), max(L, g)
        m = check(post, "post")
        if m:
            return m
        if op == "Q" and pre != "n" and not adv and G is not None and pre != post:
            return f"{where}: two queries at the same clock reading gave {pre} then {post}"
        # boolean queries agree with the estimate
        if L is not None and not adv:
            trav = post != str(G)
            exp = "".join("1" if b else "0" for b in (trav, not trav, trav and direction == "up", trav and direction == "down",
                                                       post == "0", post == "100"))
            if fl != exp:
                return f"{where}: is_traveling/position_reached/is_opening/is_closing/is_open/is_closed = {fl}, estimate {post} target {G} says {exp}"
        prev = (post, G)
    return early[0] if early else None


def nontrivial(case, out):
    # some estimate strictly inside an interval (cheap syntactic proxy: a query between two different positions)
    seen = set()
    for tok in out.split(","):
        f = tok.split(";")
        seen.add(f[2]); seen.add(f[3])
    return len(seen - {"n"}) >= 3


def outcome_class(out):
    if "!" in out:
        return "raised"
    n = out.count(",") + 1
    return f"{'len<=8' if n <= 8 else 'len<=40'}"


def finding_key(case, msg):
    if EARLY_KEY in msg:
        return "early-target:int-truncation"
    return ",".join(f"{d}:{o}" for d, o in case["evs"][:10]) + "|" + ",".join(case["tt"])


def shrink(case, msg):
    def fails(c):
        try:
            r = run_impl(c)
            m = oracle(c, r["out"])
            return m is not None and finding_key(c, m) != "early-target:int-truncation"
        except Exception:  # noqa: BLE001
            return False
    if EARLY_KEY in msg:
        return case
    cur = dict(case)
    changed = True
    while changed and len(cur["evs"]) > 1:
        changed = False
        for i in reversed(range(len(cur["evs"]))):
            cand = dict(cur, evs=cur["evs"][:i] + cur["evs"][i + 1:])
            if fails(cand):
                cur = cand
                changed = True
    return cur
