"""C01 Addresses survive text and wire round trips in every notation."""
from __future__ import annotations

import enum

from xknx.exceptions import CouldNotParseAddress
from xknx.telegram.address import (
    GroupAddress,
    GroupAddressType,
    IndividualAddress,
    InternalGroupAddress,
    parse_device_group_address,
)

PROPERTY = "C01"
EXHAUSTIVE = False
EXHAUSTIVE_QUICK = False
RULE = (
    "complete sweep of the 65,536 raw values through GroupAddress(int) and IndividualAddress(int): render in LONG, SHORT, "
    "FREE (class attribute switched and restored), re-parse each rendering, to_knx/from_knx; all 0..2-octet and sampled "
    "3..4-octet from_knx inputs; grammar-directed strings (canonical text with leading zeros, field at max / max+1, "
    "non-ASCII decimal digits, isdigit-but-not-decimal characters, whitespace, trailing newline, signs, underscores, wrong / "
    "extra separators, digit runs around the 4300-digit int limit) and non-string objects (None, float, bytes, bool, IntEnum, "
    "negative / too large ints, address objects of each class) through both constructors, InternalGroupAddress and "
    "parse_device_group_address under a randomly chosen global notation; the int() model on its own. "
    "non-trivial = distinct cases whose outcome is not the plain type rejection of a non-string object"
)
TRUSTED = [
    "model XknxVerif.Model.Address / XknxVerif.Py.Str is hand-written; the regular expressions are mirrored by hand as "
    "'split at the separator, every group 1..k characters of class \\d' (the generated pattern text is pinned by a theorem)",
    "Python's str.isdigit, re \\d, int() digit / whitespace classes, str.isspace, str.lower are taken as tables generated "
    "from the running interpreter (harness/gen/unicode.py); the tables are only as good as that sweep over all code points",
    "strings are modelled as code-point lists; str subclasses overriding isdigit/__str__ and a changed "
    "sys.set_int_max_str_digits are outside the model",
]
CASE_TIMEOUT = 5.0

FMTS = {"LONG": GroupAddressType.LONG, "SHORT": GroupAddressType.SHORT, "FREE": GroupAddressType.FREE}
_ORIG_FMT = GroupAddress.address_format


class _Enum(enum.IntEnum):
    A = 1
    B = 2563
    C = 70000


def tok(s: str) -> str:
    return ".".join(str(ord(c)) for c in s) if s else "-"


def untok(t: str) -> str:
    return "" if t == "-" else "".join(chr(int(x)) for x in t.split("."))


OTHERS = {
    "none": lambda: None,
    "float": lambda: 1.0,
    "float2": lambda: 2563.0,
    "bytes": lambda: b"1/2/3",
    "bytearray": lambda: bytearray(b"\x0a\x03"),
    "list": lambda: [1, 2, 3],
    "tuple": lambda: (1, 2, 3),
    "dict": lambda: {"raw": 1},
    "object": object,
    "complex": lambda: 1j,
    "type": lambda: GroupAddress,
    "fmt": lambda: GroupAddressType.LONG,
}


def build_value(case, t):
    """token -> Python object handed to the constructor"""
    kind, _, rest = t.partition(":")
    if kind == "i":
        n = int(rest)
        how = case.get("as", "int")
        if how == "bool":
            return bool(n)
        if how == "enum":
            return _Enum(n)
        return n
    if kind == "s":
        return untok(rest)
    if kind == "ga":
        return GroupAddress(int(rest))
    if kind == "ia":
        return IndividualAddress(int(rest))
    if kind == "iga":
        a = InternalGroupAddress(untok(rest))  # tokens name the normalised raw text of a constructible object
        assert a.raw == untok(rest)
        return a
    return OTHERS[case.get("obj", "none")]()


def exc_class(e: BaseException) -> str:
    if isinstance(e, CouldNotParseAddress):
        return "err parse"
    return f"err other:{type(e).__name__}"


def clean(s: str) -> str:
    return s.replace(" ", "␠").replace("\n", "␤")


def describe_ga(a: GroupAddress) -> str:
    raw = a.raw
    renders, rt = [], ""
    try:
        for f in FMTS.values():
            GroupAddress.address_format = f
            try:
                s = str(a)
            except Exception as e:  # noqa: BLE001
                s = f"!{type(e).__name__}"
            renders.append(clean(s))
            try:
                b = GroupAddress(s)
                rt += "1" if (b == a and b.raw == raw) else "0"
            except Exception:  # noqa: BLE001
                rt += "0"
    finally:
        GroupAddress.address_format = _ORIG_FMT
    try:
        k = a.to_knx().hex()
        back = GroupAddress.from_knx(bytes.fromhex(k))
        knx = "1" if back == a and back.raw == raw else "0"
    except Exception as e:  # noqa: BLE001
        k, knx = f"!{type(e).__name__}", "0"
    return f"ok {int(raw)} {' '.join(renders)} {k} rt={rt} knx={knx}"


def describe_ia(a: IndividualAddress) -> str:
    raw = a.raw
    s = str(a)
    try:
        b = IndividualAddress(s)
        rt = "1" if (b == a and b.raw == raw) else "0"
    except Exception:  # noqa: BLE001
        rt = "0"
    try:
        k = a.to_knx().hex()
        back = IndividualAddress.from_knx(bytes.fromhex(k))
        knx = "1" if back == a and back.raw == raw else "0"
    except Exception as e:  # noqa: BLE001
        k, knx = f"!{type(e).__name__}", "0"
    return f"ok {int(raw)} {clean(s)} {k} rt={rt} knx={knx}"


def _twice(make, describe):
    """History independence (harness/lib/poison.py): the address is built twice, the first result's attributes are overwritten
    in between; an address class handing out shared mutable instances shows up as `err other:SharedMutableState`."""
    from harness.lib.poison import poison
    try:
        a = make()
    except Exception as e:  # noqa: BLE001
        return exc_class(e)
    first = describe(a)
    poison(a)
    try:
        b = make()
    except Exception as e:  # noqa: BLE001
        return "err other:SharedMutableState:" + type(e).__name__
    second = describe(b)
    return second if second == first else "err other:SharedMutableState"


def run_impl(case):
    t = case["op"].split()
    op = t[1]
    fmt = FMTS[case.get("fmt", "LONG")]
    try:
        if op == "cls":
            ch = chr(int(t[2]))
            import re

            try:
                v = str(int(ch))
            except ValueError:
                v = "-"
            try:
                sp = int(ch + "7") == 7 and int("7" + ch) == 7 and v == "-" and ch not in "+-_"
            except ValueError:
                sp = False
            flags = [ch.isdigit(), re.fullmatch(r"\d", ch) is not None, v != "-", sp, ch.isspace(), ch.lower() == "i"]
            return "".join("1" if f else "0" for f in flags) + " " + v
        if op == "int":
            try:
                return f"ok {int(untok(t[2]))}"
            except ValueError:
                return "err value"
        GroupAddress.address_format = fmt
        if op in ("gaknx", "iaknx"):
            b = b"" if t[2] == "-" else bytes.fromhex(t[2])
            cls = GroupAddress if op == "gaknx" else IndividualAddress
            return _twice(lambda: cls.from_knx(b), describe_ga if op == "gaknx" else describe_ia)
        if op == "ga":
            return _twice(lambda: GroupAddress(build_value(case, t[2])), describe_ga)
        if op == "ia":
            return _twice(lambda: IndividualAddress(build_value(case, t[2])), describe_ia)
        v = build_value(case, t[2])
        if op == "iga":
            try:
                a = InternalGroupAddress(v)
            except Exception as e:  # noqa: BLE001
                return exc_class(e)
            s = str(a)
            try:
                rt = "1" if InternalGroupAddress(s) == a and InternalGroupAddress(s).raw == a.raw else "0"
            except Exception:  # noqa: BLE001
                rt = "0"
            return f"ok {tok(a.raw)} rt={rt}"
        if op == "dev":
            try:
                a = parse_device_group_address(v)
            except Exception as e:  # noqa: BLE001
                return exc_class(e)
            if type(a) is GroupAddress:
                return f"ok ga {int(a.raw)}"
            if type(a) is InternalGroupAddress:
                return f"ok iga {tok(a.raw)}"
            return f"ok ?{type(a).__name__}"
        raise AssertionError(op)
    finally:
        GroupAddress.address_format = _ORIG_FMT


def teardown():
    GroupAddress.address_format = _ORIG_FMT


def oracle(case, out):
    t = case["op"].split()
    op = t[1]
    if op in ("cls", "int"):
        return None  # validation of the Python-semantics tables / int() model only
    if out.startswith("err parse"):
        # an int in range / an address object of the same class must be accepted
        if op in ("ga", "ia") and t[2].startswith("i:") and 0 <= int(t[2][2:]) <= 65535:
            return f"{op}({t[2]}) in range was rejected"
        if op in ("gaknx", "iaknx") and t[2] != "-" and len(t[2]) == 4:
            return f"two octets {t[2]} were rejected"
        return None
    if out.startswith("err other:SharedMutableState"):
        return (f"{op}: building the address again after the first result's attributes were overwritten gives a different address "
                "(address objects share mutable state): text and wire round trips depend on the history")
    if out.startswith("err other:"):
        return f"{op} constructor raised {out[10:]} instead of CouldNotParseAddress"
    f = out.split()
    if op in ("ga", "gaknx", "ia", "iaknx"):
        raw = int(f[1])
        if not 0 <= raw <= 65535:
            return f"accepted address has raw value {raw}"
        if t[2].startswith("i:") and int(t[2][2:]) != raw:
            return f"int {t[2][2:]} became raw {raw}"
        rt = [x for x in f if x.startswith("rt=")][0][3:]
        knx = [x for x in f if x.startswith("knx=")][0][4:]
        hexs = f[-3]
        if "0" in rt:
            names = ["LONG", "SHORT", "FREE"] if op.startswith("ga") else ["dotted"]
            bad = [(names[i], f[2 + i]) for i, c in enumerate(rt) if c == "0"]
            return f"raw {raw}: rendering {bad} does not parse back to the same address"
        if hexs != f"{raw:04x}":
            return f"raw {raw} serialises to {hexs}"
        if knx != "1":
            return f"raw {raw}: to_knx {hexs} does not parse back"
        if op.endswith("knx") and len(t[2]) == 4 and int(t[2], 16) != raw:
            return f"octets {t[2]} parsed to raw {raw}"
        return None
    if op == "iga":
        if f[-1] != "rt=1":
            return f"internal address {f[1]} does not render and parse back to itself"
        return None
    if op == "dev":
        if f[1] == "ga":
            if not 1 <= int(f[2]) <= 65535:
                return f"device group address with raw {f[2]} accepted"
            return None
        if f[1] == "iga":
            return None
        return f"parse_device_group_address returned {f[1]}"
    return None


def nontrivial(case, out):
    return not (case["op"].endswith(" other") or case["op"].split()[1] == "cls")


def finding_key(case, msg):
    op = case["op"]
    if len(op) > 160:
        import hashlib

        op = op[:120] + "#" + hashlib.sha256(op.encode()).hexdigest()[:12]
    extra = case.get("as") or case.get("obj")
    return f"{op} [{extra}]" if extra and extra != "int" else op


def outcome_class(out):
    p = out.split()
    return " ".join(p[:2]) if p[0] == "err" else p[0]


def shrink(case, msg):
    """drop characters of a string argument while the oracle still complains"""
    from harness.framework import with_timeout

    t = case["op"].split()
    if len(t) < 3 or not t[2].startswith("s:"):
        return case
    s = untok(t[2][2:])

    def fails(x):
        c = dict(case, op=f"{t[0]} {t[1]} s:{tok(x)}")
        try:
            o = with_timeout(lambda: run_impl(c), CASE_TIMEOUT)
        except Exception:  # noqa: BLE001
            return None
        return c if oracle(c, o) else None

    best = case
    n = max(1, len(s) // 2)
    while n >= 1 and len(s) > 1:
        i, progressed = 0, False
        while i < len(s):
            cand = s[:i] + s[i + n:]
            c = fails(cand) if cand else None
            if c:
                s, best, progressed = cand, c, True
            else:
                i += n
        if not progressed:
            n //= 2
    return best


# --------------------------------------------------------------------------
# generators
# --------------------------------------------------------------------------

_T = None


def tables():
    global _T
    if _T is None:
        from harness.gen import unicode as U

        _T = U._tables()
    return _T


def nd_digit(rng, v):
    """some Unicode decimal digit with value v"""
    rs = [r for r in tables()["intdigit"] if r[2] <= v <= r[2] + (r[1] - r[0])]
    lo, _hi, v0 = rng.choice(rs)
    return chr(lo + (v - v0))


def fancy_digits(rng, s, p=0.5):
    return "".join(nd_digit(rng, int(c)) if c.isascii() and c.isdigit() and rng.random() < p else c for c in s)


def digit_not_decimal(rng):
    t = tables()
    dec = [(a, b) for a, b, _ in t["intdigit"]]
    while True:
        a, b = rng.choice(t["isdigit"])
        c = rng.randint(a, b)
        if not any(x <= c <= y for x, y in dec):
            return chr(c)


def some_space(rng):
    a, b = rng.choice(tables()["isspace"])
    return chr(rng.randint(a, b))


BOUNDARY_RAW = [0, 1, 255, 256, 2047, 2048, 4095, 4096, 32767, 32768, 65534, 65535]
GA_TEXT_EDGES = ["31/7/255", "32/0/0", "31/8/0", "31/7/256", "31/2047", "31/2048", "32/0", "0/0/0", "0/0", "0", "65535", "65536",
                 "99/9/9", "00/00/0000", "1/2/03", "01/2/3", "001/2/3", "1/002/3", "1/2/00003", "1/02047", "000001", "0/2048", "1/7/255\n",
                 "1/2/3\n\n", "1/2/3\r\n", "\n1/2/3", "1/2/3 ", " 1/2/3", "1 /2/3", "1/2/3/4", "1//3", "/1/2", "1/2/", "/", "//", "",
                 "1.2.3", "1/2.3", "1\\2\\3", "1-2-3", "+1/2/3", "-1/2/3", "1/+2/3", "1_0/2/3", "1/2/1_0", "1_0", "+10", "-10", " 10", "10 ",
                 "10\n", "1e3", "0x10", "0b1", "1.0", "²", "1²", "①/2/3", "1/²/3", "١/٢/٣", "١٢٣", "１/２/３", "1／2／3", "1/2/3\x00",
                 "\x001/2/3", "\ud800", "1/2/\ud800", "i-1", "True", "None", "nan", "१२३४५", "6553６", "००००००65535", "1/2/3 ", "\x1c10", "10\x1f",
                 "١/٢\n", "٣/٤/٥\n", "12/3/045\n"]
IA_TEXT_EDGES = ["15.15.255", "16.0.0", "15.16.0", "15.15.256", "0.0.0", "00.00.000", "1.1.0001", "001.1.1", "1.1.1\n", "1.1.1\n\n",
                 "1.1", "1.1.1.1", "1..1", ".1.1", "1.1.", "1/1/1", "1,1,1", "+1.1.1", "1.1.1 ", " 1.1.1", "1_0.1.1", "١.٢.٣", "1.².3",
                 "１.１.１", "1。1。1", "1.1.1\x00", "99.99.999", "15.15.2５5", "", ".", "..", "4353", "65535", "65536", "٦٥٥٣٥"]
IGA_TEXT_EDGES = ["i-test", "i_test", "itest", "I-test", "I_x", "i", "I", "", "i-", "i_", "i- ", "i-\t\n", "i -x", "i--x", "i-_x", "i__", "ix",
                  "i- x y ", "i- x ", "i-\x1cx\x1f", "i　", "İ-x", "ı-x", "ｉ-x", "j-x", "1-x", "-ix", " i-x", "i-\ud800", "i-1/2/3",
                  "i-*", "i-t?st", "i-[a-z]", "i-²", "i1", "i0", "i-0", "I1/2/3", "i\n", "i-\n"]
INT_EDGES = ["0", "7", "10", "0010", " 1_0 ", "+5", "-5", "--5", "+-5", "+ 5", "1__0", "_1", "1_", "_", "1 2", "", " ", "+", "-", "0x10", "1e3",
             "1.0", "١٢", "٣_4", "1\x001", "\x1c5", "5\x1f", "\t5\n", "\x0b5\x0c", "\xa05 ", " 5", "5　", "²", "1²", "①", "−5", "＋5",
             "1,000", "٠", "०१२", "1_000_000", "٩٩٩٩٩٩٩٩٩٩٩٩٩٩٩٩٩٩٩٩", "+٠_1"]


def ga_text(rng, raw, kind):
    if kind == 0:
        return f"{raw >> 11}/{(raw >> 8) & 7}/{raw & 255}"
    if kind == 1:
        return f"{raw >> 11}/{raw & 2047}"
    return str(raw)


def ia_text(raw):
    return f"{raw >> 12}.{(raw >> 8) & 15}.{raw & 255}"


def pad_zeros(rng, s, seps):
    """leading zeros per field, staying within the regex field widths or not"""
    out, cur = [], ""
    for ch in s + "\0":
        if ch in seps or ch == "\0":
            out.append("0" * rng.choice([0, 0, 1, 1, 2, 3]) + cur)
            if ch != "\0":
                out.append(ch)
            cur = ""
        else:
            cur += ch
    return "".join(out)


def mutate(rng, s, seps):
    """one malformed variant of a well-formed text"""
    k = rng.randrange(16)
    pos = rng.randrange(len(s) + 1)
    if k == 0:
        return s[:pos] + some_space(rng) + s[pos:]
    if k == 1:
        return s[:pos] + rng.choice("+-_") + s[pos:]
    if k == 2:
        return s[:pos] + digit_not_decimal(rng) + s[pos:]
    if k == 3:
        return s[:pos] + rng.choice(seps + "/.,:;-") + s[pos:]
    if k == 4 and s:
        p = rng.randrange(len(s))
        return s[:p] + s[p + 1:]
    if k == 5:
        return s + rng.choice(["\n", "\n\n", "\r", "\r\n", " ", "\x00", " ", "\x85", "\x0b", "\x1c"])
    if k == 6:
        return rng.choice(["\n", " ", "\t", "﻿", "\x00"]) + s
    if k == 7:
        # one field out of range
        parts = s.replace(seps[0], " ").split()
        if parts:
            i = rng.randrange(len(parts))
            parts[i] = str(rng.choice([8, 16, 32, 256, 2048, 65536, 99, 100, 999, 1000, 9999, 10000, 99999]))
            return seps[0].join(parts)
    if k == 8:
        return s[:pos] + chr(rng.choice([0xD800, 0xDFFF, 0x10FFFF, 0xFF0F, 0x2215, 0x2044, 0xFF0E, 0x3002])) + s[pos:]
    if k == 9:
        return s.replace(seps[0], rng.choice([".", "/", "\\", "-", ",", " ", "//", ""]), 1)
    if k == 10:
        return s + seps[0] + str(rng.randrange(300))
    if k == 11:
        return s[:pos] + "0" * rng.choice([3, 4, 5, 10]) + s[pos:]
    if k == 12:
        return s.upper() + rng.choice(["a", "x", "L", "e5", "j"])
    if k == 13:
        return s[:pos] + s[pos:] * 2
    if k == 14:
        return s[::-1] + seps[0]
    return fancy_digits(rng, s, 0.3) + digit_not_decimal(rng)


def long_runs(rng):
    """digit runs around the int-string limit"""
    lim = tables_limit()
    for n in (lim - 1, lim, lim + 1, lim + 700, 640, 641, 5000):
        for d in ("1", "0"):
            yield d * n
        yield "0" * (n - 1) + "7"
        yield "0" * (n - 5) + "65535"
        yield "0" * (n - 5) + "65536"
        yield fancy_digits(rng, "0" * (n - 3) + "123", 0.5)
        yield "1" * (n - 1) + "²"
        yield "1" * n + "/2/3"
        yield "1/2/" + "0" * n
        yield " " + "1" * n
        yield "1" * n + "\n"
        yield "1_" * (n // 2) + "1"


def tables_limit():
    import sys

    return sys.get_int_max_str_digits() or 4300


def str_cases(rng, n):
    """grammar-directed strings through every string entry point"""
    fm = list(FMTS)
    for _ in range(n):
        raw = rng.choice(BOUNDARY_RAW) if rng.random() < 0.15 else rng.randrange(65536)
        fmt = rng.choice(fm)
        r = rng.random()
        which = rng.random()
        if which < 0.6:
            base, seps, op = ga_text(rng, raw, rng.randrange(3)), "/", "ga"
        elif which < 0.9:
            base, seps, op = ia_text(raw), ".", "ia"
        else:
            base, seps, op = "i" + rng.choice(["-", "_", ""]) + rng.choice(["x", "test", "1/2/3", " a b ", "ä€", str(raw)]), "-", "iga"
        if r < 0.25:
            s = base
        elif r < 0.45:
            s = pad_zeros(rng, base, seps)
        elif r < 0.60:
            s = fancy_digits(rng, pad_zeros(rng, base, seps) if rng.random() < 0.3 else base, rng.choice([0.2, 0.5, 1.0]))
        elif r < 0.72:
            s = base + "\n" if rng.random() < 0.5 else fancy_digits(rng, base, 0.5) + "\n"
        else:
            s = mutate(rng, base, seps)
            if rng.random() < 0.2:
                s = mutate(rng, s, seps)
        # send the text to its own constructor mostly, sometimes to the others
        x = rng.random()
        if x < 0.70:
            ops = [op]
        elif x < 0.85:
            ops = ["dev"]
        else:
            ops = [rng.choice(["ga", "ia", "iga", "dev"])]
        for o in ops:
            yield {"op": f"addr {o} s:{tok(s)}", "fmt": fmt}


def object_cases(rng):
    fm = list(FMTS)
    ints = [-1, -65536, 65536, 65537, 2**16, 2**31, 2**64, -(2**64), 10**30, 0, 1, 65535]
    for op in ("ga", "ia", "dev", "iga"):
        for n in ints:
            yield {"op": f"addr {op} i:{n}", "fmt": rng.choice(fm)}
        for b in (0, 1):
            for f in fm:
                yield {"op": f"addr {op} i:{b}", "as": "bool", "fmt": f}
        for m in _Enum:
            yield {"op": f"addr {op} i:{int(m)}", "as": "enum", "fmt": rng.choice(fm)}
        for name in OTHERS:
            yield {"op": f"addr {op} other", "obj": name, "fmt": rng.choice(fm)}
        for raw in [0, 1, 2563, 65535] + [rng.randrange(65536) for _ in range(6)]:
            yield {"op": f"addr {op} ga:{raw}", "fmt": rng.choice(fm)}
            yield {"op": f"addr {op} ia:{raw}", "fmt": rng.choice(fm)}
        for s in ["i-x", "i-1/2/3", "i-7", "i-y z", "i-i-", "i-\xe4\u20ac"]:
            yield {"op": f"addr {op} iga:{tok(s)}", "fmt": rng.choice(fm)}


def generate(rng, tier):
    thorough = tier == "thorough"
    fm = list(FMTS)
    # 1. the complete 16-bit space through both constructors (render x3, re-parse, wire)
    for raw in range(65536):
        yield {"op": f"addr ga i:{raw}"}
        yield {"op": f"addr ia i:{raw}"}
    # 2. wire forms: every 0-, 1-octet input, 2-octet boundary values (the full 2-octet space is the sweep above), longer ones
    yield {"op": "addr gaknx -"}
    yield {"op": "addr iaknx -"}
    for b in range(256):
        yield {"op": f"addr gaknx {b:02x}"}
        yield {"op": f"addr iaknx {b:02x}"}
    two = range(65536) if thorough else BOUNDARY_RAW + [rng.randrange(65536) for _ in range(500)]
    for v in two:
        yield {"op": f"addr gaknx {v:04x}"}
        yield {"op": f"addr iaknx {v:04x}"}
    for _ in range(300):
        n = rng.choice([3, 3, 4, 8])
        bs = bytes([0] * rng.randrange(n)) + rng.randbytes(n)
        bs = bs[:n]
        yield {"op": f"addr {rng.choice(['gaknx', 'iaknx'])} {bs.hex()}"}
    # 3. hand-picked edges through every string entry point
    for s in GA_TEXT_EDGES + IA_TEXT_EDGES + IGA_TEXT_EDGES + INT_EDGES:
        for op in ("ga", "ia", "dev", "iga"):
            yield {"op": f"addr {op} s:{tok(s)}", "fmt": rng.choice(fm)}
        yield {"op": f"addr int {tok(s)}"}
    yield from object_cases(rng)
    # 4. every canonical rendering fed back as text, exhaustively, in a notation other than the one it was written in
    step = 1 if thorough else 1
    for raw in range(0, 65536, step):
        k = raw % 3
        yield {"op": f"addr ga s:{tok(ga_text(rng, raw, k))}", "fmt": fm[(k + 1) % 3]}
        yield {"op": f"addr ia s:{tok(ia_text(raw))}", "fmt": fm[k]}
    # 5. grammar-directed strings
    yield from str_cases(rng, 500000 if thorough else 25000)
    # 6. digit runs around the int() limit
    runs = list(long_runs(rng))
    if not thorough:
        runs = runs[: len(runs) // 2] if rng.random() < 0 else runs
    for s in runs:
        for op in ("ga", "ia") + (("dev", "iga") if thorough else ()):
            yield {"op": f"addr {op} s:{tok(s)}", "fmt": rng.choice(fm)}
        yield {"op": f"addr int {tok(s)}"}
    # 7. the int() model: random literals over the interesting alphabet
    alpha = ["0", "1", "5", "9", "_", "+", "-", " ", "\n", "\t", "\x1c", "\xa0", " ", "٣", "７", "²", "x", ".", "\x00"]
    for _ in range(150000 if thorough else 6000):
        n = rng.choice([1, 2, 3, 4, 5, 8])
        s = "".join(rng.choice(alpha) for _ in range(n))
        if rng.random() < 0.5:
            s = rng.choice(["", " ", "\t"]) + rng.choice(["", "+", "-"]) + "_".join(
                fancy_digits(rng, str(rng.randrange(10 ** rng.randrange(1, 6))), 0.3) for _ in range(rng.randrange(1, 4))) + rng.choice(["", " ", "\n"])
        yield {"op": f"addr int {tok(s)}"}
    # 8. the generated code-point classes: every range boundary +-1 and random points
    pts = set()
    t = tables()
    for key in ("isdigit", "isspace", "intspace", "intdigit", "redigit"):
        for r in t[key]:
            pts.update({max(0, r[0] - 1), r[0], r[1], min(0x10FFFF, r[1] + 1)})
    pts.update(rng.randrange(0x110000) for _ in range(20000 if thorough else 2000))
    pts.update(range(0x300))
    for c in sorted(pts):
        yield {"op": f"addr cls {c}"}
