"""C12 cEMI frame parsing is total with declared errors only."""
import itertools

from harness.lib import cemi_common as cc
from xknx.cemi.const import CEMIMessageCode
from xknx.profile.const import ResourceObjectType

PROPERTY = "C12"
RULE = ("exhaustive: every byte string of length 0..2 (65,793); structured: for every message code, L_Data frames over info length "
        "(0..4 and overrunning), all 16 extended-frame-format values, both address types, every TPCI octet, consistent / off-by-one / zero "
        "NPDU length fields, APDUs from a pool of real service encodings and random bytes, every truncation of a valid frame; M_Prop frames "
        "over lengths 0..10, known/unknown object types, number-of-elements 0/1/15; random frames. "
        "non-trivial = distinct frames that pass the first length check of their message code (or are accepted)")
TRUSTED = ["model XknxVerif.Model.CEMI hand-written; message codes, object types, control-field masks, EFF acceptance table and "
           "NPDU limits are regenerated from the imported modules each run",
           "the model line runs the cEMI model with the APCI model (C04-C06) as its application-layer codec, so the whole "
           "outcome is predicted by Lean; the theorems hold for every APCI codec"]
CASE_TIMEOUT = 2.0


def setup():
    cc.instrument()


def teardown():
    cc.restore()


APDU_POOL = [
    "0000", "0040", "0080", "0081", "00bf", "008012", "0080" + "ab" * 14, "0080" + "cd" * 15, "0080" + "ee" * 40,
    "0100", "0140", "00c01234", "0300", "0340", "03d5" + "00" * 5, "03d7" + "01" * 6, "02c7", "0380", "0381",
    "03f1" + "00" * 10, "03ff", "03c0", "0200", "0240", "0280", "02c0", "01c0", "0180" + "11" * 6,
    "03dc" + "00" * 6, "03dd", "03de" + "00" * 3, "03e0" + "00" * 8, "03f5", "01fb01", "02fb", "03fb",
]


def generate(rng, tier):
    # exhaustive small
    yield {"raw": ""}
    for a in range(256):
        yield {"raw": f"{a:02x}"}
    for a in range(256):
        for b in range(256):
            yield {"raw": f"{a:02x}{b:02x}"}
    codes = sorted({m.value for m in CEMIMessageCode})
    ldata = [0x11, 0x29, 0x2E]
    n = 4000 if tier == "quick" else 60000
    for _ in range(n):
        code = rng.choice(ldata)
        wellformed = rng.random() < 0.7
        ilen_field = rng.choice([0, 0, 0, 1, 2, 4]) if wellformed else rng.choice([0, 1, 4, 200])
        info = bytes(rng.randrange(256) for _ in range(ilen_field if wellformed else min(ilen_field, rng.choice([ilen_field, 1]))))
        eff = 0 if wellformed else rng.choice([0, 0] + list(range(16)))
        at = rng.randrange(2)
        ctrl1 = rng.randrange(256)
        ctrl2 = (at << 7) | (rng.randrange(8) << 4) | eff
        src = rng.choice([0, 0x1101, 0xFFFF, rng.randrange(65536)])
        dst = rng.choice([0, 1, 0x0901, 0xFFFF, rng.randrange(65536)])
        kind = rng.random()
        if kind < (0.8 if wellformed else 0.4):
            apdu = bytes.fromhex(rng.choice(APDU_POOL))
        elif kind < 0.9:
            apdu = bytes([rng.randrange(4)]) + bytes(rng.randrange(256) for _ in range(rng.choice([1, 1, 2, 3, 5, 8, 14, 15, 16, 30])))
        else:
            apdu = bytes([rng.randrange(4)])
        if wellformed:
            if at:
                tp = rng.choice([0, 0, 0, 0x04])
            else:
                tp = rng.choice([0, 0, 0x40, 0x44, 0x7C, 0x80, 0x81, 0xC2, 0xC3, 0xC6, 0xFE, 0xFF])
        else:
            tp = rng.choice([0, 0x40, 0x80, 0x81, 0x82, 0x83, 0xC0, 0xC1, 0xC2, 0x04, 0x08, 0x48, 0x84, rng.randrange(256)])
        if tp & 0x80:
            tpdu = bytes([tp]) if (wellformed or rng.random() < 0.7) else bytes([tp]) + apdu[1:]
        else:
            tpdu = bytes([(apdu[0] & 3) | (tp & 0xFC)]) + apdu[1:]
        nl = len(tpdu) - 1
        if not wellformed:
            nl = max(0, min(255, nl + rng.choice([0, 0, 1, -1, 5]))) if rng.random() < 0.9 else 0
        frame = bytes([code, ilen_field]) + info + bytes([ctrl1, ctrl2]) + src.to_bytes(2, "big") + dst.to_bytes(2, "big") + bytes([nl]) + tpdu
        if not wellformed:
            r = rng.random()
            if r < 0.3:
                frame = frame[: rng.randrange(len(frame) + 1)]
            elif r < 0.4:
                frame += bytes(rng.randrange(256) for _ in range(rng.randrange(1, 4)))
        yield {"raw": frame.hex()}
    # every TPCI octet in a length-consistent frame, for both address types (seed round 4, C12-4: the group-addressed
    # branch of TPCI.resolve was only reached with sequence fields 0/1 in well-formed frames)
    for code in ldata:
        for at in (0, 1):
            for tp in range(256):
                head = bytes([code, 0, 0xBC, (at << 7) | 0x60, 0x11, 0x01, 0x0A, 0x03])
                yield {"raw": (head + bytes([0, tp])).hex()}
                yield {"raw": (head + bytes([1, tp, 0x80])).hex()}
    # every truncation of some valid frames
    for h in ("2900bce011010901010081", "1100b4e000000000020040ff", "2e00b0601101110100c2", "2903010203bce0110109010300801234"):
        b = bytes.fromhex(h)
        for i in range(len(b) + 1):
            yield {"raw": b[:i].hex()}
    # M_Prop frames
    ots = [m.value for m in ResourceObjectType] + [0x000C, 0x0014, 0xFFFF]
    for code in (0xFC, 0xFB, 0xF6, 0xF5, 0xF7):
        for ln in range(0, 11):
            for ot in (0, 8, 11, 0x000C, 0xFFFF):
                for noe in (0, 1, 15):
                    body = (ot.to_bytes(2, "big") + bytes([1, 52, (noe << 4) | 0, 1, 7, 9, 9, 9]))[:ln]
                    yield {"raw": (bytes([code]) + body).hex()}
    for _ in range(n // 4):
        code = rng.choice([0xFC, 0xFB, 0xF6, 0xF5, 0xF7])
        ot = rng.choice(ots)
        body = ot.to_bytes(2, "big") + bytes(rng.randrange(256) for _ in range(rng.choice([4, 4, 5, 5, 6, 3, 10])))
        yield {"raw": (bytes([code]) + body).hex()}
    # other codes and random
    for code in codes + [0, 1, 0x12, 0xFA, 0xFD, 0xFF]:
        for ln in (0, 1, 5, 12):
            yield {"raw": (bytes([code]) + bytes(rng.randrange(256) for _ in range(ln))).hex()}
    for _ in range(n // 2):
        yield {"raw": bytes(rng.randrange(256) for _ in range(rng.randrange(0, 24))).hex()}


def run_impl(case):
    raw = bytes.fromhex(case["raw"])
    out, _fr, tag = cc.parse(raw)
    # the full model: cEMI model with the APCI model as its application-layer codec (no input from the implementation)
    return {"out": out, "line": f"cemifull parse {case['raw'] or '-'}"}


def oracle(case, out):
    if out.startswith("other:"):
        return f"CEMIFrame.from_knx raised {out[6:]} (neither a cEMI parse error nor an unsupported-message error)"
    return None


def finding_key(case, msg):
    return "cemi parse " + (case["raw"] or "-")


def nontrivial(case, out):
    return out.startswith("ok") or len(case["raw"]) >= 20


def outcome_class(out):
    t = out.split()
    return " ".join(t[:1] + t[3:4]) if t[0] == "ok" else t[0]
