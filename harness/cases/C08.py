"""C08 Every decoded datapoint value re-encodes to a payload with the same meaning.

One case = one DPT class x one block of payloads.  Per payload the implementation
is run through  p -> from_knx -> v -> to_knx -> p' -> from_knx -> v'.  The outcome
lists, per accepted payload, the canonical value (and p', v' when they differ from
p, v); the Lean model must reproduce the line exactly (values bit for bit).
"""
from harness import dptlib as D
from harness.cases.C07 import payload_specs

import copy

from harness.lib.poison import poison
PROPERTY = "C08"
MODULES = ["XknxVerif.Props.C08"]
DRIVE_PROCS = 8
CASE_TIMEOUT = 20.0
RULE = ("every concrete DPT class x {all 64 DPTBinary values, all 256 one-octet arrays, all 65536 two-octet arrays for classes with a "
        "2-octet payload, for 3..14-octet classes every octet value in every position over two base patterns + 3000 (quick) / 20000 "
        "(thorough) random payloads, a few wrong-length payloads}; per payload p accepted by from_knx: v=from_knx(p), p'=to_knx(v), "
        "v'=from_knx(p'); non-trivial = blocks containing at least one accepted payload")
TRUSTED = ["model XknxVerif.Model.DPT.* is hand-written and parameterised by Generated/DPTTable.lean; float arithmetic is mirrored by "
           "XknxVerif.Py.SoftFloat, validated bit-exactly against CPython by this correspondence run",
           "text families: the property's documented exception (undecodable bytes come back as '?') is applied by the oracle: "
           "U+FFFD in the decoded text is compared as '?' after re-encoding"]
EXHAUSTIVE_QUICK = False

_stats = {"payloads": 0, "accepted": 0, "classes": set()}


def generate(rng, tier):
    # hypotheses of the partial theorems (numeric cores of DPT 8 / DPT 9 over all 65536 words), evaluated by the compiled model
    for k in range(256):
        yield {"op": f"dpt core f16 {k}"}
        yield {"op": f"dpt core s16 {k}"}
    for cls in D.CLASSES:
        name = cls.__name__
        full2 = D.kind(cls) == "a" and cls.payload_length == 2
        for spec in payload_specs(cls, rng, tier, two_octet_full=full2, block=512, light_wrong=True):
            yield {"op": f"dpt rt {name} {spec}"}


def expected_redecode(cls, v):
    """The value the property expects after re-encoding: v itself, except the documented '?' replacement of text types."""
    if isinstance(v, str):
        return v.replace("\ufffd", "?")
    return v


def roundtrip(cls, k, data):
    """-> (token, violation | None)"""
    p = D.mk_payload(k, data)
    st, v = D.decode(cls, p)
    if st != "ok":
        return ("r" if st in ("parse", "conv") else st), None
    cv = D.canon(v)
    st2, p2 = D.encode(cls, v)
    if st2 != "ok":
        return f"{cv}>{st2}", f"decoded value {v!r} is refused by to_knx ({st2})"
    nan32 = D.FAM[cls.__name__] == "f32"
    cp2 = D.payload_canon(p2, nan32)
    # history independence (harness/lib/poison.py): the first decoded value is overwritten before the payload is decoded again
    v, spoiled = copy.deepcopy(v), v
    poison(spoiled)
    st3, v2 = D.decode(cls, p2)
    if st3 != "ok":
        return f"{cv}>{cp2}>{st3}", f"decoded value {v!r} re-encodes to {cp2} which from_knx refuses ({st3})"
    cv2 = D.canon(v2)
    tok = cv if (cp2 == D.payload_canon(p, nan32) and cv2 == cv) else f"{cv}>{cp2}>{cv2}"
    if not D.same_value(expected_redecode(cls, v), v2):
        return tok, f"decodes to {v!r}, re-encodes to {cp2}, which decodes to {v2!r}"
    if type(p2) is not cls.payload_type:
        return tok, f"re-encoded payload {cp2} is not a {cls.payload_type.__name__}"
    return tok, None


def run_impl(case):
    _, _op, name, spec = case["op"].split(" ")
    if _op == "core":
        return {"out": "core", "expect": "true"}
    cls = D.BY_NAME[name]
    toks, first = [], None
    for k, data in D.expand(spec):
        tok, bad = roundtrip(cls, k, data)
        toks.append(tok)
        if tok != "r":
            _stats["accepted"] += 1
        if (bad or tok.startswith("other:")) and first is None:
            first = (D.spec_single(k, data), bad or f"from_knx raised {tok}")
    _stats["payloads"] += len(toks)
    _stats["classes"].add(name)
    r = D.rle(toks)
    if first:
        return {"out": f"{r} !{first[0]} !{first[1]}", "expect": r}
    return {"out": r, "expect": r}


def oracle(case, out):
    if " !" in out:
        _, first, why = out.split(" !", 2)
        name = case["op"].split(" ")[2]
        return f"{name}: payload {first} {why}"
    return None


def nontrivial(case, out):
    if out == "core":
        return True
    return out.split(" !")[0] not in ("-",) and not all(t.startswith("r*") for t in out.split(" !")[0].split(","))


def shrink(case, msg):
    if " core " in case["op"]:
        return case
    res = run_impl(case)
    if " !" in res["out"]:
        first = res["out"].split(" !")[1]
        parts = case["op"].split(" ")
        return {"op": " ".join(parts[:3] + [first])}
    return case


def finding_key(case, msg):
    parts = case["op"].split(" ")
    return f"{parts[1]} {parts[2]}"


def outcome_class(out):
    body = out.split(" !")[0]
    if " !" in out:
        return "violation"
    if out == "core":
        return "model-core"
    return "all-rejected" if all(t.startswith("r*") for t in body.split(",")) else "accepted"


def evidence_extra():
    unm = sorted({f"{c.__name__}:{D.FAM[c.__name__]}" for c in D.CLASSES if D.FAM[c.__name__].startswith("unmodelled")})
    return {"payload_evaluations": _stats["payloads"], "payloads_accepted_and_round_tripped": _stats["accepted"],
            "classes_covered": len(_stats["classes"]), "classes_total": len(D.CLASSES), "unmodelled_classes": unm}
