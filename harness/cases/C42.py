"""C42 Timed resets and press counters behave as configured (mode R, virtual time).

A case configures ONE real device (Switch or BinarySensor) on a real XKNX with a stub interface on the
virtual-time loop and replays a telegram history:
  events: [op, value, gap_us]   op in tw (GroupValueWrite in) / tr (GroupValueResponse in) /
                                api (Switch.set_on / set_off) / q (sample only) /
                                ig  a telegram the device must ignore; value = index into IGNORED (undecodable payloads
                                    as write or response, GroupValueRead)
The harness lets the loop go quiescent before each injection (timers due at t fire before an input at t),
records inputs, device callbacks (state, counter), bus writes of the Switch and a state sample after every
event, all with virtual times in µs.  The Lean monitor `c42 monitor` must accept the trace; `oracle`
restates the property on the trace without the model.
"""
from harness import devsim
from harness.devsim import GRID
from xknx.devices import BinarySensor, Switch
from xknx.dpt import DPTArray, DPTBinary
from xknx.telegram.apci import GroupValueWrite

PROPERTY = "C42"
RULE = ("on/off telegram histories (<=25 telegrams; GroupValueWrite/Response, Switch API calls, extra samples, 15% telegrams the device "
        "must ignore: 7 undecodable payloads as write/response and GroupValueRead) with gaps from "
        "{0, 1/64 s, R-e, R, R+e, C-e, C, C+e, R/2, C/2, 3R, 3C, |R-C|} (e = 1/64 s) x device in {Switch, BinarySensor} x "
        "reset_after in {None, 0, 0.5 s, 1 s, 2 s} x context_timeout in {0, 0.25 s, 0.5 s, 1 s} x ignore_internal_state x "
        "always_callback x invert; fixed scripts for every configuration first. non-trivial = at least one timer fired "
        "(an output or state change not at the time of an input)")
TRUSTED = ["model XknxVerif.Model.BinaryTimers is a hand-written monitor; tied to switch.py/binary_sensor.py by trace acceptance on every run",
           "harness/vloop.py + harness/devsim.py: virtual clock (time.time patched to it), stub KNX/IP interface confirming every frame at once, rate_limit=0",
           "timer-first discipline: the harness yields until the loop is quiescent before injecting; an input processed at the very instant "
           "a timer is due but before it fires is not generated"]
CASE_TIMEOUT = 10.0
GA = "1/2/3"

# telegrams on the device's group address that must change nothing: RemoteValueSwitch decodes only payload value 0 / 1
IGNORED = [("write", DPTArray((1, 2, 3))), ("write", DPTBinary(3)), ("write", DPTArray((1,))), ("write", DPTArray((0,))),
           ("response", DPTArray((1,))), ("response", DPTBinary(63)), ("response", DPTArray(())), ("read", None)]

RESETS = [None, 0, 500_000, 1_000_000, 2_000_000]
CTXS = [0, 250_000, 500_000, 1_000_000]
E = GRID


def cfg_str(case):
    r = "-" if case["reset"] is None else case["reset"]
    return f"{case['kind']}:{r}:{case['ctx']}:{int(case['ign'])}:{int(case['always'])}"


def mk(kind, reset, ctx=0, ign=False, always=False, invert=False, events=()):
    return {"kind": kind, "reset": reset, "ctx": ctx, "ign": ign, "always": always, "invert": invert,
            "events": [list(e) for e in events]}


def gaps_for(reset, ctx):
    g = {0, E, 2 * E, 125_000}
    for x in (reset, ctx):
        if x:
            g |= {x - E, x, x + E, x // 2, 3 * x, x + x // 2}
    if reset and ctx:
        g |= {abs(reset - ctx), reset + ctx, reset + ctx // 2, reset + ctx - E}
    return sorted(v for v in g if v >= 0 and v % E == 0)


def scripts(kind, reset, ctx):
    R = reset if reset is not None else 1_000_000
    C = ctx or 500_000
    tel = "tw"
    yield [[tel, 1, 0], ["q", 0, R - E], ["q", 0, E], ["q", 0, E], [tel, 1, R], [tel, 1, R - E], [tel, 1, R], ["q", 0, 3 * R + E]]
    yield [[tel, 1, 0], [tel, 0, R // 2], ["q", 0, R // 2], ["tr", 1, E], ["tr", 1, R + E], ["tr", 0, E], ["tr", 1, 0], ["q", 0, 3 * R]]
    yield [[tel, 1, 0], [tel, 1, C - E], [tel, 0, C - E], [tel, 1, 0], [tel, 1, C], [tel, 0, C + E], [tel, 0, E], ["q", 0, 3 * C + 3 * R]]
    # telegrams that must be ignored, inside and outside the reset window / the counter window
    yield [[tel, 1, 0], ["ig", 0, R // 2], ["ig", 1, R // 2 - E], ["q", 0, E], ["ig", 7, E], [tel, 1, R], ["ig", 2, E], ["ig", 4, R - 2 * E],
           ["q", 0, E], ["ig", 5, 0], ["q", 0, 3 * R]]
    yield [[tel, 1, 0], ["ig", 3, C - E], [tel, 1, E], ["ig", 6, C // 2], ["ig", 0, C // 2], ["q", 0, E], [tel, 0, 3 * C], ["ig", 1, E],
           ["tr", 1, C + E], ["ig", 7, C - E], ["q", 0, 3 * C + 3 * R]]
    if kind == "s":
        yield [["api", 1, 0], ["api", 1, R - E], ["api", 0, E], ["q", 0, R], ["api", 1, 0], [tel, 0, R // 2], ["q", 0, R], ["api", 0, 0], ["q", 0, R]]


def generate(rng, tier):
    # every configuration through the fixed scripts
    for kind in ("s", "b"):
        for reset in RESETS:
            for ctx in (CTXS if kind == "b" else [0]):
                for ign, always in ((False, False), (True, False), (False, True), (True, True)) if kind == "b" else ((False, False),):
                    for sc in scripts(kind, reset, ctx):
                        yield mk(kind, reset, ctx, ign, always, False, sc)
    n = 3000 if tier == "quick" else 60000
    for i in range(n):
        kind = "s" if rng.random() < 0.3 else "b"
        reset = rng.choice(RESETS if rng.random() < 0.8 else [None])
        ctx = 0
        ign = always = False
        mode = "mixed"
        if kind == "b":
            r = rng.random()
            if r < 0.45:
                ctx = rng.choice(CTXS[1:])
                # the counter clause of the property in its pure form: write telegrams only
                mode = "writes" if rng.random() < 0.7 else "mixed"
                if rng.random() < 0.5:
                    reset = None
            ign = rng.random() < 0.3
            always = rng.random() < 0.3
        gaps = gaps_for(reset, ctx)
        evs = []
        for _ in range(rng.randint(1, 25)):
            r = rng.random()
            if rng.random() < 0.15:
                evs.append(["ig", rng.randrange(len(IGNORED)), rng.choice(gaps) if rng.random() < 0.9 else rng.randrange(0, 200) * E])
                continue
            if kind == "s" and r < 0.25:
                op = "api"
            elif r < 0.12:
                op = "q"
            elif mode == "mixed" and r < 0.4:
                op = "tr"
            else:
                op = "tw"
            v = 1 if rng.random() < (0.65 if reset is not None else 0.5) else 0
            evs.append([op, v, rng.choice(gaps) if rng.random() < 0.9 else rng.randrange(0, 200) * E])
        evs.append(["q", 0, 3 * max(reset or 0, ctx, E) + E])
        yield mk(kind, reset, ctx, ign, always, rng.random() < 0.15, evs)


# ----------------------------------------------------------------------------------------------
# implementation run
# ----------------------------------------------------------------------------------------------

def _st(v):
    return 2 if v is None else int(bool(v))


async def _scenario(sim, case):
    xknx = sim.xknx
    inv = case["invert"]
    reset = devsim.secs(case["reset"])

    def cb(dev):
        sim.rec("cb", _st(dev.state), getattr(dev, "counter", None) or 0, sim.now())

    if case["kind"] == "s":
        dev = Switch(xknx, "dev", group_address=GA, reset_after=reset, invert=inv, device_updated_cb=cb)

        def on_bus(cemi):
            p = cemi.data.payload
            if isinstance(p, GroupValueWrite):
                sim.rec("bw", int(bool(p.value.value) != inv), sim.now())
            else:
                sim.rec("bus-other", type(p).__name__, sim.now())
        sim.on_bus = on_bus
    else:
        dev = BinarySensor(xknx, "dev", group_address_state=GA, invert=inv, sync_state=False,
                           ignore_internal_state=case["ign"], reset_after=reset,
                           context_timeout=devsim.secs(case["ctx"]) or None,
                           always_callback=case["always"], device_updated_cb=cb)
        sim.on_bus = lambda cemi: sim.rec("bus-other", type(cemi.data.payload).__name__, sim.now())
    xknx.devices.async_add(dev)
    await sim.start()
    t = 0
    for op, v, gap in case["events"]:
        t += gap
        await sim.sleep_until(t)
        if op in ("tw", "tr"):
            sim.rec(op, v, sim.now())
            sim.incoming(GA, DPTBinary(int(bool(v) != inv)), "write" if op == "tw" else "response")
        elif op == "api":
            sim.rec(op, v, sim.now())
            await (dev.set_on() if v else dev.set_off())
        elif op == "ig":
            kind, payload = IGNORED[v % len(IGNORED)]
            sim.rec("ig", sim.now())
            sim.incoming(GA, payload, kind)
        await sim.loop.settle()
        sim.rec("q", _st(dev.state), getattr(dev, "counter", None) or 0, sim.now())
    await sim.loop.settle()
    sim.rec("fin", sim.now())


TIES_NOT_REPLAYED = [0]


def _ambiguous_tie(case, trace):
    """Reset timer and context timer due at the same instant while BOTH firings are observable (always_callback, device
    already off, last telegram a response): three callbacks at one instant.  Which timer ran first decides whether the
    trace reads (n, n, 0) or (n, 0, 0); the deterministic monitor commits to one reading, so such a trace is checked by the
    oracle only (counted in the evidence)."""
    if not (case["kind"] == "b" and case["always"] and case["ctx"] and case["reset"] is not None):
        return False
    times = {}
    for tok in trace:
        f = tok.split(",")
        if f[0] == "cb":
            times[f[3]] = times.get(f[3], 0) + 1
    return any(n >= 3 for n in times.values())


def run_impl(case):
    trace, errors = devsim.run(_scenario, case)
    s = ";".join(trace + [f"err,{e}" for e in errors])
    if not errors and _ambiguous_tie(case, trace):
        TIES_NOT_REPLAYED[0] += 1
        return {"out": s, "line": None}
    return {"out": s, "line": f"c42 monitor {cfg_str(case)} {s or '-'}", "expect": "accept"}


def evidence_extra():
    return {"ambiguous_timer_ties_checked_by_oracle_only": TIES_NOT_REPLAYED[0]}


# ----------------------------------------------------------------------------------------------
# the property on the trace (no model)
# ----------------------------------------------------------------------------------------------

def parse(out):
    evs = []
    for tok in out.split(";"):
        f = tok.split(",")
        evs.append([f[0]] + [int(x) if x.lstrip("-").isdigit() else x for x in f[1:]])
    return evs


def ev_time(e):
    return e[-1]


def oracle(case, out):
    evs = parse(out)
    for e in evs:
        if e[0] == "err":
            return f"device code raised {e[1]} (only logged by xknx)"
        if e[0] == "bus-other":
            return f"unexpected frame on the bus: {e[1]}"
    R, C, kind = case["reset"], case["ctx"], case["kind"]
    end = ev_time(evs[-1])
    inputs = [e for e in evs if e[0] in ("tw", "tr", "api")]
    on_inputs = [e for e in inputs if e[1] == 1]
    # times must be monotone
    for a, b in zip(evs, evs[1:]):
        if ev_time(b) < ev_time(a):
            return "trace times not monotone (harness)"
    if R is not None:
        m = _oracle_reset(evs, on_inputs, R, kind, C, end)
        if m:
            return m
    else:
        # no reset time configured: nothing but telegrams may switch the device off
        cur = None
        for e in evs:
            if e[0] in ("tw", "tr", "api"):
                cur = None
            elif e[0] in ("q", "cb"):
                if cur == 1 and e[1] != 1:
                    return f"device without reset_after left 'on' at t={ev_time(e)} without a telegram"
                cur = e[1]
        if any(e[0] == "bw" for e in evs) and kind == "s":
            apis = [(e[1], e[2]) for e in evs if e[0] == "api"]
            bws = [(e[1], e[2]) for e in evs if e[0] == "bw"]
            if sorted(apis) != sorted(bws):
                return f"bus writes {bws} do not match the API calls {apis}"
    if kind == "b" and C:
        m = _oracle_counter(case, evs, R, C, end)
        if m:
            return m
    return None


def _oracle_reset(evs, on_inputs, R, kind, C, end):
    # (1) never off early: once an 'on' telegram left the device on, it stays on until R after the LAST 'on'
    #     telegram unless an 'off' telegram/API call arrives.  (2) never on at/after R after the last 'on' telegram.
    on_until = None      # deadline while the device is known to be on
    last_on = None       # time of the last on-input of any kind
    pend_on = None       # an on-input whose following sample decides whether the device went on
    for e in evs:
        k, t = e[0], ev_time(e)
        if on_until is not None and t >= on_until:
            on_until = None      # the deadline has passed (timers due at t fire before anything else at t)
        if k in ("tw", "tr", "api"):
            if e[1] == 1:
                last_on = t
                pend_on = t
                if on_until is not None:
                    on_until = t + R   # a later 'on' restarts the timer
            else:
                on_until = None
                pend_on = None
        elif k in ("q", "cb"):
            s = e[1]
            if on_until is not None and t < on_until and s != 1:
                return f"device reports state {s} at t={t}, before the reset time {on_until} (last 'on' at {on_until - R}, reset_after={R})"
            if last_on is not None and t >= last_on + R and s == 1 and k == "q":
                return f"device still 'on' at t={t}; last 'on' telegram at {last_on}, reset_after={R}"
            if k == "q" and pend_on is not None:
                if s == 1 and t < pend_on + R:
                    on_until = pend_on + R
                pend_on = None
    if kind == "s":
        # (3) the Switch reports 'off' on the bus at exactly R after the last 'on', and only then
        expected = []
        ons = [e[2] for e in on_inputs]
        for i, t0 in enumerate(ons):
            nxt = ons[i + 1] if i + 1 < len(ons) else None
            if (nxt is None or nxt >= t0 + R) and t0 + R <= end:
                expected.append(t0 + R)
        api_off = [e[2] for e in evs if e[0] == "api" and e[1] == 0]
        bw_off = sorted(e[2] for e in evs if e[0] == "bw" and e[1] == 0)
        if bw_off != sorted(expected + api_off):
            return (f"Switch 'off' bus writes at {bw_off}; the property wants one at each (last 'on' + reset_after) = {sorted(expected)} "
                    f"plus the set_off() calls at {api_off}")
        bw_on = sorted(e[2] for e in evs if e[0] == "bw" and e[1] == 1)
        if bw_on != sorted(e[2] for e in evs if e[0] == "api" and e[1] == 1):
            return f"Switch 'on' bus writes at {bw_on} without matching set_on() calls"
    elif not C:
        # (3') sensor without context window: the off transition is reported by a callback at exactly the deadline
        on_until = None
        pend_on = None
        for i, e in enumerate(evs):
            k, t = e[0], ev_time(e)
            if on_until is not None and t > on_until:
                return f"no 'off' callback at the reset time {on_until}"
            if k in ("tw", "tr"):
                if e[1] == 1:
                    pend_on = t
                    if on_until is not None:
                        on_until = t + R
                else:
                    on_until = None
                    pend_on = None
            elif k == "cb" and on_until is not None and t == on_until and e[1] == 0:
                on_until = None
            elif k == "q" and pend_on is not None:
                if e[1] == 1 and t < pend_on + R:
                    on_until = pend_on + R
                pend_on = None
    return None


def _oracle_counter(case, evs, R, C, end):
    """Reference for the counter clause, computed from the telegram history alone.

    Counted events = the write telegrams and (if a reset time is configured too) each timed reset as an 'off' event.
    The counter shown for state v after an event = number of v-events in the current burst (maximal run of most recent
    events whose successive gaps are < C); the window closes C after the last event: two callbacks, counters back to 0.
    """
    if any(e[0] == "tr" for e in evs):
        # weak form for histories with responses: a sample right after a write telegram counts at least that telegram
        for i, e in enumerate(evs):
            if e[0] == "tw":
                qs = [x for x in evs[i + 1:] if x[0] == "q"]
                if qs and qs[0][3] == ev_time(e) and qs[0][2] < 1 and not (R == 0 and e[1] == 1):
                    return f"counter {qs[0][2]} right after a telegram at t={ev_time(e)}"
        return None
    events = []          # counted events (time, state, is_reset)
    pending_reset = None

    def count_last():
        n, v, j = 0, events[-1][1], len(events) - 1
        while True:
            if events[j][1] == v:
                n += 1
            if j == 0 or events[j][0] - events[j - 1][0] >= C:
                break
            j -= 1
        return n

    def fire_resets(t):
        nonlocal pending_reset
        if pending_reset is not None and pending_reset <= t:
            events.append((pending_reset, 0, True))
            pending_reset = None

    for e in evs:
        k, t = e[0], ev_time(e)
        fire_resets(t)
        if k == "tw":
            events.append((t, e[1], False))
            if R is not None and e[1] == 1:
                pending_reset = t + R
        elif k == "q" and events:
            lt, lv, _ = events[-1]
            want_state = lv
            want = count_last() if t < lt + C else 0
            if e[1] != want_state:
                return f"state {e[1]} sampled at t={t}; last counted event was {lv} at t={lt}"
            if e[2] != want:
                return (f"counter {e[2]} sampled at t={t} for state {lv}: {want} same-state telegrams arrived within {C} us of "
                        f"each other (counted events: {[(x[0], x[1]) for x in events[-6:]]})")
    fire_resets(end)
    # bursts close C after their last event: exactly two callbacks there (counter value, then 0) -- unless the reset timer and
    # the context timer are due at the same instant, whose order the property does not fix
    if any(b[2] and b[0] - a[0] == C for a, b in zip(events, events[1:])):
        return None
    want = []
    for k, (t, v, _) in enumerate(events):
        nxt = events[k + 1][0] if k + 1 < len(events) else None
        if (nxt is None or nxt >= t + C) and t + C <= end:
            n, j = 0, k
            while True:
                if events[j][1] == v:
                    n += 1
                if j == 0 or events[j][0] - events[j - 1][0] >= C:
                    break
                j -= 1
            want.append((t + C, v, n))
            want.append((t + C, v, 0))
    got = sorted((e[3], e[1], e[2]) for e in evs if e[0] == "cb")
    if got != sorted(want):
        return f"context callbacks (time, state, counter) {got}; one pair per burst wanted: {sorted(want)}"
    return None


def nontrivial(case, out):
    evs = parse(out)
    in_times = {ev_time(e) for e in evs if e[0] in ("tw", "tr", "api")}
    return any(e[0] in ("cb", "bw") and ev_time(e) not in in_times for e in evs)


def outcome_class(out):
    evs = parse(out)
    k = "timer" if nontrivial(None, out) else "plain"
    return f"{k}:{min(len(evs) // 10, 9)}0+"


def finding_key(case, msg):
    return cfg_str(case) + " " + ";".join(f"{o},{v},{g}" for o, v, g in case["events"])


def shrink(case, msg):
    """Delta-debug the event list, keeping the violation class (first three words of the message)."""
    def fails(c):
        try:
            m = oracle(c, run_impl(c)["out"])
        except Exception:  # noqa: BLE001
            return False
        return bool(m) and m.split()[:3] == msg.split()[:3]
    cur = dict(case)
    changed = True
    while changed:
        changed = False
        for i in range(len(cur["events"])):
            evs = cur["events"]
            cand = dict(cur)
            # removing an event keeps the absolute times of the later ones
            nxt = [list(e) for e in evs[:i] + evs[i + 1:]]
            if i < len(evs) - 1:
                nxt[i][2] += evs[i][2]
            cand["events"] = nxt
            if nxt and fails(cand):
                cur = cand
                changed = True
                break
    return cur
