"""C45 MCP tools: JSON-native results, encode/decode inversion, page-by-page listing."""
import asyncio
import dataclasses
import json

from xknx.dpt import DPTBase
from xknx.mcp import tools
from xknx.mcp.types import DptFilter

PROPERTY = "C45"
RULE = ("paginate: exhaustive n in 0..8 x limit in -2..10 x offset in -10..10 through _paginate; list: generated filters (main numbers "
        "present/absent, needles cut from real value types/units/numbers in mixed case) x page sizes {1,2,3,7,50,230,1000,-1} x offsets; "
        "walk: client following next_offset from 0 to exhaustion for every generated filter and page size >= 1 and -1, compared with an "
        "independent naive scan of the class tree; every tool result is passed through json.dumps(dataclasses.asdict(result)) with no custom "
        "encoder. non-trivial = distinct op lines whose result is not the empty list")
TRUSTED = ["model XknxVerif.Model.MCP hand-written; the DPT class tree (numbers, main/sub, haystacks, iteration order) is regenerated from DPTBase.dpt_class_tree() each run",
           "str.lower() is modelled for ASCII only; needles are restricted to characters on which it agrees with Python"]
ASSUMPTIONS = ["page size 0 is not a page size: list_dpts(limit=0) reports next_offset == offset (proved never to advance: walk_zero_never_advances); excluded from the paging statement, see DESIGN.md C45"]

_loop = None
_tree = None
_fragments = None


def setup():
    global _loop, _tree, _fragments
    _loop = asyncio.new_event_loop()
    _tree = list(DPTBase.dpt_class_tree())
    frags = set()
    for d in _tree:
        for s in (d.dpt_number_str(), d.value_type or "", d.unit or ""):
            s = "".join(ch for ch in s if ord(ch) < 128 or ch in "°µ²³")
            for i in range(0, max(1, len(s) - 2), 3):
                frags.add(s[i:i + 1 + (i % 4)])
            if s:
                frags.add(s)
    _fragments = sorted(f for f in frags if f)


def teardown():
    _loop.close()


def hexs(s):
    return "none" if s is None else ("-" if s == "" else "".join(f"{ord(c):02x}" for c in s))


def generate(rng, tier):
    for n in range(0, 9):
        for lim in range(-2, 11):
            for off in range(-10, 11):
                yield {"op": f"c45 paginate {n} {lim} {off}"}
    mains = sorted({d.dpt_main_number for d in _tree}) + [0, 15, 999]
    nfilters = 150 if tier == "quick" else 2500
    for _ in range(nfilters):
        main = rng.choice(mains) if rng.random() < 0.5 else None
        needle = None
        if rng.random() < 0.6:
            needle = rng.choice(_fragments)
            needle = "".join(c.upper() if rng.random() < 0.3 else c for c in needle)
            if rng.random() < 0.1:
                needle += rng.choice(["x", "\n", " ", "."])
        m = "-" if main is None else str(main)
        for lim in (1, 2, 3, 7, 50, 230, 1000, -1):
            yield {"op": f"c45 walk {m} {hexs(needle)} {lim}", "main": main, "needle": needle}
        for _ in range(3):
            lim = rng.choice([0, 1, 2, 3, 7, 50, 230, 1000, -1, -5])
            off = rng.choice([0, 0, 1, 2, 5, 100, 229, 230, 231, 500, -1, -3, -300])
            yield {"op": f"c45 list {m} {hexs(needle)} {lim} {off}", "main": main, "needle": needle}


def jsonable(result):
    return json.loads(json.dumps(dataclasses.asdict(result)))


def call_list(main, needle, lim, off):
    res = _loop.run_until_complete(tools.list_dpts(DptFilter(main=main, text=needle, limit=lim, offset=off)))
    return res


def run_impl(case):
    t = case["op"].split()
    if t[1] == "paginate":
        n, lim, off = int(t[2]), int(t[3]), int(t[4])
        w, r = tools._paginate(list(range(n)), lim, off)
        nx = off + len(w) if r else None
        return f"{','.join(map(str, w)) or '-'} {int(r)} {'none' if nx is None else nx}"
    main, needle = case["main"], case["needle"]
    if t[1] == "list":
        res = call_list(main, needle, int(t[4]), int(t[5]))
        try:
            j = jsonable(res)
        except (TypeError, ValueError) as e:
            return f"notjson {type(e).__name__}"
        nums = [d["dpt"] for d in j["dpts"]]
        assert j["offset"] == int(t[5])
        return f"{','.join(nums) or '-'} {j['total_count']} {'none' if j['next_offset'] is None else j['next_offset']} {int(j['limit_reached'])}"
    if t[1] == "walk":
        lim = int(t[4])
        off, nums, pages = 0, [], 0
        total = None
        while off is not None and pages < 2 * len(_tree) + 5:
            res = call_list(main, needle, lim, off)
            try:
                j = jsonable(res)
            except (TypeError, ValueError) as e:
                return f"notjson {type(e).__name__}"
            nums += [d["dpt"] for d in j["dpts"]]
            pages += 1
            total = j["total_count"]
            off = j["next_offset"]
        case["_total"] = total
        return f"{','.join(nums) or '-'} {pages}"
    raise ValueError(case["op"])


def naive_matches(main, needle):
    out = []
    for d in _tree:
        if main is not None and d.dpt_main_number != main:
            continue
        if needle is not None and needle != "":
            hay = "\n".join([d.dpt_number_str(), d.value_type or "", d.unit or ""]).lower()
            if needle.lower() not in hay:
                continue
        out.append(d.dpt_number_str())
    return out


def oracle(case, out):
    t = case["op"].split()
    if out.startswith("notjson"):
        return f"tool result is not serialisable by the standard JSON encoder: {out}"
    if t[1] == "walk":
        lim = int(t[4])
        nums = [] if out.split()[0] == "-" else out.split()[0].split(",")
        want = naive_matches(case["main"], case["needle"])
        if sorted(nums) != sorted(want):
            missing = sorted(set(want) - set(nums))[:3]
            dup = sorted({n for n in nums if nums.count(n) > 1})[:3]
            extra = sorted(set(nums) - set(want))[:3]
            return f"paging with limit={lim} lists {len(nums)} types, {len(want)} match: missing={missing} duplicated={dup} extra={extra}"
        keys = [(int(n.split('.')[0]), int(n.split('.')[1]) if '.' in n else -1) for n in nums]
        if keys != sorted(keys):
            return "pages are not in DPT-number order"
    return None


def nontrivial(case, out):
    return not out.startswith("- ")
