"""C45 MCP tools: JSON-native results, encode/decode inversion, page-by-page listing."""
import asyncio
import dataclasses
import json

from harness import dptlib as D
from xknx.dpt import DPTArray, DPTBase, DPTBinary
from xknx.exceptions import ConversionError, CouldNotParseTelegram
from xknx.mcp import tools
from xknx.mcp.types import DecodeDptPayloadInput, DptFilter, EncodeDptPayloadInput

PROPERTY = "C45"
MODULES = ["XknxVerif.Props.C45", "XknxVerif.Props.C45Codec"]
NAMESPACES = ["XknxVerif.Props.C45"]
DRIVE_PROCS = 4
CASE_TIMEOUT = 30.0
RULE = ("codec: every DPT class x {all 64 six-bit values, all 256 one-octet arrays, edge + random 2-octet arrays, base/random arrays of the "
        "class's own length, wrong lengths} through decode_dpt_payload -> json.dumps/loads of the result -> encode_dpt_payload -> "
        "decode_dpt_payload (real tools), compared token by token with the Lean MCP codec model; paginate: exhaustive n in 0..8 x limit in -2..10 x offset in -10..10 through _paginate; list: generated filters (main numbers "
        "present/absent, needles cut from real value types/units/numbers in mixed case) x page sizes {1,2,3,7,50,230,1000,-1} x offsets; "
        "walk: client following next_offset from 0 to exhaustion for every generated filter and page size >= 1 and -1, compared with an "
        "independent naive scan of the class tree; every tool result is passed through json.dumps(dataclasses.asdict(result)) with no custom "
        "encoder. non-trivial = distinct op lines whose result is not the empty list")
TRUSTED = ["model XknxVerif.Model.MCP hand-written; the DPT class tree (numbers, main/sub, haystacks, iteration order) is regenerated from DPTBase.dpt_class_tree() each run",
           "str.lower() is modelled for ASCII only; needles are restricted to characters on which it agrees with Python"]
ASSUMPTIONS = ["page size 0 is not a page size: list_dpts(limit=0) reports next_offset == offset (proved never to advance: walk_zero_never_advances); excluded from the paging statement, see DESIGN.md C45"]

_loop = None
_tree = None
_fragments = None


def setup():
    global _loop, _tree, _fragments
    _loop = asyncio.new_event_loop()
    _tree = list(DPTBase.dpt_class_tree())
    frags = set()
    for d in _tree:
        for s in (d.dpt_number_str(), d.value_type or "", d.unit or ""):
            s = "".join(ch for ch in s if ord(ch) < 128 or ch in "°µ²³")
            for i in range(0, max(1, len(s) - 2), 3):
                frags.add(s[i:i + 1 + (i % 4)])
            if s:
                frags.add(s)
    _fragments = sorted(f for f in frags if f)


def teardown():
    _loop.close()


def hexs(s):
    return "none" if s is None else ("-" if s == "" else "".join(f"{ord(c):02x}" for c in s))


def _rand_hex(rng, ln, n):
    return [bytes(rng.randrange(256) for _ in range(ln)).hex() or "-" for _ in range(n)]


def codec_cases(rng, tier):
    """decode_dpt_payload -> JSON value -> encode_dpt_payload -> decode_dpt_payload, for every DPT class."""
    nrand = 12 if tier == "quick" else 400
    for cls in D.CLASSES:
        name, L = cls.__name__, cls.payload_length
        yield {"op": f"mcp rt {name} b0-63"}
        yield {"op": f"mcp rt {name} a0:0-0"}
        yield {"op": f"mcp rt {name} a1:0-255"}
        edge = ["0000", "0001", "00ff", "0100", "7fff", "8000", "ff00", "fffe", "ffff", "0c1a", "8c1a", "7ffe"]
        yield {"op": f"mcp rt {name} x" + ",".join(edge + _rand_hex(rng, 2, nrand))}
        if D.kind(cls) == "a" and L >= 3:
            base = [bytes(L).hex(), (bytes([0xFF]) * L).hex()]
            yield {"op": f"mcp rt {name} x" + ",".join(base + _rand_hex(rng, L, 3 * nrand))}
        yield {"op": f"mcp rt {name} x" + ",".join(_rand_hex(rng, 3, 2) + _rand_hex(rng, 5, 2) + _rand_hex(rng, 15, 1))}


def generate(rng, tier):
    yield from codec_cases(rng, tier)
    for n in range(0, 9):
        for lim in range(-2, 11):
            for off in range(-10, 11):
                yield {"op": f"c45 paginate {n} {lim} {off}"}
    mains = sorted({d.dpt_main_number for d in _tree}) + [0, 15, 999]
    nfilters = 150 if tier == "quick" else 2500
    for _ in range(nfilters):
        main = rng.choice(mains) if rng.random() < 0.5 else None
        needle = None
        if rng.random() < 0.6:
            needle = rng.choice(_fragments)
            needle = "".join(c.upper() if rng.random() < 0.3 else c for c in needle)
            if rng.random() < 0.1:
                needle += rng.choice(["x", "\n", " ", "."])
        m = "-" if main is None else str(main)
        for lim in (1, 2, 3, 7, 50, 230, 1000, -1):
            yield {"op": f"c45 walk {m} {hexs(needle)} {lim}", "main": main, "needle": needle}
        for _ in range(3):
            lim = rng.choice([0, 1, 2, 3, 7, 50, 230, 1000, -1, -5])
            off = rng.choice([0, 0, 1, 2, 5, 100, 229, 230, 231, 500, -1, -3, -300])
            yield {"op": f"c45 list {m} {hexs(needle)} {lim} {off}", "main": main, "needle": needle}


def jsonable(result):
    return json.loads(json.dumps(dataclasses.asdict(result)))


def call_list(main, needle, lim, off):
    res = _loop.run_until_complete(tools.list_dpts(DptFilter(main=main, text=needle, limit=lim, offset=off)))
    return res


_VT = {}


def value_type_of(cls):
    """a value_type string the tools resolve to exactly this class (DPT number, else its value-type name)"""
    if cls not in _VT:
        vt = None
        for cand in (cls.dpt_number_str(), cls.value_type):
            try:
                if cand and DPTBase.get_dpt(cand) is cls:
                    vt = cand
                    break
            except ValueError:
                pass
        _VT[cls] = vt
    return _VT[cls]


def _call(coro):
    return _loop.run_until_complete(coro)


def _decode_tool(vt, payload):
    """-> ('ok', json value) | ('r', None) | ('other:<Exc>', None) | ('notjson:<Exc>', None)"""
    try:
        res = _call(tools.decode_dpt_payload(DecodeDptPayloadInput(value_type=vt, payload=payload)))
    except (ConversionError, CouldNotParseTelegram):
        return "r", None
    except Exception as e:  # noqa: BLE001
        return f"other:{type(e).__name__}", None
    try:
        return "ok", json.loads(json.dumps(dataclasses.asdict(res)))["value"]
    except (TypeError, ValueError) as e:
        return f"notjson:{type(e).__name__}", None


def mcp_roundtrip(cls, vt, k, data):
    nan32 = D.FAM[cls.__name__] == "f32"
    st, j = _decode_tool(vt, data if k == "b" else list(data))
    if st != "ok":
        return st, (None if st in ("r", "other:ValueError") else f"decode_dpt_payload: {st}")
    cj = D.canon(j)
    # a value that does NOT come from the decode tool: the datapoint class's own decoding of the payload.  Where that is already
    # JSON-native (int / float / str / bool), the tools must carry exactly this value: encode it, decode the result, compare.
    try:
        direct = cls.from_knx(DPTBinary(data) if k == "b" else DPTArray(tuple(data)))
    except Exception:  # noqa: BLE001
        direct = None
    if type(direct) in (int, float, str, bool) and direct == direct:
        cd = D.canon(direct)
        try:
            enc_d = _call(tools.encode_dpt_payload(EncodeDptPayloadInput(value_type=vt, value=direct)))
            enc_d = json.loads(json.dumps(dataclasses.asdict(enc_d)))["payload"]
            st_d, j_d = _decode_tool(vt, enc_d)
        except Exception as e:  # noqa: BLE001
            st_d, j_d = f"other:{type(e).__name__}", None
        if st_d == "ok" and D.canon(j_d) != cd and not (isinstance(direct, str) and isinstance(j_d, str) and direct.replace("\ufffd", "?") == j_d):
            return f"{cd}>>{D.canon(j_d)}", (f"the valid JSON-native value {direct!r} is encoded and decoded again as {j_d!r} "
                                            f"(not that value, and the value is representable: it is what the payload means)")
    try:
        enc = _call(tools.encode_dpt_payload(EncodeDptPayloadInput(value_type=vt, value=j)))
        enc = json.loads(json.dumps(dataclasses.asdict(enc)))["payload"]
    except ConversionError:
        return f"{cj}>conv", f"decoded value {j!r} is refused by encode_dpt_payload"
    except Exception as e:  # noqa: BLE001
        return f"{cj}>other:{type(e).__name__}", f"encode_dpt_payload({j!r}) raised {type(e).__name__}"
    p2 = DPTBinary(enc) if isinstance(enc, int) else DPTArray(tuple(enc))
    cp2 = D.payload_canon(p2, nan32)
    st2, j2 = _decode_tool(vt, enc)
    if st2 != "ok":
        return f"{cj}>{cp2}>{'parse' if st2 == 'r' else st2}", f"value {j!r} encodes to {cp2} which decode_dpt_payload refuses ({st2})"
    cj2 = D.canon(j2)
    if cj2 == cj:
        return cj, None
    tok = f"{cj}>{cp2}>{cj2}"
    # documented replacement of text types: undecodable bytes come back as '?'
    if isinstance(j, str) and isinstance(j2, str) and j.replace("\ufffd", "?") == j2:
        return tok, None
    return tok, f"value {j!r} encodes to {cp2}, which decodes to {j2!r}"


def run_codec(case):
    _, _op, name, spec = case["op"].split(" ")
    cls = D.BY_NAME[name]
    vt = value_type_of(cls)
    if vt is None:
        _codec_stats["unresolvable"].add(name)
        return {"out": "skip-unresolvable", "line": None}
    toks, first = [], None
    for k, data in D.expand(spec):
        tok, bad = mcp_roundtrip(cls, vt, k, data)
        toks.append(tok)
        if bad and first is None:
            first = (D.spec_single(k, data), bad)
    _codec_stats["payloads"] += len(toks)
    _codec_stats["accepted"] += sum(1 for t in toks if t != "r" and not t.startswith("other:ValueError"))
    r = D.rle(toks)
    if first:
        return {"out": f"{r} !{first[0]} !{first[1]}", "expect": r}
    return {"out": r, "expect": r}


_codec_stats = {"payloads": 0, "accepted": 0, "unresolvable": set()}


def evidence_extra():
    return {"codec_payloads": _codec_stats["payloads"], "codec_accepted": _codec_stats["accepted"],
            "classes_without_unique_value_type": sorted(_codec_stats["unresolvable"])}


def run_impl(case):
    t = case["op"].split()
    if t[0] == "mcp":
        return run_codec(case)
    if t[1] == "paginate":
        n, lim, off = int(t[2]), int(t[3]), int(t[4])
        w, r = tools._paginate(list(range(n)), lim, off)
        nx = off + len(w) if r else None
        return f"{','.join(map(str, w)) or '-'} {int(r)} {'none' if nx is None else nx}"
    main, needle = case["main"], case["needle"]
    if t[1] == "list":
        res = call_list(main, needle, int(t[4]), int(t[5]))
        try:
            j = jsonable(res)
        except (TypeError, ValueError) as e:
            return f"notjson {type(e).__name__}"
        nums = [d["dpt"] for d in j["dpts"]]
        assert j["offset"] == int(t[5])
        return f"{','.join(nums) or '-'} {j['total_count']} {'none' if j['next_offset'] is None else j['next_offset']} {int(j['limit_reached'])}"
    if t[1] == "walk":
        lim = int(t[4])
        off, nums, pages = 0, [], 0
        total = None
        while off is not None and pages < 2 * len(_tree) + 5:
            res = call_list(main, needle, lim, off)
            try:
                j = jsonable(res)
            except (TypeError, ValueError) as e:
                return f"notjson {type(e).__name__}"
            nums += [d["dpt"] for d in j["dpts"]]
            pages += 1
            total = j["total_count"]
            off = j["next_offset"]
        case["_total"] = total
        return f"{','.join(nums) or '-'} {pages}"
    raise ValueError(case["op"])


def naive_matches(main, needle):
    out = []
    for d in _tree:
        if main is not None and d.dpt_main_number != main:
            continue
        if needle is not None and needle != "":
            hay = "\n".join([d.dpt_number_str(), d.value_type or "", d.unit or ""]).lower()
            if needle.lower() not in hay:
                continue
        out.append(d.dpt_number_str())
    return out


def oracle(case, out):
    t = case["op"].split()
    if t[0] == "mcp":
        if " !" in out:
            _, first, why = out.split(" !", 2)
            return f"{t[2]}: payload {first}: {why}"
        return None
    if out.startswith("notjson"):
        return f"tool result is not serialisable by the standard JSON encoder: {out}"
    if t[1] == "walk":
        lim = int(t[4])
        nums = [] if out.split()[0] == "-" else out.split()[0].split(",")
        want = naive_matches(case["main"], case["needle"])
        if sorted(nums) != sorted(want):
            missing = sorted(set(want) - set(nums))[:3]
            dup = sorted({n for n in nums if nums.count(n) > 1})[:3]
            extra = sorted(set(nums) - set(want))[:3]
            return f"paging with limit={lim} lists {len(nums)} types, {len(want)} match: missing={missing} duplicated={dup} extra={extra}"
        keys = [(int(n.split('.')[0]), int(n.split('.')[1]) if '.' in n else -1) for n in nums]
        if keys != sorted(keys):
            return "pages are not in DPT-number order"
    return None


def nontrivial(case, out):
    if case["op"].startswith("mcp"):
        return not all(x.startswith("r*") for x in out.split(" !")[0].split(","))
    return not out.startswith("- ")


def shrink(case, msg):
    if case["op"].startswith("mcp"):
        res = run_impl(case)
        if " !" in res["out"]:
            first = res["out"].split(" !")[1]
            return {"op": " ".join(case["op"].split(" ")[:3] + [first])}
    return case
