"""C36 Registered tasks follow connection state and never run twice (mode R, virtual time).

A case is a scenario: 1-4 registry tasks with options, and a list of steps
  ["S", i] start_task   ["R", i] remove_task   ["X"] registry.stop()   ["B"] registry.start()
  ["C", c] connection_manager.connection_state_changed(c)   ["A", dt_us] let virtual time pass
A step with a trailing "!" is not followed by settle()+snapshot (burst of calls in one loop iteration).
The real TaskRegistry/Task/ConnectionManager run on vloop; asyncio tasks are seen through the loop's
task factory (public API), targets are instrumented.  The recorded trace goes to the Lean monitor
(`c36 monitor`) and the oracle restates the property on it.
"""
import asyncio
import itertools

from harness import vloop
from xknx import XKNX
from xknx.core import XknxConnectionState
from xknx.core.task_registry import Task

PROPERTY = "C36"
RULE = ("scenarios of <=40 steps (start/remove/stop/begin/connection changes/time) over 1-4 registry tasks; every one of the "
        "2*3*2*3 = 36 option combinations (restart_after_reconnect, wait_before_start in {0,0.5s,3s}, wait_for_connection, "
        "repeat_after in {None,1s,4s}) is run through 6 fixed scripts x {direct, loop-deferred connection callbacks} and used "
        "in the random scenarios; targets are sync or async with durations {0,0.2s,2s,10s}; non-trivial = the trace contains "
        "at least one spawn and one connection delivery or remove/stop")
TRUSTED = ["model XknxVerif.Model.TaskRegistry is a hand-written monitor; tied to xknx/core/task_registry.py by trace acceptance on every run",
           "harness/vloop.py virtual-time loop; asyncio tasks observed through loop.set_task_factory + done callbacks + asyncio.all_tasks",
           "the instrumented targets do not swallow CancelledError (a target that does is outside the property)"]
CASE_TIMEOUT = 10.0

STATES = {0: XknxConnectionState.DISCONNECTED, 1: XknxConnectionState.CONNECTING, 2: XknxConnectionState.CONNECTED}
CODE = {v: k for k, v in STATES.items()}
WBS = [0, 500_000, 3_000_000]
REP = [None, 1_000_000, 4_000_000]
DUR = [0, 200_000, 2_000_000, 10_000_000]
COMBOS = list(itertools.product([False, True], WBS, [False, True], REP))


def mk_task(restart, wbs, wfc, rep, dur=200_000, sync=False):
    return [bool(restart), wbs, bool(wfc), rep, dur, bool(sync)]


SCRIPTS = [
    # connect, start, lose connection twice, reconnect, remove
    [["B"], ["C", 2], ["S", 0], ["A", 4_000_000], ["C", 1], ["A", 1_000_000], ["C", 0], ["A", 1_000_000], ["C", 2],
     ["A", 6_000_000], ["R", 0], ["A", 1_000_000]],
    # start while disconnected, connect, restart by start_task, stop
    [["B"], ["S", 0], ["A", 1_000_000], ["C", 1], ["C", 2], ["A", 700_000], ["S", 0], ["A", 100_000], ["S", 0],
     ["A", 5_000_000], ["X"], ["A", 5_000_000]],
    # flapping connection within wait_before_start, burst of starts
    [["B"], ["C", 2], ["S", 0, "!"], ["S", 0, "!"], ["S", 0], ["A", 250_000], ["C", 0], ["C", 2], ["A", 250_000], ["C", 0],
     ["C", 2], ["A", 3_500_000], ["C", 0], ["A", 10_000_000]],
    # registry not listening: changes must not restart; then begin
    [["C", 2], ["S", 0], ["A", 1_000_000], ["C", 0], ["A", 5_000_000], ["C", 2], ["A", 1_000_000], ["B"], ["C", 0],
     ["A", 1_000_000], ["C", 2], ["A", 12_000_000]],
    # stop and start registry again, remove twice, start after remove
    [["B"], ["C", 2], ["S", 0], ["A", 3_600_000], ["X"], ["A", 1_000_000], ["B"], ["S", 0], ["A", 100_000], ["R", 0], ["R", 0],
     ["A", 4_000_000], ["S", 0], ["C", 1], ["A", 4_000_000], ["C", 2], ["A", 4_000_000]],
    # equal timestamps: connection change exactly when wait_before_start / repeat_after expires
    [["B"], ["C", 2], ["S", 0], ["A", 500_000], ["C", 0], ["C", 2], ["A", 3_000_000], ["C", 1], ["A", 1_000_000], ["C", 2],
     ["A", 1_000_000], ["A", 4_000_000]],
]


def generate(rng, tier):
    for combo in COMBOS:
        for si, script in enumerate(SCRIPTS):
            for deferred in (False, True):
                for dur, sync in ((200_000, False), (0, True)) if si % 2 == 0 else ((2_000_000, False), (0, False)):
                    yield {"tasks": [mk_task(*combo, dur=dur, sync=sync)], "steps": script, "deferred": deferred}
    n = 1500 if tier == "quick" else 20000
    for _ in range(n):
        nt = rng.randint(1, 4)
        tasks = []
        for _ in range(nt):
            combo = rng.choice(COMBOS)
            dur = rng.choice(DUR)
            tasks.append(mk_task(*combo, dur=dur, sync=(dur == 0 and rng.random() < 0.5)))
        steps = []
        listening = False
        if rng.random() < 0.85:
            steps.append(["B"])
            listening = True
        for _ in range(rng.randint(3, 40)):
            r = rng.random()
            if r < 0.22:
                st = ["S", rng.randrange(nt)]
            elif r < 0.30:
                st = ["R", rng.randrange(nt)]
            elif r < 0.34:
                st = ["X"]
                listening = False
            elif r < 0.40 and not listening:
                st = ["B"]
                listening = True
            elif r < 0.65:
                st = ["C", rng.choice([0, 1, 2, 2, 2])]
            else:
                st = ["A", rng.choice([1, 100_000, 200_000, 499_999, 500_000, 500_001, 1_000_000, 2_000_000, 3_000_000,
                                       4_000_000, 5_000_000, 12_000_000])]
            if st[0] != "A" and rng.random() < 0.15:
                st.append("!")
            steps.append(st)
        yield {"tasks": tasks, "steps": steps, "deferred": rng.random() < 0.4}


def fmt_tasks(tasks):
    return ";".join(f"{int(t[0])}{int(t[2])}:{t[1]}:{'-' if t[3] is None else t[3]}" for t in tasks)


async def _scenario(loop, case):
    t0 = loop.time()
    trace = []
    last_t = [0]

    def rec(ev):
        t = vloop.q(loop.time() - t0)
        if t != last_t[0]:
            trace.append(["A", t])
            last_t[0] = t
        trace.append(ev)

    def factory(lp, coro, **kw):
        t = asyncio.Task(coro, loop=lp, **kw)
        rec(["P", t])
        t.add_done_callback(lambda t: rec(["D", t]))
        return t

    xknx = XKNX()
    if case.get("deferred"):
        await xknx.connection_manager.register_loop()
    xknx.connection_manager.register_connection_state_changed_cb(lambda st: rec(["C", CODE[st]]))
    names = {}
    tasks = []

    def mk_target(i, dur, sync):
        if sync:
            def target():
                t = asyncio.current_task()
                rec(["E", t])
                rec(["L", t])
            return target

        async def target():
            t = asyncio.current_task()
            rec(["E", t])
            try:
                if dur:
                    await asyncio.sleep(dur / 1e6)
            finally:
                rec(["L", t])
        return target

    for i, (restart, wbs, wfc, rep, dur, sync) in enumerate(case["tasks"]):
        name = f"c36-task-{i}"
        names[name] = i
        tasks.append(Task(name, mk_target(i, dur, sync), restart_after_reconnect=restart, wait_before_start=wbs / 1e6,
                          wait_for_connection=wfc, repeat_after=None if rep is None else rep / 1e6))
    loop.set_task_factory(factory)
    errors = []

    def snapshot():
        alive = [t for t in asyncio.all_tasks(loop) if not t.done() and t.get_name() in names]
        rec(["N", alive])

    try:
        for st in list(case["steps"]) + [["A", 1], ["X"]]:
            op = st[0]
            try:
                if op == "S":
                    rec(["S", st[1]])
                    xknx.task_registry.start_task(tasks[st[1]])
                elif op == "R":
                    rec(["R", st[1]])
                    xknx.task_registry.remove_task(tasks[st[1]])
                elif op == "X":
                    rec(["X"])
                    xknx.task_registry.stop()
                elif op == "B":
                    rec(["B"])
                    xknx.task_registry.start()
                elif op == "C":
                    rec(["I", st[1]])
                    xknx.connection_manager.connection_state_changed(STATES[st[1]])
                elif op == "A":
                    await asyncio.sleep(st[1] / 1e6)
            except Exception as e:  # noqa: BLE001
                errors.append(type(e).__name__)
                rec(["!", type(e).__name__])
            if st[-1] != "!":
                await loop.settle()
                snapshot()
        await loop.settle()
        snapshot()
    finally:
        loop.set_task_factory(None)
    # resolve asyncio task objects to (task index, generation in creation order)
    gen = {}
    count = {}
    for ev in trace:
        if ev[0] == "P":
            nm = ev[1].get_name()
            if nm in names:
                i = names[nm]
                gen[ev[1]] = (i, count.get(i, 0))
                count[i] = count.get(i, 0) + 1
    out = []
    for ev in trace:
        k = ev[0]
        if k in "PELD":
            if ev[1] in gen:
                i, g = gen[ev[1]]
                out.append(f"{k},{i},{g}")
        elif k == "N":
            out.append("N," + "/".join(f"{i}.{g}" for i, g in sorted(gen[t] for t in ev[1] if t in gen)))
        else:
            out.append(",".join(str(x) for x in ev))
    # drop time stamps that no longer precede anything
    res = []
    for i, e in enumerate(out):
        if e.startswith("A,") and (i + 1 == len(out) or out[i + 1].startswith("A,")):
            continue
        res.append(e)
    return res


def run_impl(case):
    tr = vloop.run(lambda loop: _scenario(loop, case))
    s = ";".join(tr)
    return {"out": s, "line": f"c36 monitor {fmt_tasks(case['tasks'])} {s or '-'}", "expect": "accept"}


def oracle(case, out):
    """The property on the observed trace, without the Lean model."""
    tasks = case["tasks"]
    n = len(tasks)
    inside = [set() for _ in range(n)]       # generations currently inside the target
    registered = [False] * n
    listening = False
    connected = False
    # generations that must not run any more: cancelled by remove/stop/start/connection loss
    dead = [set() for _ in range(n)]
    spawned = [set() for _ in range(n)]
    lost = [False] * n                       # restart task lost its connection and nothing started it since
    expect_spawn = {}                        # i -> number of spawns seen since the reconnection
    may_spawn = [0] * n                      # spawns owed to task i: one per start_task, one per reconnection of a restart task
    conn_ok = [False] * n                    # connected at some moment since the generation was spawned / last left its target
    evs = [e.split(",") for e in out.split(";")] if out else []

    def close_reconnect(where):
        for i, c in list(expect_spawn.items()):
            if c != 1:
                return f"task {i} (restart_after_reconnect) was started {c} times for one reconnection ({where})"
        expect_spawn.clear()
        return None

    for idx, e in enumerate(evs):
        k = e[0]
        if k == "!":
            return f"registry call raised {e[1]}"
        if k in "SRXBCN":
            m = close_reconnect(f"event #{idx}")
            if m:
                return m
        if k == "S":
            i = int(e[1])
            dead[i] |= spawned[i]
            registered[i] = True
            lost[i] = False
            may_spawn[i] += 1
        elif k == "R":
            i = int(e[1])
            dead[i] |= spawned[i]
            registered[i] = False
        elif k == "X":
            for i in range(n):
                dead[i] |= spawned[i]
                registered[i] = False
            listening = False
        elif k == "B":
            listening = True
        elif k == "C":
            c = int(e[1])
            connected = c == 2
            if connected:
                conn_ok = [True] * n
            if listening:
                for i in range(n):
                    if registered[i] and tasks[i][0]:
                        dead[i] |= spawned[i]
                        if c == 2:
                            expect_spawn[i] = 0
                            may_spawn[i] += 1
                            lost[i] = False
                        else:
                            lost[i] = True
        elif k == "P":
            i, g = int(e[1]), int(e[2])
            spawned[i].add(g)
            conn_ok[i] = connected
            may_spawn[i] -= 1
            if may_spawn[i] < 0:
                return (f"task {i} got a new asyncio task (generation {g}) that neither start_task nor a reconnection of a "
                        f"restart_after_reconnect task asked for (event #{idx})")
            if i in expect_spawn:
                expect_spawn[i] += 1
        elif k == "E":
            i, g = int(e[1]), int(e[2])
            if inside[i]:
                return f"task {i}: target entered in generation {g} while generation {sorted(inside[i])} is still inside (event #{idx})"
            if g in dead[i]:
                return f"task {i}: target invoked in generation {g} after that generation was removed/replaced/stopped (event #{idx})"
            if tasks[i][0] and lost[i]:
                return f"task {i} (restart_after_reconnect) ran its target while disconnected (event #{idx})"
            if tasks[i][2] and not conn_ok[i]:
                # (Event.wait() semantics: a connection that came up and dropped again before the waiter ran still releases it)
                return f"task {i} (wait_for_connection) ran its target although the connection was never up since it began waiting (event #{idx})"
            inside[i].add(g)
        elif k == "L":
            inside[int(e[1])].discard(int(e[2]))
            conn_ok[int(e[1])] = connected
        elif k == "N":
            alive = [tuple(int(x) for x in p.split(".")) for p in e[1].split("/")] if e[1] else []
            per = {}
            for i, g in alive:
                per.setdefault(i, []).append(g)
                if g in dead[i]:
                    return f"task {i}: generation {g} still alive after it was removed/replaced/stopped/disconnected (event #{idx})"
            for i, gs in per.items():
                if len(gs) > 1:
                    return f"task {i}: {len(gs)} asyncio tasks alive at once (generations {gs}, event #{idx})"
                if not registered[i]:
                    return f"task {i}: asyncio task alive while not registered (event #{idx})"
    return None


def nontrivial(case, out):
    return ";P," in out and (";C," in out or ";R," in out)


def finding_key(case, msg):
    return "c36 " + fmt_tasks(case["tasks"]) + " " + ";".join(",".join(str(x) for x in s) for s in case["steps"])


def shrink(case, msg):
    """Delta-debug the step list (and drop unused tasks) while the oracle still fails."""
    def fails(c):
        try:
            r = run_impl(c)
            return oracle(c, r["out"]) is not None
        except Exception:  # noqa: BLE001
            return False
    cur = dict(case)
    steps = list(cur["steps"])
    changed = True
    while changed and len(steps) > 1:
        changed = False
        for i in range(len(steps)):
            cand = dict(cur, steps=steps[:i] + steps[i + 1:])
            if fails(cand):
                steps = cand["steps"]
                cur = cand
                changed = True
                break
    return cur


if __name__ == "__main__":
    import json
    import random
    import sys
    from harness import framework
    rng = random.Random(int(sys.argv[1]) if len(sys.argv) > 1 else 0)
    cases, lines = [], []
    for k, c in enumerate(generate(rng, sys.argv[2] if len(sys.argv) > 2 else "quick")):
        r = run_impl(c)
        m = oracle(c, r["out"])
        cases.append(c)
        lines.append(r["line"])
        if m:
            print(json.dumps(c), "\n ", r["line"], "\n  oracle:", m)
            break
    outs = framework.drive(lines)
    bad = [(c, l, o) for c, l, o in zip(cases, lines, outs) if o != "accept"]
    print(len(cases), "cases;", len(bad), "rejected")
    for c, l, o in bad[:3]:
        k = int(o.split("@")[1]) if "@" in o else -1
        evs = l.split(" ")[3].split(";")
        print(json.dumps(c), "\n ", l, "\n ", o, evs[max(0, k - 6):k + 1])
