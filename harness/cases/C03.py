"""C03 Transport-layer control octets (complete finite domain)."""
from xknx.exceptions import ConversionError
from xknx.telegram import tpci

PROPERTY = "C03"
EXHAUSTIVE = True
RULE = ("all 256 octets x {individual, group, broadcast} through TPCI.resolve, and all 9 PDU classes x "
        "sequence numbers 0..15 x destination kinds through to_knx/resolve; non-trivial = every case (domain is finite, all distinct)")
TRUSTED = ["model XknxVerif.Model.TPCI is hand-written; tied by complete enumeration of the finite domain on every run"]

KINDS = [(0, 0), (1, 0), (1, 1)]
CLASSES = ["TDataGroup", "TDataBroadcast", "TDataTagGroup", "TDataIndividual",
           "TDataConnected", "TConnect", "TDisconnect", "TAck", "TNak"]
NUMBERED = {"TDataConnected", "TAck", "TNak"}
CONTROL = {"TConnect", "TDisconnect", "TAck", "TNak"}


def render(t):
    n = type(t).__name__
    return f"{n}:{t.sequence_number}" if n in NUMBERED else n


def generate(rng, tier):
    for o in range(256):
        for g, z in KINDS:
            yield {"op": f"tpci resolve {o} {g} {z}"}
    for c in CLASSES:
        for s in range(16):
            yield {"op": f"tpci encode {c} {s}"}


def build(c, s):
    cls = getattr(tpci, c)
    return cls(sequence_number=s) if c in NUMBERED else cls()


def run_impl(case):
    t = case["op"].split()
    if t[1] == "resolve":
        try:
            r = tpci.TPCI.resolve(int(t[2]), t[3] == "1", t[4] == "1")
        except ConversionError:
            return "err conversion"
        return f"ok {render(r)} {r.to_knx()}"
    return str(build(t[2], int(t[3])).to_knx())


def kind_ok(name, g, z):
    if name == "TDataGroup":
        return g and not z
    if name == "TDataBroadcast":
        return g and z
    if name == "TDataTagGroup":
        return g
    return not g


def oracle(case, out):
    t = case["op"].split()
    if t[1] == "resolve":
        if out.startswith("err"):
            return None
        o = int(t[2])
        _, pdu, enc = out.split()
        name = pdu.split(":")[0]
        mask = 0xFF if name in CONTROL else 0xFC
        if int(enc) & mask != o & mask:
            return f"octet {o:#04x} decodes to {pdu}, which encodes to {int(enc):#04x}"
        if not kind_ok(name, t[3] == "1", t[4] == "1"):
            return f"octet {o:#04x} decoded to {pdu} for destination kind group={t[3]} zero={t[4]}"
        return None
    # every constructible PDU decodes back for its destination kinds
    c, s = t[2], int(t[3])
    enc = int(out)
    for g, z in KINDS:
        if not kind_ok(c, bool(g), bool(z)):
            continue
        try:
            r = tpci.TPCI.resolve(enc, bool(g), bool(z))
        except ConversionError:
            return f"{c}({s}) encodes to {enc:#04x} which is rejected for group={g} zero={z}"
        if r != build(c, s) or type(r).__name__ != c:
            return f"{c}({s}) encodes to {enc:#04x} which decodes to {render(r)}"
    return None
