"""C25 Connection lifecycle stays consistent under any failure schedule (mode R, trace monitor).

A simulated tunnel session (connect, two sends, two heartbeat cycles, disconnect, silence) runs on the
virtual-time loop with the REAL UDPTunnel / TCPTunnel / SecureTunnel (stub session), heartbeat,
request/response classes and ConnectionManager; only the sockets are stubbed (harness/c25_sim.py).
Failure events are injected at loop-iteration boundaries; the recorded trace is replayed by the Lean
monitor `XknxVerif.TunnelLifecycle.step?`, and `oracle` restates the property on the trace.
"""
from __future__ import annotations

import logging
import multiprocessing
import os
import random

PROPERTY = "C25"
RULE = ("schedule = list of (loop-iteration boundary, failure event) for a simulated session x {udp,tcp,secure-stub} x auto_reconnect {on,off}; "
        "quick: every single event at every boundary (exhaustive depth 1) + sampled depth 2-4; thorough: additionally every pair "
        "(exhaustive depth 2: second event at every boundary of the run that follows the first); plus ConnectionManager op sequences "
        "(register/unregister/self-unregistering callbacks/state changes). non-trivial = distinct schedules whose events were all injected")
TRUSTED = [
    "monitor XknxVerif.Model.TunnelLifecycle is hand-written; tied to the code by replaying every recorded implementation trace through it",
    "harness/c25_sim.py: sockets replaced by a scripted gateway (transport.connect / asyncio transport objects), SecureSession handshake "
    "replaced by the same two request/response exchanges without cryptography; observation points are logging overrides that call super()",
    "asyncio semantics (task cancellation at the next await, call_soon FIFO order, done callbacks one iteration after completion) as "
    "implemented by CPython 3.12 and driven by harness/vloop.py; the monitor does not model them beyond what the tokens show",
]
ASSUMPTIONS = [
    "the user calls disconnect() only after connect() returned; connect() is not called again after disconnect() within a session",
    "ConnectionManager is used without register_loop() (non-threaded mode): state changes are dispatched synchronously",
]
CASE_TIMEOUT = 20.0
EXHAUSTIVE_THOROUGH = True

KINDS = ("udp", "tcp", "secure")
_PRE = {}
_ALL_INJECTED = {}
_SEEN_LINES = set()
_STATS = {"depth": {}, "dedup_lines": 0, "max_boundaries": 0, "not_injected": 0}

logging.getLogger("xknx").setLevel(logging.CRITICAL)
for _n in ("xknx.log", "xknx.knx", "xknx.raw_socket", "xknx.ip_secure", "xknx.cemi", "xknx.telegram"):
    logging.getLogger(_n).disabled = True


def op_of(kind, auto, sched):
    return f"c25 run {kind} {int(auto)} " + (",".join(f"{b}:{e}" for b, e in sched) if sched else "-")


def parse_op(op):
    t = op.split()
    sched = [] if t[4] == "-" else [(int(x.split(":")[0]), x.split(":")[1]) for x in t[4].split(",")]
    return t[2], t[3] == "1", sched


# ------------------------------------------------------------------------------------------------
# implementation runner
# ------------------------------------------------------------------------------------------------

def _work(op):
    from harness import c25_sim

    t = op.split()
    if t[1] == "cm":
        return run_cm(op), 0, 0
    kind, auto, sched = parse_op(op)
    try:
        sim = c25_sim.run_session(kind, auto, sched)
    except Exception as e:  # noqa: BLE001
        return f"EXC {type(e).__name__} {str(e)[:120]}", 0, 0
    return " ".join(sim.trace), sim.boundary, len(sim.injected)


def _work_chunk(ops):
    """Worker-process side: every op under its own watchdog (a hang in one schedule must not stall the pool)."""
    from harness import framework
    out = []
    for op in ops:
        try:
            out.append(framework.with_timeout(lambda op=op: _work(op), CASE_TIMEOUT))
        except framework.CaseTimeout:
            out.append(("TIMEOUT", 0, 0))
    return out


def run_impl(case):
    op = case["op"]
    res = _PRE.pop(op, None)
    if res is None:
        res = _work(op)
    trace, nb, ninj = res
    if trace == "TIMEOUT":
        from harness import framework
        raise framework.CaseTimeout()
    if op.split()[1] == "cm":
        return {"out": trace, "line": op, "expect": trace}
    if trace.startswith("EXC"):
        return {"out": "harness-exc " + trace}
    kind, auto, sched = parse_op(op)
    _STATS["max_boundaries"] = max(_STATS["max_boundaries"], nb)
    if ninj < len(sched):
        _STATS["not_injected"] += 1
        _ALL_INJECTED[op] = False
    from harness import c25_sim
    line = f"c25 monitor {kind} {int(auto)} {c25_sim.N_CALLBACKS} {trace}"
    h = hash(line)
    if h in _SEEN_LINES:
        _STATS["dedup_lines"] += 1
        return {"out": trace, "line": None, "ninj": ninj}
    _SEEN_LINES.add(h)
    return {"out": trace, "line": line, "expect": "accept", "ninj": ninj}


# ------------------------------------------------------------------------------------------------
# ConnectionManager on its own: register / unregister / change, callbacks that unregister themselves
# ------------------------------------------------------------------------------------------------

def run_cm(op):
    """`c25 cm <ops>`: ops separated by ',': rK register callback K (plain), oK register one-shot K
    (unregisters itself when called), uK unregister K, D/G/C state change. Outcome: per change the list of
    callbacks invoked, e.g. `C:0.1 D:1`; a no-op change is `-`."""
    from xknx.core.connection_manager import ConnectionManager
    from xknx.core.connection_state import XknxConnectionState as S
    from xknx.core.connection_state import XknxConnectionType as T

    cm = ConnectionManager()
    names = {"D": S.DISCONNECTED, "G": S.CONNECTING, "C": S.CONNECTED}
    cbs, log, out = {}, [], []

    def mk(k, oneshot):
        def cb(state):
            log.append(k)
            if oneshot:
                cm.unregister_connection_state_changed_cb(cb)
        return cb

    for o in op.split()[2].split(","):
        if o[0] in "ro":
            k = int(o[1:])
            cbs[k] = mk(k, o[0] == "o")
            cm.register_connection_state_changed_cb(cbs[k])
        elif o[0] == "u":
            k = int(o[1:])
            if k in cbs:
                cm.unregister_connection_state_changed_cb(cbs[k])
        else:
            log.clear()
            try:
                cm.connection_state_changed(names[o], T.TUNNEL_TCP)
            except Exception as e:  # noqa: BLE001
                out.append(f"{o}:exc-{type(e).__name__}")
                continue
            flag = int(cm.connected.is_set())
            out.append(f"{o}{flag}:" + (".".join(map(str, log)) if log else "-"))
    return " ".join(out) if out else "-"


def cm_oracle(op, out):
    """Every callback registered at the time of a real change is called exactly once (a one-shot callback
    leaving the list must not make another one miss the change); no callback on a non-change; connected flag
    follows the state."""
    reg, oneshot, state = [], set(), "D"
    res = out.split() if out != "-" else []
    i = 0
    for o in op.split()[2].split(","):
        if o[0] in "ro":
            k = int(o[1:])
            if k in reg:
                reg.remove(k)  # same key registered again: the model below only tracks the latest
                return None
            reg.append(k)
            if o[0] == "o":
                oneshot.add(k)
        elif o[0] == "u":
            k = int(o[1:])
            if k in reg:
                reg.remove(k)
                oneshot.discard(k)
        else:
            r = res[i]
            i += 1
            head, called = r.split(":")
            if called.startswith("exc"):
                return f"state change {o} raised {called}"
            called = [] if called == "-" else [int(x) for x in called.split(".")]
            if head[1] != str(int(o == "C")):
                return f"connected flag is {head[1]} after a change to {o}"
            if o == state:
                if called:
                    return f"callbacks {called} invoked although the state did not change ({o})"
                continue
            state = o
            if sorted(called) != sorted(reg):
                return f"change to {o}: registered callbacks {reg} but invoked {called}"
            for k in list(reg):
                if k in oneshot:
                    reg.remove(k)
                    oneshot.discard(k)
    return None


# ------------------------------------------------------------------------------------------------
# property oracle on the trace (independent of the Lean model)
# ------------------------------------------------------------------------------------------------

def oracle(case, out):
    op = case["op"]
    if op.split()[1] == "cm":
        return cm_oracle(op, out)
    toks = [t.split(":") for t in out.split()]
    # (i) never two live reconnect attempts
    live = set()
    for p in toks:
        if p[1] == "new" and p[2] == "reconnect":
            if p[4] != "0":
                return f"reconnect task {p[3]} created while {p[4]} earlier reconnect task(s) are still running"
            if live:
                return f"reconnect task {p[3]} created while reconnect {sorted(live)} has not finished"
            live.add(p[3])
        elif p[1] == "rfin":
            live.discard(p[2])
        elif p[1] == "end" and p[2] == "reconnect":
            live.discard(p[3])
    # (ii) nothing after the user disconnected
    after = False
    for p in toks:
        if p[0] == "d" and p[1] == "ret":
            after = True
            continue
        if after:
            if p[1] == "frame":
                return f"frame {p[2]} sent after disconnect() returned"
            if p[1] == "new" and p[2] == "reconnect":
                return "reconnect task created after disconnect() returned"
            if p[1] in ("tconnect", "cstart"):
                return "connect attempt after disconnect() returned"
            if p[1] == "live" and p[2] != "-":
                return f"asyncio tasks still alive at the end of the session: {p[2]}"
    # (iii) state callbacks: only on real transitions, every callback once per change
    cur, changes = "D", []
    seqs = {}
    for p in toks:
        if p[1] == "notify":
            if p[2] != cur:
                cur = p[2]
                changes.append(cur)
        elif p[1] == "cb":
            seqs.setdefault(p[2], []).append(p[3])
    ncb = _ncb()
    for i in range(ncb):
        s = seqs.get(str(i), [])
        if any(a == b for a, b in zip(s, s[1:])):
            return f"callback {i} was told the same state twice in a row: {''.join(s)}"
        if s != changes:
            return f"callback {i} saw {''.join(s)} but the state changes were {''.join(changes)}"
    # (iv) connected <=> state CONNECTED <=> tunnel established, whenever the loop is quiet
    tup, cconn, window = False, False, False
    for p in toks:
        if p[1] == "tconnected":
            tup = True
        elif p[1] == "tstop":
            tup = False
        elif p[0] == "c" and p[1] == "cstart":
            cconn = True
        elif p[0] == "c" and p[1] == "ret":
            cconn = False
        elif p[1] == "estab" and not tup:
            window = True
        elif p[1] == "probe":
            conn, st, est = p[2], p[3], p[4]
            if not (conn == str(int(st == "C")) == est):
                msg = (f"probe: connected flag={conn} state={st} tunnel established={est}")
                return msg + (" [connect-window]" if window else "")
    return None


def _ncb():
    from harness import c25_sim
    return c25_sim.N_CALLBACKS


def finding_key(case, msg):
    if "[connect-window]" in msg:
        return "connect-window"
    return case["op"]


def nontrivial(case, out):
    return _ALL_INJECTED.pop(case["op"], True)


def outcome_class(out):
    if out.startswith("EXC"):
        return "exc"
    t = out.split()
    if not t or ":" not in t[0]:
        return "cm"
    n = sum(1 for x in t if ":new:reconnect:" in x)
    return f"reconnects={min(n, 4)}"


def shrink(case, msg):
    op = case["op"]
    if op.split()[1] != "run":
        return case
    kind, auto, sched = parse_op(op)
    changed = True
    while changed and len(sched) > 1:
        changed = False
        for i in range(len(sched)):
            cand = sched[:i] + sched[i + 1:]
            c = {"op": op_of(kind, auto, cand)}
            r = run_impl(c)
            if not r["out"].startswith("harness-exc") and oracle(c, r["out"]):
                sched, changed = cand, True
                break
    return {"op": op_of(kind, auto, sched)}


# ------------------------------------------------------------------------------------------------
# generator
# ------------------------------------------------------------------------------------------------

def _events(kind):
    from harness import c25_sim
    return [e for e, ks in c25_sim.EVENTS.items() if c25_sim.KIND_LETTER[kind] in ks]


def _pooled(ops, depth):
    """Run the implementation for `ops` in worker processes; yield cases in order."""
    _STATS["depth"][depth] = _STATS["depth"].get(depth, 0)
    nproc = max(1, min(16, (os.cpu_count() or 2)))
    if len(ops) < 64 or nproc == 1:
        for op in ops:
            _STATS["depth"][depth] += 1
            yield {"op": op}
        return
    ctx = multiprocessing.get_context("fork")
    with ctx.Pool(nproc) as pool:
        chunks = [ops[i:i + 32] for i in range(0, len(ops), 32)]
        it = pool.imap(_work_chunk, chunks, 1)
        for chunk in chunks:
            for op, res in zip(chunk, it.next(timeout=600)):
                _PRE[op] = res
                _STATS["depth"][depth] += 1
                yield {"op": op}


def gen_cm(rng, n):
    yield {"op": "c25 cm r0,r1,C,C,D,G,C"}
    yield {"op": "c25 cm o0,r1,C,D"}
    yield {"op": "c25 cm r0,o1,r2,G,C,D"}
    for _ in range(n):
        ops, nxt = [], 0
        for _ in range(rng.randint(1, 10)):
            r = rng.random()
            if r < 0.25 and nxt < 5:
                ops.append(("o" if rng.random() < 0.4 else "r") + str(nxt))
                nxt += 1
            elif r < 0.35 and nxt:
                ops.append("u" + str(rng.randrange(nxt)))
            else:
                ops.append(rng.choice("DGC"))
        yield {"op": "c25 cm " + ",".join(ops)}


def generate(rng, tier):
    yield from gen_cm(rng, 300 if tier == "quick" else 3000)
    configs = [(k, a) for k in KINDS for a in (True, False)]
    # depth 0 + exhaustive depth 1
    nb1, n0s = {}, {}
    for kind, auto in configs:
        base = _work(op_of(kind, auto, []))
        n0 = base[1]
        n0s[(kind, auto)] = n0
        evs = _events(kind)
        ops = [op_of(kind, auto, [])] + [op_of(kind, auto, [(b, e)]) for b in range(n0 + 2) for e in evs]
        for case in _pooled(ops, 1):
            res = _PRE.get(case["op"])
            if res is not None and res[2] == 1:
                _, _, sched = parse_op(case["op"])
                nb1[(kind, auto, sched[0])] = res[1]
            yield case
    if tier == "thorough":
        # exhaustive depth 2: second event at every boundary of the run that follows the first
        for kind, auto in configs:
            evs = _events(kind)
            ops = []
            for (k, a, (b1, e1)), n1 in sorted(nb1.items()):
                if (k, a) != (kind, auto):
                    continue
                for b2 in range(b1, n1 + 1):
                    for e2 in evs:
                        ops.append(op_of(kind, auto, [(b1, e1), (b2, e2)]))
            yield from _pooled(ops, 2)
    # sampled depth 2..4
    n = 9000 if tier == "quick" else 60000
    ops = []
    for _ in range(n):
        kind, auto = rng.choice(configs)
        evs = _events(kind)
        d = rng.choice((2, 2, 3, 3, 4))
        nmax = n0s[(kind, auto)] + 6
        sched = sorted((rng.randrange(nmax), rng.choice(evs)) for _ in range(d))
        ops.append(op_of(kind, auto, sched))
    yield from _pooled(ops, "sampled2-4")


def evidence_extra():
    return {"schedules_by_depth": {str(k): v for k, v in _STATS["depth"].items()},
            "identical_traces_not_resent_to_monitor": _STATS["dedup_lines"],
            "max_boundaries_in_a_run": _STATS["max_boundaries"],
            "schedules_with_an_event_that_found_nothing_to_hit": _STATS["not_injected"]}
