"""C16 Tampered Data Secure frames are never delivered (partial: 32-bit MAC, see Props/C16.lean).

Mode F.  A real sender produces a genuine secured L_Data frame (both algorithms); the harness changes it
(every single bit of every octet, wrong key, truncations) and feeds the octets to a real receiver's
`handle_raw_cemi`.  Whenever the changed octets still form an L_Data.ind with a SecureAPDU, the same frame goes
through the Lean model (`dsec recv`, real AES) and route + sender table must agree.
"""
from harness.dsec_common import *  # noqa: F403
from harness.cases import C15

PROPERTY = "C16"
RULE = ("for each generated genuine frame (both algorithms, random key/addresses/sequence number/payload length, "
        "TDataGroup/TDataTagGroup/TDataBroadcast): the unchanged frame, EVERY single-bit flip of every octet "
        "(exhaustive per frame), a wrong key, every truncation with and without corrected length octet; "
        "non-trivial = distinct (frame, change) pairs")
TRUSTED = [
    "a random collision of the 4-octet MAC (probability 2^-32 per changed frame) would be reported as a violation; the conditional theorem (e) says exactly that",
    "which tampered octet strings are still L_Data frames is decided by xknx's cEMI parser (C12/C13); the model line is emitted only for frames the harness' own minimal parse recognises",
]
EXHAUSTIVE = False


def base_frames(rng, n):
    for i in range(n):
        alg = (ALG_AUTH, ALG_ENC)[i % 2]
        c = C15.e2e_case(rng, alg, rng.choice([-1, 0, 1, 2, 3, 8, 14, rng.randrange(1, 60)]))
        c["seq"] = max(c["seq"], 2)
        c["last"] = rng.choice([0, c["seq"] - 1])
        if i % 3 == 2 and c["data"] != "-":
            # payloads ending in zero octets: a MAC that does not cover the APDU length cannot tell them from zero padding
            d = bytearray(unhx(c["data"]))
            d[-1:] = b"\x00"
            if len(d) > 2:
                d[-2:] = b"\x00\x00"
            c["data"] = hx(bytes(d))
        yield c


def generate(rng, tier):
    n = 12 if tier == "quick" else 200
    for b in base_frames(rng, n):
        raw, _ = C15.sender_frame(b)
        yield dict(b, kind="tamper", tamper=["none"])
        for i in range(len(raw)):
            for bit in range(8):
                yield dict(b, kind="tamper", tamper=["flip", i, bit])
        yield dict(b, kind="tamper", tamper=["wrongkey", rng.randbytes(16).hex()])
        yield dict(b, kind="tamper", tamper=["wrongkey", bytes(16).hex()])
        for k in range(1, len(raw) - 9):
            yield dict(b, kind="tamper", tamper=["trunc", k, 1])
            yield dict(b, kind="tamper", tamper=["trunc", k, 0])
        # appended octets
        yield dict(b, kind="tamper", tamper=["extend", 1, 1])
        yield dict(b, kind="tamper", tamper=["extend", 4, 1])
        # the secured APDU made shorter / longer in FRONT of the MAC (length octet adjusted): octets cut, zero / 0xff octets inserted
        for k in (1, 2, 3):
            yield dict(b, kind="tamper", tamper=["cutmid", k])
            yield dict(b, kind="tamper", tamper=["insmid", k, 0])
        yield dict(b, kind="tamper", tamper=["insmid", 1, 255])
        yield dict(b, kind="tamper", tamper=["insmid", 16, 0])


def tampered(c):
    raw, _ = C15.sender_frame(c)
    raw = bytearray(raw)
    t = c["tamper"]
    key = bytes.fromhex(c["key"])
    if t[0] == "flip":
        raw[t[1]] ^= 1 << t[2]
    elif t[0] == "wrongkey":
        key = bytes.fromhex(t[1])
    elif t[0] == "trunc":
        raw = raw[:-t[1]]
        if t[2]:
            raw[8] = len(raw) - 10
    elif t[0] == "extend":
        raw += bytes(t[1])
        raw[8] = len(raw) - 10
    elif t[0] == "cutmid":
        # octets 0..8 header, 9..10 TPCI/APCI, 11 SCF, 12..17 sequence number, then the secured APDU, then 4 MAC octets
        k = min(t[1], max(0, len(raw) - 22))
        if k:
            del raw[len(raw) - 4 - k: len(raw) - 4]
        raw[8] = (len(raw) - 10) & 0xFF
    elif t[0] == "insmid":
        raw[len(raw) - 4: len(raw) - 4] = bytes([t[2]]) * t[1]
        raw[8] = (len(raw) - 10) & 0xFF
    return bytes(raw), key


def model_line(c, raw, key):
    """Only for octet strings that are an L_Data.ind carrying a SecureAPDU (minimal parse, independent of xknx)."""
    if len(raw) < 11 or raw[0] != 0x29 or raw[1] != 0 or raw[8] != len(raw) - 10:
        return None
    ctrl = int.from_bytes(raw[2:4], "big")
    if ctrl & 0x0F:
        return None  # LTE / reserved frame formats are refused by the cEMI parser
    group = bool(ctrl & 0x80)
    tp = raw[9] & 0xFC
    dst = int.from_bytes(raw[6:8], "big")
    if group and tp not in (0x00, 0x04):
        return None
    if not group and (tp & 0x80 or (not tp & 0x40 and tp & 0x3C)):
        return None
    apdu = bytes([raw[9] & 3]) + raw[10:]
    if apdu[:2] != b"\x03\xf1" or len(apdu) < 13:
        return None
    scf = apdu[2]
    if (scf >> 4 & 7) not in (ALG_AUTH, ALG_ENC) or (scf & 7) not in SERVICES:
        return None
    src = int.from_bytes(raw[4:6], "big")
    return (f"dsec recv {c['dst']}:{key.hex()} {c['src']}:{c['last']} 1 {ctrl} {src} {dst} {tp} S {hx(apdu)} 1")


def run_impl(c):
    raw, key = tampered(c)
    r, issues = mk_xknx(0x1234, {c["dst"]: key}, {c["src"]: c["last"]}, 1)
    obs = receive_raw(r, issues, raw)
    out = route_of(obs)
    same = bool(obs["seen"]) and obs["seen"][0].payload == C15.payload_of(c)
    return {"out": out + f" same={int(same)}", "line": model_line(c, raw, key), "expect": out}


def where(c, raw_len):
    """Classify a flipped bit: 'unprotected' | 'protected' | 'framing'."""
    _, i, bit = c["tamper"]
    if i in (0, 1, 8):
        return "framing"
    if i == 2:
        return "unprotected"            # Ctrl1: frame type, reserved, repeat, broadcast, priority, ack, confirm
    if i == 3:
        return "unprotected" if (1 << bit) & 0x70 else "protected"   # hop count | AT, EFF
    return "protected"                  # addresses, TPCI/APCI, SCF, sequence number, secured APDU, MAC


def oracle(c, out):
    t = c["tamper"]
    if t[0] == "cutmid" and tampered(c)[0] == bytes(C15.sender_frame(c)[0]):
        t = ["none"]        # nothing to cut from an empty secured APDU: the frame is the genuine one
    delivered = out.startswith("telegram ")
    good = f"telegram {hx(C15.payload_of(c).to_knx())} 1 {c['src']}:{c['seq']} "
    if out.startswith("raised"):
        return f"receive path raised on a changed frame: {out[:60]}"
    if t[0] == "none":
        return None if out.startswith(good) and out.endswith("same=1") else f"genuine frame not delivered: {out[:80]}"
    if t[0] == "flip":
        raw, _ = C15.sender_frame(c)
        w = where(c, len(raw))
        if w == "unprotected":
            if not (out.startswith(good) and out.endswith("same=1")):
                return f"flipping unprotected control bit {t[2]} of octet {t[1]} changed acceptance: {out[:80]}"
            return None
        if w == "framing":
            if delivered and out.split()[2] == "1":
                return f"frame with changed framing octet {t[1]} delivered as Data Secure: {out[:80]}"
            return None
    if delivered:
        return f"changed frame ({t}) was delivered: {out[:90]}"
    if out.split()[-2] != f"{c['src']}:{c['last']}":
        return f"rejected frame ({t}) advanced the sender's counter: {out[:90]}"
    return None


def outcome_class(out):
    return out.split()[0]


def nontrivial(c, out):
    return True


def finding_key(c, msg):
    return f"{c['tamper']}:{c['tpci'][0]}:{c['alg']}"


def teardown():
    close_loop()
