"""C18 Secured group addresses never take plain data, and bad frames never crash.

Mode F.  Real `CEMIHandler.handle_raw_cemi` / `send_telegram` on real XKNX instances:
  plain    - plain data frames (valid APDUs of many services, all group TPCI kinds) to keyed / unkeyed group
             addresses, with and without Data Secure configured;
  authbad  - *correctly authenticated* secured frames (the harness owns the key) whose inner APDU is malformed:
             0/1-octet APDUs, every one of the 1024 APCI codes with short / odd payload lengths (the C04 input space),
             classified by `APCI.from_knx` itself;
  out      - telegrams sent to keyed / unkeyed / individual destinations;
  junk     - secured frames with random ASDU octets, invalid SCF values, short frames.
Model line `dsec recv` / `dsec out` (real AES) whenever the octets form an L_Data.ind the model covers.
"""
from xknx.telegram.apci import APCI

from harness.dsec_common import *  # noqa: F403
from harness.cases import C16

PROPERTY = "C18"
RULE = ("plain frames: 14 valid APDUs x {TDataGroup,TDataTagGroup,TDataBroadcast} x keyed/unkeyed x Data Secure on/off x claimed sender {known, the interface's own address, unknown, 0.0.0}; "
        "authenticated-malformed: APDUs of length 0 and 1, all 1024 APCI codes with payload lengths 0,1,2,3,5,8,12 "
        "(thorough: more) kept when APCI.from_knx refuses them, both algorithms; outgoing to keyed/unkeyed/individual; "
        "random junk in SCF/ASDU; ROUND 3: histories on ONE CEMIHandler through the real data_secure_init(keyring) - 2..4 "
        "segments, keyrings built programmatically over a pool of 4 group addresses (subsets, changed keys, no keys), "
        "None, the same keyring twice, and the repo's DataSecure_usb / DataSecure_only_one_interface test keyrings; "
        "per segment plain and secured incoming frames and outgoing telegrams to pool addresses; "
        "non-trivial = distinct cases")
TRUSTED = [
    "innerOk is computed by calling APCI.from_knx on the plaintext the harness chose (C04 owns that parser)",
    "which octet strings are L_Data frames is decided by xknx's cEMI parser (C12/C13)",
]
VALID = ["0000", "0040", "0081", "0080ff", "004001", "0080aabbccdd", "0100", "0140", "0300", "0340", "03d50110",
         "03d6011001ff", "0043", "00800102030405060708090a0b0c0d0e"]
KEY = bytes(range(1, 17))
DST_KEYED, DST_FREE = 0x0A03, 0x0A04
SRC = 0x1101
OWN = 0x1234    # current_address of every XKNX the harness builds


# ---- round 3: one handler across data_secure_init() calls -------------------------------------------------
GA_POOL = [0x0001, 0x0003, 0x0A03, 0xFFFF]       # 0/0/1, 0/0/3, 1/2/3, 31/7/255 (the repo's test keyrings key 1, 3, 0xFFFF)
KEYFILES = {"usb": "DataSecure_usb.knxkeys", "one": "DataSecure_only_one_interface.knxkeys"}
_KEYFILE_CACHE = {}


def keyring_of(spec):
    """A real `Keyring` object: built programmatically, or loaded from the repo's test resources."""
    import os
    from pathlib import Path
    from xknx.secure.keyring import Keyring, XMLDevice, XMLGroupAddress, sync_load_keyring
    if spec["type"] == "none":
        return None
    if spec["type"] == "file":
        if spec["name"] not in _KEYFILE_CACHE:
            repo = Path(os.environ.get("XKNX_REPO", "/repo"))
            _KEYFILE_CACHE[spec["name"]] = sync_load_keyring(
                repo / "test/secure_tests/resources" / KEYFILES[spec["name"]], "test")
        return _KEYFILE_CACHE[spec["name"]]
    kr = Keyring()
    for ga, key in spec["keys"].items():
        g = XMLGroupAddress()
        g.address = GroupAddress(int(ga))
        g.decrypted_key = bytes.fromhex(key)
        kr.group_addresses.append(g)
    for ia, seq in spec["devices"].items():
        d = XMLDevice()
        d.individual_address = IndividualAddress(int(ia))
        d.sequence_number = seq
        kr.devices.append(d)
    return kr


def tables_of(kr):
    """(group key table, sender table) as plain dicts - what the keyring declares."""
    if kr is None:
        return None, None
    return ({ga.raw: k for ga, k in kr.get_data_secure_group_keys().items()},
            {ia.raw: s for ia, s in kr.get_data_secure_senders().items()})


def gen_reinit(rng):
    keypool = {ga: rng.randbytes(16).hex() for ga in GA_POOL}
    segs, prev = [], None
    for i in range(rng.choice([2, 2, 3, 4])):
        t = rng.choice(["rand"] * 6 + ["none", "same", "file_usb", "file_one", "nokeys"])
        if t == "same" and prev is not None:
            spec = prev
        elif t == "none":
            spec = {"type": "none"}
        elif t.startswith("file_"):
            spec = {"type": "file", "name": t[5:]}
        else:
            gas = [] if t == "nokeys" else rng.sample(GA_POOL, rng.randrange(1, len(GA_POOL) + 1))
            spec = {"type": "rand",
                    "keys": {str(ga): (keypool[ga] if rng.random() < 0.7 else rng.randbytes(16).hex()) for ga in gas},
                    "devices": {str(SRC): rng.choice([0, 5, 1000])} if rng.random() < 0.8 else {}}
        prev = spec
        evs = []
        for _ in range(rng.randrange(1, 6)):
            k = rng.choice(["in", "in", "in", "out", "out", "outp2p", "sec"])
            dst = rng.choice(GA_POOL)
            if k == "in":
                evs.append({"e": "in", "dst": dst, "apdu": rng.choice(["0081", "0080aabb", "0000"])})
            elif k == "out":
                evs.append({"e": "out", "dst": dst, "group": 1, "apdu": rng.choice(["0081", "0080aabb"])})
            elif k == "outp2p":
                evs.append({"e": "out", "dst": 0x1105, "group": 0, "apdu": "0300"})
            else:
                evs.append({"e": "sec", "dst": dst, "apdu": "0081", "seq": rng.choice([1, 6, 2000, 2**40])})
        segs.append({"keyring": spec, "clock": 1000 * (10 + 7 * i + rng.randrange(5)), "events": evs})
    return {"kind": "reinit", "segments": segs}


def run_reinit(c):
    import time as _t
    from xknx.secure import data_secure as dsmod
    (x, issues), _ = mk_xknx(OWN, None, {}, 1), None
    recs, toks = [], []
    for seg in c["segments"]:
        kr = keyring_of(seg["keyring"])
        keys, senders = tables_of(kr)
        real_time = _t.time
        _t.time = lambda: dsmod._SEQUENCE_NUMBER_INIT_TIMESTAMP + seg["clock"] // 1000   # -> counter = clock exactly
        try:
            x.cemi_handler.data_secure_init(kr)
            recs.append("init on" if x.cemi_handler.data_secure is not None else "init off")
        except DataSecureError:
            recs.append("init error")
        finally:
            _t.time = real_time
        toks.append("i;none;-;0" if kr is None else
                    f"i;{fmt_keys({g: k for g, k in keys.items()}) if keys else '-'};{fmt_table(senders)};{seg['clock']}")
        for e in seg["events"]:
            ds = x.cemi_handler.data_secure
            if e["e"] == "out":
                dst = GroupAddress(e["dst"]) if e["group"] else IndividualAddress(e["dst"])
                tg = Telegram(destination_address=dst, payload=APCI.from_knx(unhx(e["apdu"])))
                cemi, exc = send(x, tg)
                if exc:
                    recs.append("dserror" if exc == "dsec" else f"raised {exc}")
                elif isinstance(cemi.data.payload, apci.SecureAPDU):
                    recs.append(f"secured {hx(cemi.data.payload.to_knx())} {ds._sequence_number_sending}")
                else:
                    recs.append("plain")
                toks.append(f"s;{0xBCE0 if e['group'] else 0xB060};{OWN};{e['dst']};0;P;{e['apdu']}")
                continue
            apdu = unhx(e["apdu"])
            if e["e"] == "sec":
                key = (keys or {}).get(e["dst"]) or bytes(16)
                scf = scf_raw(ALG_ENC)
                sd = SecureData.init_from_plain_apdu(
                    key=key, apdu=apdu, scf=mk_scf(scf), sequence_number=e["seq"],
                    address_fields_raw=addr_fields(SRC, e["dst"]), address_type=CEMIAddressType.GROUP,
                    frame_format=CEMIFrameFormat.STANDARD, tpci=tpci.TDataGroup())
                apdu = bytes([0x03, 0xF1, scf]) + sd.to_knx()
                body = f"S;{hx(apdu)}"
            else:
                body = f"P;{e['apdu']}"
            obs = receive_raw(x, issues, build_ldata(0x29, 0xBCE0, SRC, e["dst"], apdu))
            recs.append(route_of(obs))
            toks.append(f"r;{0xBCE0};{SRC};{e['dst']};0;{body};1")
    out = " ; ".join(recs)
    return {"out": out, "line": "dsec khist " + " ".join(toks), "expect": out}


def oracle_reinit(c, out):
    """'Current keyring' = the argument of the LAST data_secure_init."""
    recs = out.split(" ; ")
    i = 0
    for n, seg in enumerate(c["segments"]):
        keys, _ = tables_of(keyring_of(seg["keyring"]))
        on = bool(keys)
        if recs[i] != ("init on" if on else "init off"):
            return f"segment {n}: data_secure_init({seg['keyring']['type']}) -> '{recs[i]}', expected {'on' if on else 'off'}"
        i += 1
        for e in seg["events"]:
            r = recs[i]
            i += 1
            if r.startswith("raised"):
                return f"segment {n}: {e} raised ({r})"
            keyed = on and e["dst"] in keys and e.get("group", 1)
            what = f"0x{e['dst']:04x} (keyring #{n} {'keys' if keyed else 'does not key'} it)"
            if e["e"] == "in":
                if keyed and not r.startswith("keyissue 1 "):
                    return f"segment {n}: plain frame to group address {what} ended as '{r[:40]}', expected key issue only"
                if not keyed and not r.startswith(f"telegram {e['apdu']} 0 "):
                    return f"segment {n}: plain frame to group address {what} ended as '{r[:40]}', expected plain delivery"
            elif e["e"] == "out":
                if keyed and keys[e["dst"]] and not r.startswith("secured "):
                    return f"segment {n}: outgoing telegram to {what} handed over as '{r[:30]}'"
                if not keyed and r != "plain":
                    return f"segment {n}: outgoing telegram to {what} handed over as '{r[:30]}'"
            else:
                if not keyed and r.startswith("telegram "):
                    return f"segment {n}: secured frame to {what} was delivered"
    return None


def classify(apdu: bytes) -> str:
    try:
        APCI.from_knx(apdu)
        return "ok"
    except ConversionError as e:
        return type(e).__name__


def generate(rng, tier):
    reps = 2 if tier == "quick" else 12
    valid = [a for a in VALID if classify(unhx(a)) == "ok"]
    assert len(valid) >= 8, valid
    for apdu in valid:
        for tp in (["TDataGroup", 0], ["TDataTagGroup", 0], ["TDataBroadcast", 0]):
            for keyed in (1, 0):
                for ds in (1, 0):
                    yield {"kind": "plain", "apdu": apdu, "tpci": tp, "keyed": keyed, "ds": ds,
                           "ctrl1": rng.choice([0xBC, 0x94, 0xB0, 0x3C])}
                    # the claimed sender is an axis too: the interface's own address (a looped-back or spoofed frame), a sender
                    # missing from the Security Individual Address Table, 0.0.0
                    for src in (OWN, 0x1FFF, 0):
                        yield {"kind": "plain", "apdu": apdu, "tpci": tp, "keyed": keyed, "ds": ds, "src": src,
                               "ctrl1": rng.choice([0xBC, 0x94, 0xB0, 0x3C])}
    # a key table entry with an empty key is treated as "no key" (`if key := table.get(dst)`)
    for apdu in valid[:4]:
        yield {"kind": "emptykey", "apdu": apdu, "dir": "in"}
        yield {"kind": "emptykey", "apdu": apdu, "dir": "out"}
    seq = 10
    lens = [0, 1, 2, 3, 5, 8, 12] if tier == "quick" else list(range(0, 16)) + [20, 40, 100, 200, 238]
    for apdu in ("-", "00", "03", "ff"):
        for alg in (ALG_AUTH, ALG_ENC):
            yield {"kind": "authbad", "apdu": apdu, "alg": alg, "tpci": ["TDataGroup", 0], "seq": seq}
    for code in range(1024):
        for n in (lens if tier != "quick" else rng.sample(lens, 3)):
            low = rng.randrange(64) if code & 0x3C0 != 0x3C0 and code & 0x3C0 != 0x2C0 and rng.random() < 0.3 else 0
            apdu = bytes([code >> 8, (code & 0xFF) | (low if code & 0x3F == 0 else 0)]) + rng.randbytes(n)
            if classify(apdu) == "ok":
                continue
            yield {"kind": "authbad", "apdu": hx(apdu), "alg": rng.choice([ALG_AUTH, ALG_ENC]),
                   "tpci": rng.choice([["TDataGroup", 0]] * 4 + [["TDataTagGroup", 0], ["TDataBroadcast", 0]]),
                   "seq": rng.choice([10, 11, 2**48 - 1, rng.randrange(10, 2**48)])}
    for _ in range(30 * reps):   # authentic and well-formed, for contrast
        yield {"kind": "authbad", "apdu": rng.choice(valid), "alg": rng.choice([ALG_AUTH, ALG_ENC]),
               "tpci": ["TDataGroup", 0], "seq": rng.randrange(10, 2**48)}
    for apdu in valid[:6]:
        for dst, group in ((DST_KEYED, 1), (DST_FREE, 1), (0x1105, 0)):
            yield {"kind": "out", "apdu": apdu, "dst": dst, "group": group, "seq": rng.choice([5, 2**48 - 1, 2**48])}
    for _ in range(150 * reps):
        yield gen_reinit(rng)
    for _ in range(300 * reps):
        n = rng.choice([0, 1, 5, 9, 10, 11, 12, 20])
        scf = rng.randrange(256) if rng.random() < 0.5 else scf_raw(rng.choice([0, 1]), 0)
        yield {"kind": "junk", "tpdu": hx(bytes([0x03, 0xF1, scf]) + rng.randbytes(n)),
               "dst": rng.choice([DST_KEYED, DST_FREE]), "ctrl": rng.choice([0xBCE0, 0xBC60, 0x3CE0, 0xBCE4, 0xBCE1])}


def setup_case(c):
    keys = {DST_KEYED: KEY} if c.get("ds", 1) else None
    if c.get("tpci", [""])[0] == "TDataBroadcast" and c.get("keyed"):
        keys = {0: KEY} if keys is not None else None
    return mk_xknx(0x1234, keys, {SRC: 5}, 1), keys


def run_impl(c):
    if c["kind"] == "reinit":
        return run_reinit(c)
    (r, issues), keys = setup_case(c)
    k = c["kind"]
    if k == "out":
        r.cemi_handler.data_secure._sequence_number_sending = c["seq"]
        dst = GroupAddress(c["dst"]) if c["group"] else IndividualAddress(c["dst"])
        tg = Telegram(destination_address=dst, payload=APCI.from_knx(unhx(c["apdu"])))
        cemi, exc = send(r, tg)
        ds = r.cemi_handler.data_secure
        if exc:
            out = f"dserror {ds._sequence_number_sending}" if exc == "dsec" else f"raised {exc} {ds._sequence_number_sending}"
        elif isinstance(cemi.data.payload, apci.SecureAPDU):
            out = f"secured {hx(cemi.data.payload.to_knx())} {ds._sequence_number_sending}"
        else:
            out = f"plain {ds._sequence_number_sending}"
        flag = "" if exc else f" flag={int(bool(tg.data_secure))}"
        ctrl = 0xBCE0 if c["group"] else 0xB060
        tp = 0
        line = f"dsec out {DST_KEYED}:{KEY.hex()} {c['seq']} {ctrl} {0x1234} {c['dst']} {tp} P {c['apdu']}"
        return {"out": out + flag, "line": line, "expect": out}
    if k == "emptykey":
        (r, issues), keys = mk_xknx(0x1234, {DST_KEYED: b""}, {SRC: 5}, 7), {DST_KEYED: b""}
        if c["dir"] == "out":
            tg = Telegram(destination_address=GroupAddress(DST_KEYED), payload=APCI.from_knx(unhx(c["apdu"])))
            cemi, exc = send(r, tg)
            ds = r.cemi_handler.data_secure
            out = f"raised {exc} {ds._sequence_number_sending}" if exc else (
                f"secured {hx(cemi.data.payload.to_knx())} {ds._sequence_number_sending}"
                if isinstance(cemi.data.payload, apci.SecureAPDU) else f"plain {ds._sequence_number_sending}")
            return {"out": out, "line": f"dsec out {DST_KEYED}: 7 {0xBCE0} {0x1234} {DST_KEYED} 0 P {c['apdu']}",
                    "expect": out}
        apdu = unhx(c["apdu"])
        raw = build_ldata(0x29, 0xBCE0, SRC, DST_KEYED, apdu)
        obs = receive_raw(r, issues, raw)
        out = route_of(obs)
        return {"out": out, "line": f"dsec recv {DST_KEYED}: {SRC}:5 7 {0xBCE0} {SRC} {DST_KEYED} 0 P {c['apdu']} 1",
                "expect": out}
    if k == "plain":
        tp = mk_tpci(c["tpci"]).to_knx()
        dst = 0 if c["tpci"][0] == "TDataBroadcast" else (DST_KEYED if c["keyed"] else DST_FREE)
        apdu = unhx(c["apdu"])
        src = c.get("src", SRC)
        raw = build_ldata(0x29, (c["ctrl1"] << 8) | 0xE0, src, dst, bytes([apdu[0] | tp]) + apdu[1:])
        body = f"P {c['apdu']}"
    elif k == "authbad":
        tp = mk_tpci(c["tpci"]).to_knx()
        dst = 0 if c["tpci"][0] == "TDataBroadcast" else DST_KEYED
        if c["tpci"][0] == "TDataBroadcast":
            (r, issues), keys = mk_xknx(0x1234, {0: KEY}, {SRC: 5}, 1), {0: KEY}
        scf = scf_raw(c["alg"])
        sd = SecureData.init_from_plain_apdu(
            key=KEY, apdu=unhx(c["apdu"]), scf=mk_scf(scf), sequence_number=c["seq"],
            address_fields_raw=addr_fields(SRC, dst), address_type=CEMIAddressType.GROUP,
            frame_format=CEMIFrameFormat.STANDARD, tpci=mk_tpci(c["tpci"]))
        sec = bytes([0x03, 0xF1, scf]) + sd.to_knx()
        raw = build_ldata(0x29, 0xBCE0, SRC, dst, bytes([sec[0] | tp]) + sec[1:])
        body = f"S {hx(sec)}"
    else:
        tpdu = unhx(c["tpdu"])
        dst, tp = c["dst"], 0
        raw = build_ldata(0x29, c["ctrl"], SRC, dst, tpdu)
        body = None
    obs = receive_raw(r, issues, raw)
    out = route_of(obs)
    if k == "junk":
        line = C16.model_line({"dst": DST_KEYED, "src": SRC, "last": 5}, raw, KEY)
    else:
        inner = int(classify(unhx(c["apdu"])) == "ok")
        kstr = fmt_keys(keys)
        line = f"dsec recv {kstr} {SRC}:5 1 {int.from_bytes(raw[2:4], 'big')} {c.get('src', SRC)} {dst} {tp} {body} {inner}"
    return {"out": out + f" q={len(obs['queued'])} issues={len(obs['issues'])} undec={obs['undecoded']}",
            "line": line, "expect": out}


def oracle(c, out):
    if c["kind"] == "reinit":
        return oracle_reinit(c, out)
    k = c["kind"]
    if k == "emptykey":
        return None if not out.startswith("raised") else f"empty key entry made the path raise: {out}"
    if out.startswith("raised"):
        return f"the {'send' if k == 'out' else 'receive'} path raised {out.split()[1]} ({k}, {c.get('apdu', c.get('tpdu'))})"
    if k == "out":
        keyed = c["group"] and c["dst"] == DST_KEYED
        if keyed and c["seq"] <= SEQ_MAX and not (out.startswith("secured ") and out.endswith("flag=1")):
            return f"telegram to keyed group address left as '{out[:40]}'"
        if keyed and c["seq"] > SEQ_MAX and not out.startswith("dserror"):
            return f"telegram to keyed group address with exhausted counter: '{out[:40]}'"
        if not keyed and not (out.startswith("plain ") and out.endswith("flag=0")):
            return f"telegram to unkeyed destination: '{out[:40]}'"
        return None
    delivered = out.startswith("telegram ")
    if k == "plain":
        secure_ga = bool(c["ds"] and c["keyed"])
        if secure_ga:
            if delivered or " q=0 " not in out:
                return f"plain {c['tpci'][0]} frame to a keyed group address was delivered: {out[:70]}"
            want_cb = 1 if c["tpci"][0] == "TDataGroup" else 0
            if f"issues={want_cb} undec=1" not in out:
                return f"plain frame to keyed address: key-issue reporting wrong ({out[-26:]}), expected callbacks={want_cb}"
        else:
            if not out.startswith(f"telegram {c['apdu']} 0 "):
                return f"plain frame to unkeyed address not delivered as plain: {out[:70]}"
        return None
    if k == "authbad":
        ok = classify(unhx(c["apdu"])) == "ok"
        if ok and not out.startswith("telegram "):
            return f"authentic well-formed frame not delivered: {out[:60]}"
        if not ok and delivered:
            return f"authentic frame with malformed inner APDU {c['apdu']} delivered: {out[:60]}"
        return None
    if delivered and out.split()[2] == "1" and c["dst"] == DST_KEYED:
        return f"junk secured frame delivered: {out[:60]}"
    return None


def outcome_class(out):
    return out.split()[0]


def finding_key(c, msg):
    return f"{c['kind']}:{msg.split('(')[0].strip()[:60]}"


def shrink(c, msg):
    if c["kind"] != "reinit":
        return c
    want = msg.split(":")[1][:25] if ":" in msg else msg[:25]

    def fails(c2):
        try:
            m = oracle(c2, run_impl(c2)["out"])
        except Exception:  # noqa: BLE001
            return False
        return bool(m) and want in m

    best = c
    changed = True
    while changed:
        changed = False
        segs = best["segments"]
        for i in range(len(segs)):          # drop one event at a time (segment numbers stay, so the message class does)
            for j in range(len(segs[i]["events"])):
                c2 = {"kind": "reinit", "segments": [dict(sg, events=sg["events"][:j] + sg["events"][j + 1:]) if k == i else sg
                                                     for k, sg in enumerate(segs)]}
                if fails(c2):
                    best, changed = c2, True
                    break
            if changed:
                break
        if not changed and len(segs) > 1:
            c2 = {"kind": "reinit", "segments": segs[:-1]}
            if fails(c2):
                best, changed = c2, True
    return best


def teardown():
    close_loop()
