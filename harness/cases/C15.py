"""C15 Data Secure frames decrypt to exactly what was sent.

Mode F.  Three kinds of case:
  asdu  - `SecureData.init_from_plain_apdu` then `SecureData.from_knx(...).get_plain_apdu` on the real code
          (any octet string as APDU, both algorithms, every TPCI kind, boundary/erroneous inputs); model line
          `dsec secure ...` must give the same ASDU / error class;
  e2e   - two real XKNX instances back to back: the sender's `CEMIHandler.send_telegram` (or, for
          authentication-only, `DataSecure._secure_data_cemi`) produces the frame, unprotected control bits are
          changed on the way, the receiver's `handle_raw_cemi` gets the octets; model line `dsec recv ...` must
          give the same route and sender table;
  out   - the sender alone: `DataSecure.outgoing_cemi` against `dsec out ...`.
The Lean driver runs the real AES-128.
"""
from harness.dsec_common import *  # noqa: F403

PROPERTY = "C15"
RULE = ("random keys, individual/group addresses (+boundary dictionary), TPCI kinds, 48-bit sequence numbers "
        "(0/1/2^47/2^48-2/2^48-1), every data length 1..240 for both algorithms end-to-end and every APDU length "
        "0..255 at ASDU level; separate stream of inputs the sender must refuse (seq 2^48, 256-octet APDU); "
        "non-trivial = distinct cases (each has a fresh key and payload)")
TRUSTED = [
    "Lean AES-128 validated against FIPS-197 vectors (kernel) and OpenSSL (C19 run); the round-trip theorems do not depend on it (generic in E)",
    "innerOk (APCI.from_knx accepts the delivered APDU) is an input of the model; the APCI codec is C04/C05",
]
SEQS = [1, 2, 255, 256, 2**47, 2**48 - 2, 2**48 - 1]
ADDRS = [1, 0x00FF, 0x0100, 0x1101, 0x7FFF, 0x8000, 0xFFFF]
TPCIS = [["TDataGroup", 0], ["TDataBroadcast", 0], ["TDataTagGroup", 0], ["TDataIndividual", 0]] + \
        [["TDataConnected", s] for s in (0, 1, 9, 15)]


def pick(rng, boundary, hi, lo=0):
    return rng.choice(boundary) if rng.random() < 0.3 else rng.randrange(lo, hi)


def asdu_case(rng, alg, n, bad=None):
    key = rng.randbytes(16)
    seq = pick(rng, [0] + SEQS, 2**48)
    src, dst = pick(rng, [0] + ADDRS, 65536), pick(rng, [0] + ADDRS, 65536)
    tp = rng.choice(TPCIS)
    scf = scf_raw(alg, rng.choice(SERVICES), bool(rng.randrange(2)), bool(rng.randrange(2)))
    if bad == "seq":
        seq = rng.choice([2**48, 2**48 + 1, 2**60])
    if bad == "len":
        n = rng.choice([256, 257, 300])
    return {"kind": "asdu", "key": key.hex(), "scf": scf, "seq": seq, "src": src, "dst": dst,
            "group": rng.randrange(2), "eff": rng.choice(FORMATS), "tpci": tp, "apdu": hx(rng.randbytes(n))}


def e2e_case(rng, alg, n, kind="e2e"):
    """n = number of data octets of a GroupValueWrite/Response (0 = 6-bit value, -1 = GroupValueRead)."""
    tp = rng.choice([["TDataGroup", 0]] * 6 + [["TDataTagGroup", 0], ["TDataBroadcast", 0]])
    dst = 0 if tp[0] == "TDataBroadcast" else pick(rng, ADDRS, 65536, 1)
    seq = pick(rng, SEQS, 2**48, 1)
    return {"kind": kind, "key": rng.randbytes(16).hex(), "alg": alg, "seq": seq,
            "last": rng.choice([0, seq - 1, rng.randrange(seq)]),
            "src": pick(rng, ADDRS, 65536, 1), "dst": dst, "tpci": tp,
            "svc": rng.choice(["write", "response"]) if n >= 0 else "read",
            "data": hx(rng.randbytes(n)) if n > 0 else "-", "bits": rng.randrange(64),
            # unprotected bits changed on the way: hop count, priority, repeat flag, frame type bit, ack request
            "hop": rng.randrange(8), "prio": rng.randrange(4), "rep": rng.randrange(2), "ack": rng.randrange(2)}


def generate(rng, tier):
    reps = 2 if tier == "quick" else 20
    for _ in range(reps):
        for n in range(-1, 241):
            for alg in (ALG_AUTH, ALG_ENC):
                yield e2e_case(rng, alg, n)
        for n in range(0, 256, 1 if tier != "quick" else 3):
            for alg in (ALG_AUTH, ALG_ENC):
                yield asdu_case(rng, alg, n)
        for n in range(-1, 241, 7):
            yield e2e_case(rng, ALG_ENC, n, kind="out")
    # histories: genuine frames of one sender interleaved with damaged copies (bad MAC / changed sequence number /
    # changed payload) - every genuine frame must still be delivered exactly (oracle only; the counter table model is C17's)
    for _ in range(60 * reps):
        m = rng.randrange(2, 6)
        yield {"kind": "hist", "key": rng.randbytes(16).hex(), "seq": pick(rng, [1, 255, 2**47], 2**40, 1),
               "src": pick(rng, ADDRS, 65536, 1), "dst": pick(rng, ADDRS, 65536, 1),
               "steps": [{"data": hx(rng.randbytes(rng.choice([1, 2, 4, 14, 16, 100]))),
                          "damage": rng.choice([None, None, "mac", "seq-up", "seq-top", "payload"]),
                          "bit": rng.randrange(8)} for _ in range(m)]}
    for _ in range(40 * reps):  # inputs the sender must refuse
        yield asdu_case(rng, rng.choice([ALG_AUTH, ALG_ENC]), rng.randrange(20), bad=rng.choice(["seq", "len"]))


def payload_of(c):
    if c["svc"] == "read":
        return apci.GroupValueRead()
    cls = apci.GroupValueWrite if c["svc"] == "write" else apci.GroupValueResponse
    return cls(DPTArray(tuple(unhx(c["data"])))) if c["data"] != "-" else cls(DPTBinary(c["bits"]))


def sender_frame(c):
    """Real sender: returns (raw L_Data.ind octets with unprotected bits changed, model fields)."""
    key = bytes.fromhex(c["key"])
    s, _ = mk_xknx(c["src"], {c["dst"]: key}, {}, c["seq"])
    tg = Telegram(destination_address=GroupAddress(c["dst"]), payload=payload_of(c), tpci=mk_tpci(c["tpci"]))
    if c["alg"] == ALG_ENC:
        cemi, exc = send(s, tg)
        if exc:
            return None, exc
        data = cemi.data
        assert tg.data_secure is True
    else:
        plain = CEMILData.init_from_telegram(tg, src_addr=IndividualAddress(c["src"]))
        data = s.cemi_handler.data_secure._secure_data_cemi(key=key, scf=mk_scf(scf_raw(ALG_AUTH)), cemi_data=plain)
    raw = bytearray(CEMIFrame(code=CEMIMessageCode.L_DATA_IND, data=data).to_knx())
    # Ctrl1: FT r R SB P P A C ; Ctrl2: AT H H H E E E E  - change only unprotected bits
    raw[2] = (raw[2] & 0x91) | (c["rep"] << 5) | (c["prio"] << 2) | (c["ack"] << 1)
    raw[3] = (raw[3] & 0x8F) | (c["hop"] << 4)
    return bytes(raw), s


def run_impl(c):
    if c["kind"] == "asdu":
        key = bytes.fromhex(c["key"])
        apdu = unhx(c["apdu"])
        t = mk_tpci(c["tpci"]).to_knx()
        sec = real_secure(key, c["scf"], c["seq"], c["src"], c["dst"], bool(c["group"]), c["eff"], c["tpci"], apdu)
        back = "-"
        if sec.startswith("ok "):
            back = real_plain(key, c["scf"], c["src"], c["dst"], bool(c["group"]), c["eff"], c["tpci"], unhx(sec[3:]))
        line = (f"dsec secure {c['key']} {c['scf']} {c['seq']} {c['src']} {c['dst']} {c['group']} {c['eff']} {t} "
                f"{c['apdu']}")
        return {"out": f"{sec} | {back}", "line": line, "expect": sec}
    if c["kind"] == "out":
        key = bytes.fromhex(c["key"])
        s, _ = mk_xknx(c["src"], {c["dst"]: key}, {}, c["seq"])
        tg = Telegram(destination_address=GroupAddress(c["dst"]), payload=payload_of(c), tpci=mk_tpci(c["tpci"]))
        plain = CEMILData.init_from_telegram(tg, src_addr=IndividualAddress(c["src"]))
        ctrl = int.from_bytes(plain.to_knx()[0:2], "big")
        try:
            o = s.cemi_handler.data_secure.outgoing_cemi(plain)
            out = f"secured {hx(o.payload.to_knx())} {s.cemi_handler.data_secure._sequence_number_sending}" \
                if isinstance(o.payload, apci.SecureAPDU) else f"plain {s.cemi_handler.data_secure._sequence_number_sending}"
        except Exception as e:  # noqa: BLE001
            out = f"raised {exc_class(e)} {s.cemi_handler.data_secure._sequence_number_sending}"
        line = (f"dsec out {c['dst']}:{c['key']} {c['seq']} {ctrl} {c['src']} {c['dst']} "
                f"{mk_tpci(c['tpci']).to_knx()} P {hx(payload_of(c).to_knx())}")
        return {"out": out, "line": line, "expect": out}
    if c["kind"] == "hist":
        key = bytes.fromhex(c["key"])
        snd, _ = mk_xknx(c["src"], {c["dst"]: key}, {}, c["seq"])
        rcv, issues = mk_xknx(0x1234, {c["dst"]: key}, {c["src"]: c["seq"] - 1}, 1)
        res = []
        for st in c["steps"]:
            pay = apci.GroupValueWrite(DPTArray(tuple(unhx(st["data"]))))
            cemi, exc = send(snd, Telegram(destination_address=GroupAddress(c["dst"]), payload=pay))
            if exc:
                res.append(f"S!{exc}")
                continue
            raw = bytearray(CEMIFrame(code=CEMIMessageCode.L_DATA_IND, data=cemi.data).to_knx())
            if st["damage"]:
                bad = bytearray(raw)
                if st["damage"] == "mac":
                    bad[-1 - st["bit"] % 4] ^= 1 << st["bit"]
                elif st["damage"] == "seq-up":
                    bad[17] = (bad[17] + 1 + st["bit"]) & 0xFF      # low octet of the 48-bit sequence number
                elif st["damage"] == "seq-top":
                    bad[12] |= 0x40                                   # a much higher sequence number
                else:
                    bad[18] ^= 1 << st["bit"]                         # first octet of the secured APDU
                obs = receive_raw(rcv, issues, bytes(bad))
                res.append("X" + str(int(bool(obs["seen"]) or bool(obs["queued"]))) + (f"!{obs['raised']}" if obs["raised"] else ""))
            obs = receive_raw(rcv, issues, bytes(raw))
            ok = len(obs["seen"]) == 1 and obs["seen"][0].payload == pay and obs["seen"][0].data_secure is True
            res.append("D" + str(int(ok)) + (f"!{obs['raised']}" if obs["raised"] else ""))
        return {"out": " ".join(res), "line": None}
    raw, s = sender_frame(c)
    if raw is None:
        return f"send-failed {s}"
    r, issues = mk_xknx(0x1234, {c["dst"]: bytes.fromhex(c["key"])}, {c["src"]: c["last"]}, 1)
    obs = receive_raw(r, issues, raw)
    out = route_of(obs)
    extra = f" q={len(obs['queued'])} issues={len(obs['issues'])}"
    line = (f"dsec recv {c['dst']}:{c['key']} {c['src']}:{c['last']} 1 {int.from_bytes(raw[2:4], 'big')} "
            f"{c['src']} {c['dst']} {raw[9] & 0xFC} S {hx(bytes([raw[9] & 3]) + raw[10:])} 1")
    same = bool(obs["seen"]) and obs["seen"][0].payload == payload_of(c)
    return {"out": out + extra + f" same={int(same)}", "line": line, "expect": out}


def oracle(c, out):
    if c["kind"] == "asdu":
        sec, back = out.split(" | ")
        must = c["seq"] < 2**48 and len(unhx(c["apdu"])) <= 255
        if must and not sec.startswith("ok "):
            return f"sender refuses a representable input: {sec}"
        if not must and sec.startswith("ok "):
            return None  # authentication-only has no one-octet length; nothing forbidden by the property
        if sec.startswith("ok ") and back != "ok " + c["apdu"]:
            return f"get_plain_apdu(init_from_plain_apdu(apdu)) = {back}, expected the {len(unhx(c['apdu']))}-octet APDU back"
        return None
    if c["kind"] == "out":
        if not out.startswith("secured "):
            return f"outgoing frame to a keyed group address was not secured: {out[:60]}"
        return None
    if c["kind"] == "hist":
        for i, tok in enumerate(out.split()):
            if tok.startswith("D") and tok != "D1":
                return f"history step {i}: a genuine frame of a known sender with a fresh sequence number was not delivered exactly ({out})"
            if tok.startswith("X") and tok != "X0":
                return f"history step {i}: a damaged frame was delivered or made the receive path raise ({out})"
            if tok.startswith("S"):
                return f"history step {i}: sender failed ({out})"
        return None
    if out.startswith("send-failed"):
        return f"sender could not send: {out}"
    apdu = hx(payload_of(c).to_knx())
    want = f"telegram {apdu} 1 {c['src']}:{c['seq']}"
    if not out.startswith(want + " "):
        return f"receiver outcome '{out[:90]}', expected the original APDU delivered as Data Secure and counter {c['seq']} stored"
    if " same=1" not in out:
        return "delivered payload object differs from the one sent"
    if c["tpci"][0] == "TDataGroup" and " q=1 " not in out:
        return "TDataGroup telegram did not reach xknx.telegrams exactly once"
    if " issues=0" not in out:
        return "key-issue callback ran for a genuine frame"
    return None


def outcome_class(out):
    return " ".join(out.split()[:1]) + ("" if "|" not in out else " asdu")


def finding_key(c, msg):
    if c["kind"] == "hist":
        return "hist:" + ",".join(str(st["damage"]) for st in c["steps"])
    return f"{c['kind']}:{c['tpci'][0]}:{c.get('alg', c.get('scf'))}"


def teardown():
    close_loop()
