"""C37 The device registry dispatches each telegram to exactly the right devices (mode F, whole history = one line)."""
from __future__ import annotations

import itertools

from xknx import XKNX
from xknx.dpt import DPTArray, DPTBinary
from xknx.telegram import GroupAddress, IndividualAddress, Telegram, TelegramDirection
from xknx.telegram.address import InternalGroupAddress
from xknx.telegram.apci import GroupValueRead, GroupValueResponse, GroupValueWrite

from harness import devpool as P

PROPERTY = "C37"
RULE = ("generated add / remove / re-add / telegram histories (<=200 ops; plus every history of length <=4 (quick) / <=5 (thorough) "
        "over a 3-device pool and over a composite pool {ClimateMode, Climate(mode=that ClimateMode), Switch}) on a real xknx.devices.Devices holding devices of every device class that share up to 8 group/"
        "internal addresses (same address in several remote values of one device, passive addresses, all address notations; composite "
        "devices - every class with a sub-device parameter, found by introspection - get a sub-device that is itself a pool member, "
        "added/removed independently); telegram destinations / looked-up addresses = configured addresses + addresses nobody can use "
        "{GroupAddress(0) broadcast, 65534, an unused group address, an unused internal address} + an individual address; "
        "after every op devices_by_group_address must equal the naive has_group_address / "
        "group_addresses scan over the LIVE registered devices in registration order; after "
        "every op the registered devices and devices_by_group_address of EVERY pool address are compared by identity and order with "
        "the Lean model, and the Device.process calls made per telegram are recorded; non-trivial = distinct (pool, history) with at "
        "least one successful add, one successful remove or refused op, and one telegram that reached a device")
TRUSTED = [
    "model XknxVerif.Model.Devices is hand-written; a device is an identity plus the address set Device.group_addresses() returned when the pool was built "
    "(the harness checks that set equals the configured addresses and is unchanged at the end of the history)",
    "Device.process is replaced per instance by a recorder (the registry's dispatch is observed, not the devices' reaction)",
]
CASE_TIMEOUT = 20.0

CLASSES = list(P.device_classes())

FIXED3 = [
    {"cls": "Switch", "extra": 0, "ga": {"group_address": [[0, 1], 6], "group_address_state": [[1], 0]}},
    {"cls": "Light", "extra": 0, "ga": {"group_address_switch": [[1], 1], "group_address_brightness": [[1], 2]}},
    {"cls": "Sensor", "extra": 0, "ga": {"group_address_state": [[None, 1, 2], 6]}},
]
ALPHA3 = ["a0", "a1", "a2", "r0", "r1", "r2", "t1", "tx", "t100"]
# destinations / looked-up addresses that NO device can be configured with (ids >= 100 in the op line; the model's lookup is
# total over all address ids): the broadcast address 0/0/0 (rejected by parse_device_group_address), never-used addresses
PROBES = {100: GroupAddress(0), 101: GroupAddress("5/5/5"), 102: InternalGroupAddress("i-nobody"), 103: GroupAddress(65534)}


def _addr(g):
    return PROBES[g] if g >= 100 else P.addr_obj(g)
# composite device: a Climate whose ClimateMode (pool member 0, the SAME object) is registered on its own as well
FIXEDC = [
    {"cls": "ClimateMode", "extra": 0, "ga": {"group_address_operation_mode": [[1], 0], "group_address_controller_status": [[2], 1]}},
    {"cls": "Climate", "extra": 0, "ga": {"group_address_temperature": [[0], 0], "group_address_target_temperature": [[0], 2]},
     "sub": {"mode": 0}},
    {"cls": "Switch", "extra": 0, "ga": {"group_address": [[2], 0]}},
]
ALPHAC = ["a0", "a1", "a2", "r0", "r1", "r2", "t1", "t2"]
COMPOSITES = P.composite_classes()


def _attach_subdevices(rng, specs, naddr, density):
    """give composite devices (Climate) a sub-device that is itself a pool member"""
    for i, sp in enumerate(list(specs)):
        for param, subcls in COMPOSITES.get(sp["cls"], {}).items():
            if rng.random() < 0.75:
                cand = [j for j, o in enumerate(specs) if o["cls"] == subcls and j != i]
                if not cand or rng.random() < 0.2:
                    specs.append(P.random_spec(rng, subcls, naddr, max(density, 0.4)))
                    cand = [len(specs) - 1]
                sp.setdefault("sub", {})[param] = rng.choice(cand)


def _case(specs, ops, naddr, tgv=0):
    return {"specs": specs, "ops": ops, "naddr": naddr, "tgv": tgv}


def generate(rng, tier):
    thorough = tier == "thorough"
    # 1. every history up to length L over the fixed 3-device pool (complete enumeration)
    L = 5 if thorough else 4
    for n in range(1, L + 1):
        for ops in itertools.product(ALPHA3, repeat=n):
            yield _case(FIXED3, list(ops), 3)
    for n in range(1, L + 1):
        for ops in itertools.product(ALPHAC, repeat=n):
            yield _case(FIXEDC, list(ops), 3)
    # 2. generated histories over pools covering every device class
    ncases = 600 if thorough else 150
    for k in range(ncases):
        naddr = rng.choice([2, 3, 5, 6, 8])
        if k % 3 == 0:
            names = list(CLASSES)                      # one of every class
            names += [rng.choice(CLASSES) for _ in range(rng.randint(0, 4))]
        else:
            n = rng.randint(8, 12)
            start = (k * 5) % len(CLASSES)
            names = [(CLASSES * 2)[start + i] for i in range(n)]
        rng.shuffle(names)
        density = rng.choice([0.15, 0.4, 0.8])
        specs = [P.random_spec(rng, c, naddr, density) for c in names]
        if k % 2 == 0 and not any(sp["cls"] in COMPOSITES for sp in specs):
            specs.append(P.random_spec(rng, rng.choice(sorted(COMPOSITES)), naddr, density))
        _attach_subdevices(rng, specs, naddr, density)
        nops = rng.choice([5, 20, 60, 200]) if k % 4 else 200
        ops = []
        reg = set()
        nd = len(specs)
        for _ in range(nops):
            r = rng.random()
            if r < 0.30:        # telegram
                r2 = rng.random()
                ops.append("tx" if r2 < 0.08 else f"t{rng.choice(sorted(PROBES))}" if r2 < 0.25 else f"t{rng.randrange(naddr)}")
            elif r < 0.62:      # well-formed add (unregistered) — incl. re-add of a removed device
                cand = [i for i in range(nd) if i not in reg]
                if cand:
                    i = rng.choice(cand); reg.add(i); ops.append(f"a{i}")
                else:
                    ops.append(f"a{rng.randrange(nd)}")
            elif r < 0.88:      # well-formed remove
                if reg:
                    i = rng.choice(sorted(reg)); reg.discard(i); ops.append(f"r{i}")
                else:
                    ops.append(f"r{rng.randrange(nd)}")
            else:               # malformed: double add / remove of unregistered
                i = rng.randrange(nd)
                if rng.random() < 0.5:
                    ops.append(f"a{i}"); reg.add(i)
                else:
                    ops.append(f"r{i}"); reg.discard(i)
        yield _case(specs, ops, naddr, rng.randrange(6))
    # 3. boundary: empty pool addresses, all devices on one address, add-all/remove-all/re-add-all in reverse
    for naddr in (1, 2):
        specs = [P.random_spec(rng, c, naddr, 0.9) for c in CLASSES]
        _attach_subdevices(rng, specs, naddr, 0.9)
        nd = len(specs)
        ops = [f"a{i}" for i in range(nd)] + ["t0"] + [f"r{i}" for i in range(0, nd, 2)] + ["t0"] + \
              [f"a{i}" for i in reversed(range(nd))] + ["t0", "tx"] + [f"r{i}" for i in range(nd)] + ["t0"] + \
              [f"r{i}" for i in range(nd)]
        yield _case(specs, ops, naddr, naddr)


def _telegram(dst_idx, variant, k):
    if dst_idx is None:
        dst = IndividualAddress("1.2.3")
    else:
        dst = _addr(dst_idx)            # a fresh, equal address object
    v = (variant + k) % 6
    payload = [GroupValueWrite(DPTBinary(1)), GroupValueRead(), GroupValueResponse(DPTArray((1,))),
               GroupValueWrite(DPTArray((1, 2))), GroupValueWrite(DPTBinary(0)), GroupValueResponse(DPTBinary(1))][v]
    direction = TelegramDirection.INCOMING if (variant + k) % 2 else TelegramDirection.OUTGOING
    return Telegram(destination_address=dst, payload=payload, direction=direction)


def _ids(lst):
    return ".".join(str(i) for i in lst) if lst else "-"


def run_impl(case):
    naddr = case["naddr"]
    xknx = XKNX()
    devs = P.build_pool(xknx, case["specs"])
    ident = {id(d): i for i, d in enumerate(devs)}
    amap = P.addr_index_map(len(P.ADDR_POOL))
    gas0 = [sorted(amap[a] for a in d.group_addresses()) for d in devs]
    calls = []

    def recorder(i):
        def rec(telegram):
            calls.append(i)
        return rec

    for i, d in enumerate(devs):
        d.process = recorder(i)            # Device has no __slots__: shadows the method for this instance
    reg = xknx.devices
    naive = []                             # only used to tell the two ValueErrors of remove apart
    gas_reg, changed = {}, []              # address set of a device when it was registered / devices whose set changed while registered
    toks = []
    scans = []                             # naive scans over the LIVE devices (has_group_address / group_addresses), per op

    def scan(g):
        a = _addr(g)
        return _ids([j for j in naive if devs[j].has_group_address(a)]) + "~" + _ids([j for j in naive if a in devs[j].group_addresses()])

    for k, op in enumerate(case["ops"]):
        if op[0] == "t":
            del calls[:]
            scans.append("-~-" if op == "tx" else scan(int(op[1:])))
            try:
                reg.process(_telegram(None if op == "tx" else int(op[1:]), case.get("tgv", 0), k))
                toks.append("c" + _ids(calls))
            except Exception as e:  # noqa: BLE001
                toks.append(f"cother:{type(e).__name__}")
            continue
        i = int(op[1:])
        d = devs[i]
        try:
            if op[0] == "a":
                reg.async_add(d)
                naive.append(i)
                gas_reg[i] = sorted(amap[a] for a in d.group_addresses())
            else:
                if i in naive and gas_reg.get(i) != sorted(amap[a] for a in d.group_addresses()):
                    changed.append(i)
                reg.async_remove(d)
                naive.remove(i)
            t = "ok"
        except ValueError:
            t = "Eregistered" if op[0] == "a" else ("Evalue" if i in naive else "Eunregistered")
        except KeyError:
            t = "Ekey"
        except Exception as e:  # noqa: BLE001
            t = f"other:{type(e).__name__}"
        state = _ids([ident.get(id(x), 999) for x in reg])
        def lookup(g):
            try:
                return _ids([ident.get(id(x), 999) for x in reg.devices_by_group_address(_addr(g))])
            except Exception as e:  # noqa: BLE001
                return f"!raise:{type(e).__name__}"

        by = ";".join(lookup(g) for g in range(naddr))
        extra = ""
        for g in PROBES:                   # addresses nobody can use: the lookup must be empty and must not raise
            lg = lookup(g)
            if lg != "-":
                extra += f"!lookup({PROBES[g]})={lg}"
        if len(reg) != len(list(reg)):
            extra += "!len"
        if any((devs[j] in reg) != (j in [ident.get(id(x)) for x in reg]) for j in range(len(devs))):
            extra += "!contains"
        idx = getattr(reg, "_Devices__index", None)     # the anchored state, if it still exists under that name
        if isinstance(idx, dict) and any(not v for v in idx.values()):
            extra += "!empty-index-entry"
        toks.append(f"{t}/{state}/{by}{extra}")
        scans.append(";".join(scan(g) for g in range(naddr)))
    changed += [i for i in naive if gas_reg.get(i) != sorted(amap[a] for a in devs[i].group_addresses())]
    pool = ";".join(f"{i}:{'.'.join(map(str, g)) if g else '-'}" for i, g in enumerate(gas0))
    main = ",".join(toks)
    out = main + " #" + ",".join(scans)
    if changed:
        out += " !addresses-changed:" + _ids(sorted(set(changed)))
    return {"out": out, "line": f"devs run {pool} {naddr} {','.join(case['ops'])}", "expect": main, "gas": gas0}


def oracle(case, out):
    """The property on the implementation's behaviour, against a naive scan — independent of the Lean model."""
    if not case["ops"]:
        return None
    specs = case["specs"]
    uses = [P.spec_addresses(s, specs) for s in specs]  # the addresses each device (incl. its sub-devices) was configured with
    naddr = case["naddr"]
    registered = []
    parts = out.split(" ")
    toks = parts[0].split(",")
    scans = parts[1][1:].split(",") if len(parts) > 1 and parts[1].startswith("#") else None
    if len(toks) != len(case["ops"]) or scans is None or len(scans) != len(toks):
        return "trace length differs from history length"
    for k, (op, tok, sc) in enumerate(zip(case["ops"], toks, scans)):
        where = f"op #{k} {op}"
        if op[0] == "t":
            exp = [] if op == "tx" else [d for d in registered if int(op[1:]) in uses[d]]
            live_has, live_gas = sc.split("~")
            if tok != "c" + live_has or tok != "c" + live_gas:
                return (f"{where}: telegram processed by devices [{tok[1:]}], naive scan of the registered devices says "
                        f"[{live_has}] (has_group_address) / [{live_gas}] (group_addresses)")
            if tok != "c" + _ids(exp):
                return f"{where}: telegram processed by devices [{tok[1:]}], naive scan of registered devices says [{_ids(exp)}]"
            continue
        i = int(op[1:])
        res, state, by = tok.split("/")
        if op[0] == "a":
            if i in registered:
                if res != "Eregistered":
                    return f"{where}: adding a registered device gave {res}, expected an error"
            else:
                if res != "ok":
                    return f"{where}: adding an unregistered device gave {res}"
                registered.append(i)
        else:
            if i in registered:
                if res != "ok":
                    return f"{where}: removing a registered device gave {res}"
                registered.remove(i)
            else:
                if res != "Eunregistered":
                    return f"{where}: removing an unregistered device gave {res}, expected an error"
        if "!" in by:
            return f"{where}: lookup raised / found devices for an address nobody uses, len()/in disagree with iteration, or an empty index entry remains ({by})"
        if state != _ids(registered):
            return f"{where}: registered devices are [{state}], expected [{_ids(registered)}] (an error must change nothing)"
        live = sc.split(";")
        for g, (b, l) in enumerate(zip(by.split(";"), live)):
            lh, lg = l.split("~")
            if b != lh or b != lg:
                return (f"{where}: devices_by_group_address({P.ADDR_POOL[g]}) = [{b}], naive scan of the registered devices = "
                        f"[{lh}] (has_group_address) / [{lg}] (group_addresses)")
        exp = ";".join(_ids([d for d in registered if g in uses[d]]) for g in range(naddr))
        if by != exp:
            return f"{where}: devices_by_group_address = {by}, naive scan in registration order = {exp}"
    if " !addresses-changed" in out:
        return ("group_addresses() of device(s) " + out.split("!addresses-changed:")[1] +
                " changed while registered (the registry index is built from it at registration)")
    return None


def nontrivial(case, out):
    toks = out.split(" ")[0].split(",")
    return any(t.startswith("ok/") for t in toks) and any(t.startswith("c") and t != "c-" for t in toks) and \
        (any(t.startswith("E") for t in toks) or any(o[0] == "r" for o in case["ops"]))


def outcome_class(out):
    toks = out.split(" ")[0].split(",")
    if any(t.startswith("other") for t in toks):
        return "unexpected-exception"
    e = sum(t.startswith("E") for t in toks)
    c = sum(t.startswith("c") and t != "c-" for t in toks)
    return f"errors={'0' if e == 0 else '1+'} dispatched={'0' if c == 0 else '1+'} len<={[5, 20, 60, 200][sum(len(toks) > b for b in (5, 20, 60))]}"


def finding_key(case, msg):
    return " ".join(case["ops"][:12])


def _kind(msg):
    return "addresses-changed" if "changed while registered" in msg else "dispatch"


def shrink(case, msg):
    def fails(c):
        try:
            r = run_impl(c)
            m = oracle(c, r["out"])
            return m is not None and _kind(m) == _kind(msg)
        except Exception:  # noqa: BLE001
            return False
    cur = dict(case)
    changed = True
    while changed and len(cur["ops"]) > 1:
        changed = False
        for i in reversed(range(len(cur["ops"]))):
            cand = dict(cur, ops=cur["ops"][:i] + cur["ops"][i + 1:])
            if cand["ops"] and fails(cand):
                cur = cand
                changed = True
    return cur
