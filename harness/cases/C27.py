"""C27 Routing honours busy flow control and the indication spacing (mode R, virtual time).

A real `Routing` object (real `_RoutingFlowControl`, real `UDPTransport.data_received_callback`, real
`send_cemi`) runs on `harness/vloop.py`.  Inputs are injected at generated virtual instants (microsecond
grid): RoutingBusy datagrams, `send_cemi` calls from 1-3 concurrent tasks.  Observed: the instant every
RoutingIndication reaches the datagram socket, every L_Data.con handed to `cemi_received_callback`, and two
probes that only serve to fix the order of events that happen at the same virtual instant (the moment the
`_ready` event is set; the busy counter / "timer restarted" outcome right after `handle_routing_busy`).
`random.random` returns the scripted extension factor of the latest busy frame.

The trace goes to the Lean monitor `XknxVerif.RoutingFlow.step?` (must accept) and to the oracle below, which
restates the property on the trace with its own small reference computation.
"""
from __future__ import annotations

import asyncio
import logging
import random as _random

from harness import vloop
from xknx import XKNX
from xknx.cemi import CEMIFrame, CEMILData, CEMIMessageCode
from xknx.io.routing import Routing
from xknx.knxip import KNXIPFrame, RoutingBusy, RoutingIndication
from xknx.telegram import GroupAddress, IndividualAddress, Telegram
from xknx.telegram.apci import GroupValueWrite
from xknx.dpt import DPTBinary

logging.getLogger("xknx").setLevel(logging.CRITICAL + 1)

PROPERTY = "C27"
EXHAUSTIVE = False
CASE_TIMEOUT = 10.0
RULE = ("generated schedules on a microsecond virtual clock: 0-8 RoutingBusy datagrams (wait 0..300 ms and 16-bit extremes, "
        "device state and routing-busy control field over zero / one / high-bit / all-ones values, "
        "bursts inside / at / outside the 10 ms cooldown, arrivals before / at / after the end of the running pause and at "
        "decrement instants) interleaved with 1-12 send_cemi calls from up to 3 concurrent tasks (same instant, inside the "
        "20 ms spacing, during a pause); scripted random extension r=k/1000. non-trivial = schedule with at least one busy "
        "frame and one send whose emission was delayed by a pause or by the spacing")
TRUSTED = [
    "model XknxVerif.Model.RoutingFlow hand-written; constants regenerated from xknx.io.routing each run",
    "harness/vloop.py virtual clock; the datagram socket is a recording stub below UDPTransport.send; XKNX() supplies no I/O",
    "two probes (asyncio.Event subclass logging set(); reading _received_busy_frames/_timer_task right after "
    "handle_routing_busy) order same-instant events; float time is quantised to integer microseconds",
]

# the values the KNX flow-control rules (and the property text) name; what the code declares is tied to them by
# the generated table + theorem `constants_match_spec`, so the oracle does not follow an edited constant
W_US = 20000      # ROUTING_INDICATION_WAIT_TIME
COOL_US = 10000   # BUSY_INCREMENT_COOLDOWN
DEC_US = 5000     # BUSY_DECREMENT_TIME
RAND_US = 50000   # BUSY_RANDOM_TIME_FACTOR
SLOW_US = 100000  # BUSY_SLOWDURATION_TIME_FACTOR
T0 = 1000.0


# --------------------------------------------------------------------------------------------------
# implementation runner
# --------------------------------------------------------------------------------------------------

class _Sock:
    """Stands in for the asyncio DatagramTransport below UDPTransport."""

    def __init__(self, rec):
        self.rec = rec

    def sendto(self, data, addr=None):
        self.rec(data)

    def close(self):
        pass

    def get_extra_info(self, _name):
        return ("192.168.1.1", 12345)


class _ProbeEvent(asyncio.Event):
    def __init__(self, log):
        super().__init__()
        self._log = log

    def set(self):
        if not self.is_set():
            self._log()
        super().set()


def _cemi(ident):
    tg = Telegram(destination_address=GroupAddress(ident + 1), payload=GroupValueWrite(DPTBinary(1)))
    return CEMIFrame(code=CEMIMessageCode.L_DATA_REQ,
                     data=CEMILData.init_from_telegram(tg, src_addr=IndividualAddress("1.1.1")))


_CONTROL_FIELDS = (0x0000, 0x0001, 0xFFFF, 0x8000, 0x0100, 0x0000, 0x00FF, 0x1234)
_DEVICE_STATES = (0x00, 0x01, 0x02, 0x03, 0xFF, 0x00, 0x80, 0x00)


def _busy_control(ev):
    """routing busy control field of a generated busy event (seed round 4: non-zero fields were never sent)"""
    return _CONTROL_FIELDS[(ev[0] // 7 + ev[2] + 3 * ev[3]) % len(_CONTROL_FIELDS)]


def _busy_state(ev):
    return _DEVICE_STATES[(ev[0] // 11 + 5 * ev[2] + ev[3]) % len(_DEVICE_STATES)]


def _run(events):
    """events: list of (t_us, kind, args...) sorted by time (stable). Returns (trace, escaped exceptions)."""
    trace, holder = [], []
    real_random = _random.random
    _random.random = lambda: holder[0][0]  # scripted extension factor: the r of the latest busy frame
    try:
        esc = vloop.run(lambda loop: _main_with_holder(loop, events, trace, holder), start=T0)
    finally:
        _random.random = real_random
    return trace, esc


async def _main_with_holder(loop, events, trace, holder):
    q0 = vloop.q(T0)

    def now():
        return vloop.q(loop.time()) - q0

    def on_cemi(raw):
        if raw[0] == CEMIMessageCode.L_DATA_CON.value:
            fr = CEMIFrame.from_knx(raw)
            trace.append(("con", now(), fr.data.dst_addr.raw - 1))
        else:
            trace.append(("rx", now()))

    xknx = XKNX()
    rt = Routing(xknx, individual_address=None, cemi_received_callback=on_cemi, local_ip="192.168.1.1")

    def on_sent(data):
        fr, _ = KNXIPFrame.from_knx(data)
        if isinstance(fr.body, RoutingIndication):
            c = CEMIFrame.from_knx(fr.body.raw_cemi)
            trace.append(("send", now(), c.data.dst_addr.raw - 1))
        else:
            trace.append(("other", now(), 0))

    rt.transport.transport = _Sock(on_sent)
    fc = rt._flow_control
    ev_probe = _ProbeEvent(lambda: trace.append(("ready", now())))
    ev_probe.set()
    trace.clear()
    fc._ready = ev_probe

    cur_r = [0.0]
    holder.clear()
    holder.append(cur_r)
    tasks = []
    escaped = []
    ind_raw = KNXIPFrame.init_from_body(RoutingIndication(raw_cemi=bytes.fromhex("2900bce011010001010081"))).to_knx()

    def inject(ev):
        kind = ev[1]
        if kind == "busy":
            _, _, w, k, _ = ev
            # the flow-control rules apply to every busy frame whatever its device state / routing busy control
            # field (03.08.05 §2.3.5: a device that does not interpret the control field pauses for any value);
            # both are derived from the event so that the event format and the replays stay as they are
            raw = KNXIPFrame.init_from_body(RoutingBusy(device_state=_busy_state(ev), wait_time=w,
                                                        control_field=_busy_control(ev))).to_knx()
            old = fc._timer_task
            try:
                rt.transport.data_received_callback(raw, ("192.168.1.2", 3671))
            except Exception as e:  # noqa: BLE001
                escaped.append(type(e).__name__)
            if fc._timer_task is not old:
                # the new timer task draws random.random() when it first runs (a later loop iteration):
                # script the draw per started timer, not per frame
                cur_r[0] = k / 1000.0
            trace.append(("busy", now(), w, k, fc._received_busy_frames, int(fc._timer_task is not old)))
        elif kind == "req":
            ident = ev[2]
            trace.append(("req", now(), ident))

            async def sender():
                try:
                    await rt.send_cemi(_cemi(ident))
                except Exception as e:  # noqa: BLE001
                    escaped.append(type(e).__name__)
            tasks.append(asyncio.create_task(sender()))
        elif kind == "ind":
            rt.transport.data_received_callback(ind_raw, ("192.168.1.2", 3671))

    # one timer per distinct instant keeps the generated order of same-instant inputs; `d` extra loop
    # iterations (call_soon hops) place an input between the callbacks the code itself runs at that instant
    def hop(ev, d):
        if d <= 0:
            inject(ev)
        else:
            loop.call_soon(hop, ev, d - 1)

    def group(evs):
        for ev in evs:
            hop(ev, ev[-1])

    groups = {}
    for ev in events:
        groups.setdefault(ev[0], []).append(ev)
    for t, evs in groups.items():
        loop.call_at(T0 + t / 1e6, group, evs)
    last = max((e[0] for e in events), default=0)
    await asyncio.sleep(last / 1e6 + 1e-7)
    await loop.settle()
    for _ in range(200):
        pend = [t for t in tasks if not t.done()]
        tt = fc._timer_task
        if not pend and (tt is None or tt.done()):
            break
        waitfor = pend + ([tt] if tt is not None and not tt.done() else [])
        await asyncio.wait(waitfor, timeout=100.0)
    await loop.settle()
    unfinished = sum(1 for t in tasks if not t.done())
    trace.append(("fin", now(), unfinished))
    fc.cancel()
    return escaped


# --------------------------------------------------------------------------------------------------
# reference computation (used by the generator to aim at boundaries, and by the oracle)
# --------------------------------------------------------------------------------------------------

class Ref:
    """Flow control per KNX 03.08.05 §2.3.5 as xknx implements it, on integer microseconds."""

    def __init__(self):
        self.paused_until = None   # end of the running pause
        self.wait_start = None
        self.wait_us = 0
        self.n = 0
        self.slow = 0
        self.dec_next = None
        self.last_busy = 0

    def _dec(self, t, strict=True):
        n, d = self.n, self.dec_next
        while d is not None and n > 0 and (d < t if strict else d <= t):
            n -= 1
            d = d + DEC_US if n > 0 else None
        return n, d

    def ready_at(self, t):
        """The pause ended at t."""
        self.n, self.dec_next = self._dec(t)
        self.paused_until = None
        self.wait_start = None
        self.dec_next = t + self.slow + DEC_US if self.n > 0 else None

    def busy(self, t, w, k):
        """Returns (set of admissible counter values, set of admissible applied flags)."""
        self.n, self.dec_next = self._dec(t)
        if self.wait_start is None:
            lo = self._dec(t, strict=False)[0]
            return set(range(lo, self.n + 1)), {1}
        gap = t - self.last_busy
        ns = {self.n + 1} if gap > COOL_US else ({self.n} if gap < COOL_US else {self.n, self.n + 1})
        rem = self.wait_us - (t - self.wait_start)
        ap = {0} if rem > w * 1000 else ({1} if rem < w * 1000 else {0, 1})
        return ns, ap

    def commit(self, t, w, k, n, applied):
        self.last_busy = t
        self.n = n
        if applied:
            self.wait_us = w * 1000
            self.wait_start = t
            self.paused_until = t + w * 1000 + (k * n * RAND_US) // 1000
            self.slow = n * SLOW_US
            self.dec_next = None


def oracle(case, out):
    tr = _parse_out(out)
    if tr is None:
        return f"unparsable outcome {out[:80]}"
    ref = Ref()
    paused = False
    pause_end = None
    last_send = None
    last_ready = 0
    reqs, sends, cons = {}, {}, {}
    for o in tr:
        kind, t = o[0], o[1]
        if kind == "exc":
            return f"exception {o[2]} escaped send_cemi / the datagram callback"
        if paused and pause_end is not None and t > pause_end:
            return f"pause set to end at {pause_end} us was not ended on time (next event at {t})"
        if kind == "busy":
            _, _, w, k, n, a = o
            ns, aps = ref.busy(t, w, k)
            if n not in ns or a not in aps:
                return (f"busy frame at {t} us (wait {w} ms): busy counter {n} / timer restarted {a}, flow-control rules give "
                        f"counter in {sorted(ns)}, restarted in {sorted(aps)}")
            ref.commit(t, w, k, n, a)
            paused = True
            if a:
                pause_end = ref.paused_until
        elif kind == "ready":
            if not paused or t != pause_end:
                return f"sending re-enabled at {t} us, the current pause ends at {pause_end}"
            paused = False
            last_ready = t
            ref.ready_at(t)
        elif kind == "req":
            if o[2] in reqs:
                return "harness: duplicate id"
            reqs[o[2]] = t
        elif kind == "send":
            i = o[2]
            if i not in reqs or i in sends:
                return f"routing indication {i} sent {'twice' if i in sends else 'without a request'}"
            if paused:
                return (f"routing indication sent at {t} us during the pause set by the busy frame "
                        f"(pause runs until {pause_end} us)")
            if last_send is not None and t - last_send < W_US:
                return f"routing indications at {last_send} us and {t} us are {t - last_send} us apart (< {W_US})"
            exp0 = max(reqs[i], last_send + W_US) if last_send is not None else reqs[i]
            if t != exp0 and t != max(exp0, last_ready):
                return (f"routing indication {i} (requested {reqs[i]} us) sent at {t} us; spacing allows {exp0} us, "
                        f"last pause ended {last_ready} us")
            sends[i] = t
            last_send = t
        elif kind == "con":
            i = o[2]
            if i not in sends or i in cons:
                return f"L_Data.con for {i} {'twice' if i in cons else 'before its routing indication'}"
            cons[i] = t
        elif kind == "fin":
            if o[2] != 0 or set(reqs) != set(sends) or set(sends) != set(cons):
                missing = sorted(set(reqs) - set(cons))
                return f"sends without exactly one confirmation / never sent: {missing} (unfinished tasks {o[2]})"
            if paused:
                return f"pause never ended (should end at {pause_end} us)"
        elif kind == "other":
            return "a frame other than a RoutingIndication was written"
    return None


# --------------------------------------------------------------------------------------------------
# canonical outcome / model line
# --------------------------------------------------------------------------------------------------

_CODE = {"busy": "b", "ready": "y", "req": "q", "send": "s", "con": "c", "rx": "x", "fin": "f", "other": "o", "exc": "e"}
_KIND = {v: k for k, v in _CODE.items()}


def _fmt(trace):
    return ";".join(",".join([_CODE[o[0]]] + [str(x) for x in o[1:]]) for o in trace)


def _parse_out(out):
    try:
        tr = []
        for tok in out.split(";"):
            f = tok.split(",")
            kind = _KIND[f[0]]
            tr.append((kind, int(f[1])) + tuple((x if kind == "exc" else int(x)) for x in f[2:]))
        return tr
    except Exception:  # noqa: BLE001
        return None


def run_impl(case):
    events = [tuple(e) for e in case["events"]]
    trace, esc = _run(events)
    if esc:
        trace = trace[:-1] + [("exc", trace[-1][1], e) for e in esc] + trace[-1:]
    out = _fmt(trace)
    return {"out": out, "line": "rfc monitor " + out, "expect": "accept"}


def nontrivial(case, out):
    tr = _parse_out(out) or []
    reqs = {o[2]: o[1] for o in tr if o[0] == "req"}
    delayed = any(o[0] == "send" and o[1] > reqs.get(o[2], o[1]) for o in tr)
    return delayed and any(o[0] == "busy" for o in tr)


def outcome_class(out):
    tr = _parse_out(out) or []
    nb = sum(1 for o in tr if o[0] == "busy")
    ns = sum(1 for o in tr if o[0] == "send")
    return f"busy{min(nb, 4)}{'+' if nb > 4 else ''}-send{min(ns, 4)}{'+' if ns > 4 else ''}"


def finding_key(case, msg):
    return "events " + " ".join(",".join(str(x) for x in e) for e in case["events"])


def shrink(case, msg):
    """Delta debugging on the event list: drop events while the oracle still reports a violation."""
    evs = [list(e) for e in case["events"]]

    kind = " ".join(msg.split()[:3])

    def fails(es):
        c = {"events": es}
        try:
            m = oracle(c, run_impl(c)["out"])
            return m is not None and " ".join(m.split()[:3]) == kind
        except Exception:  # noqa: BLE001
            return False
    changed = True
    while changed and len(evs) > 1:
        changed = False
        for i in range(len(evs)):
            cand = evs[:i] + evs[i + 1:]
            if fails(cand):
                evs, changed = cand, True
                break
    return {"events": evs, "shrunk_from": len(case["events"])}


# --------------------------------------------------------------------------------------------------
# generator
# --------------------------------------------------------------------------------------------------

WAITS = [0, 1, 5, 10, 19, 20, 21, 50, 100, 100, 100, 200, 300]
KS = [0, 1, 500, 999]
GAPS = [0, 1, COOL_US - 1, COOL_US, COOL_US + 1, DEC_US, W_US, 2 * COOL_US]


def _gen_case(rng, big):
    evs = []
    ref = Ref()
    nbusy = rng.choice([0, 1, 1, 2, 3, 4, 6, 8] if big else [0, 1, 1, 2, 3, 4])
    t = rng.choice([0, 0, 3000, rng.randrange(0, 50000)])
    marks = [0]        # interesting instants for sends
    pause_end = None
    for _ in range(nbusy):
        w = rng.choice(WAITS) if rng.random() < 0.97 else rng.choice([65535, 1000, 2])
        k = rng.choice(KS) if rng.random() < 0.7 else rng.randrange(1000)
        d = 0 if rng.random() < 0.8 else rng.randrange(1, 4)
        # process pause end in the reference if we passed it
        if pause_end is not None and t > pause_end:
            ref.ready_at(pause_end)
            pause_end = None
        ns, aps = ref.busy(t, w, k)
        n, a = max(ns), max(aps)
        ref.commit(t, w, k, n, a)
        if a:
            pause_end = ref.paused_until
        evs.append((t, "busy", w, k, d))
        marks += [t, pause_end, pause_end - 1, pause_end + 1, t + w * 1000]
        # next busy: inside / at / outside the cooldown, around the end of the pause, at decrement instants
        mode = rng.random()
        if mode < 0.45:
            t = t + rng.choice(GAPS)
        elif mode < 0.7:
            t = max(t, pause_end + rng.choice([-1, 0, 0, 1, -DEC_US, DEC_US]))
        elif mode < 0.85:
            j = rng.randrange(1, max(2, n + 2))
            t = max(t, pause_end + n * SLOW_US + j * DEC_US + rng.choice([-1, 0, 0, 1]))
        else:
            t = t + rng.randrange(0, 150000)
    nsend = rng.randrange(1, 13 if big else 8)
    ident = 0
    while ident < nsend:
        base = rng.choice(marks)
        off = rng.choice([0, 0, 0, 1, -1, 5000, W_US, W_US - 1, W_US + 1, 2 * W_US, rng.randrange(0, 60000)])
        ts = max(0, base + off)
        burst = rng.choice([1, 1, 2, 3])
        for _ in range(burst):
            if ident >= nsend:
                break
            d = 0 if rng.random() < 0.8 else rng.randrange(1, 4)
            evs.append((ts, "req", ident, d))
            ident += 1
        marks += [ts + W_US, ts + 2 * W_US]
    if rng.random() < 0.2:
        evs.append((max(0, rng.choice(marks)), "ind", 0))
    evs.sort(key=lambda e: e[0])   # stable: same-instant inputs keep generation order
    return {"events": [list(e) for e in evs]}


def generate(rng, tier):
    # the three-concurrent-senders schedule of DESIGN §4 and its after-pause variant always run
    yield {"events": [[0, "req", 0, 0], [0, "req", 1, 0], [0, "req", 2, 0]]}
    yield {"events": [[0, "busy", 100, 500, 0], [5000, "req", 0, 0], [5000, "req", 1, 0], [5000, "req", 2, 0]]}
    n = 1500 if tier == "quick" else 30000
    for _ in range(n):
        yield _gen_case(rng, tier != "quick" or rng.random() < 0.3)
