"""C20 KNX/IP frame parsing terminates and fails only with declared errors (mode F + oracle under timer/memory cap)."""
from xknx.knxip import KNXIPFrame
from xknx.knxip import knxip_enum as E
from xknx.knxip.error_code import ErrorCode

from harness import knxip_lib as L

PROPERTY = "C20"
CASE_TIMEOUT = 1.0
HANG_IS_VIOLATION = True
EXHAUSTIVE = False
RULE = ("per body class: frames serialised from structure-aware random bodies (repo enums), their truncations at every "
        "octet, structure-length octets rewritten from a boundary dictionary (0,1,2,3,odd,len+-1,255), enum code octets "
        "rewritten to non-members, appended garbage; per service type: valid header + random / empty / DIB- and SRP-shaped "
        "bodies with boundary lengths; header sweep (total length 0..8, wrong version, unknown/unimplemented service types); "
        "fully random strings; a few multi-kilobyte DIB/SRP lists. Every call of KNXIPFrame.from_knx runs under a 1 s timer "
        "and a 3 GiB address-space cap. non-trivial = distinct inputs whose outcome is not a header-level rejection")
TRUSTED = ["models XknxVerif.Model.KNXIP.* hand-written; enum members and structure-length constants regenerated from the imported modules each run",
           "socket.inet_ntoa/inet_aton, int.from_bytes, bytes.decode('latin_1') as modelled in Model/KNXIP/Basic.lean"]

LEN_DICT = [0, 1, 2, 3, 4, 5, 6, 7, 8, 9, 10, 53, 54, 55, 56, 127, 128, 252, 253, 254, 255]


def op(d: bytes, **kw):
    c = {"op": "c20 parse " + L.hx(d)}
    c.update(kw)
    return c


def header(st: int, total: int) -> bytes:
    return bytes([6, 0x10, st >> 8, st & 0xFF, (total >> 8) & 0xFF, total & 0xFF])


def frame_with_body(st: int, body: bytes) -> bytes:
    return header(st, 6 + len(body)) + body


def all_service_codes():
    return [m.value for m in E.KNXIPServiceType]


def dib_like(rng):
    ln = rng.choice(LEN_DICT + [rng.randrange(256)])
    ty = rng.choice([m.value for m in E.DIBTypeCode] * 3 + [0, 9, 0x55, 0xFF, rng.randrange(256)])
    n = rng.choice([ln - 2, ln - 2, ln - 2, ln - 1, ln - 3, ln, rng.randrange(60)])
    payload = bytearray(rng.randrange(256) for _ in range(max(0, n)))
    if ty in (2, 6) and rng.random() < 0.7:
        for i in range(0, len(payload), 2):
            payload[i] = rng.choice([m.value for m in E.DIBServiceFamily] * 4 + [0, 0x77])
    if ty == 1 and len(payload) > 0 and rng.random() < 0.8:
        payload[0] = rng.choice([m.value for m in E.KNXMedium] * 4 + [0, 3])
    return bytes([ln, ty]) + bytes(payload)


def srp_like(rng):
    ty = rng.choice([0, 1, 2, 3, 4, 4, 3, 2, 5, 7, 0x7F, rng.randrange(128)]) | (0x80 if rng.random() < 0.5 else 0)
    n = rng.choice([0, 0, 1, 2, 2, 3, 6, 6, 7, rng.randrange(20)])
    ln = rng.choice([n + 2, n + 2, n + 2, 0, 1, 2, n + 1, n + 3, 255])
    return bytes([ln, ty]) + bytes(rng.randrange(256) for _ in range(n))


HPAI_OK = bytes.fromhex("0801c0a802010e57")


def mutate(rng, d: bytes):
    """Yield malformed variants of a well-formed frame."""
    b = bytearray(d)
    n = len(b)
    k = rng.randrange(7)
    if k == 0 and n > 6:      # rewrite an octet that looks like a structure length
        cands = [i for i in range(6, n) if b[i] in (2, 4, 6, 8, 54) or b[i] == n - i] or list(range(6, n))
        i = rng.choice(cands)
        b[i] = rng.choice(LEN_DICT)
    elif k == 1 and n > 6:    # any body octet -> boundary / non-member code
        i = rng.randrange(6, n)
        b[i] = rng.choice([0, 1, 3, 5, 9, 0x0A, 0x10, 0x55, 0x7F, 0x80, 0xFE, 0xFF])
    elif k == 2:              # truncate, header length rewritten to match
        cut = rng.randrange(6, n + 1)
        b = b[:cut]
        b[4:6] = cut.to_bytes(2, "big")
    elif k == 3:              # truncate, header length kept (incomplete)
        b = b[:rng.randrange(0, n)]
    elif k == 4:              # append garbage inside the frame
        extra = bytes(rng.randrange(256) for _ in range(rng.choice([1, 2, 3, 8])))
        b = b + extra
        b[4:6] = len(b).to_bytes(2, "big")
    elif k == 5:              # append garbage after the frame
        b = b + bytes(rng.randrange(256) for _ in range(rng.choice([1, 2, 6, 9])))
    else:                     # header total length inconsistent
        b[4:6] = rng.choice([0, 1, 5, 6, 7, n - 1, n + 1, 0xFFFF]).to_bytes(2, "big")
    return bytes(b)


def generate(rng, tier):
    quick = tier == "quick"
    # --- header sweep --------------------------------------------------------
    for total in list(range(0, 10)) + [0xFFFF]:
        for extra in (b"", b"\xaa\xbb", bytes(8)):
            yield op(header(0x0530, total) + extra, src="hdr")
            yield op(header(0x0204, total) + extra, src="hdr")
    for v in (0x00, 0x0F, 0x11, 0x20, 0xFF):
        yield op(bytes([6, v, 5, 0x30, 0, 6]), src="hdr")
    for b0 in (0, 5, 7, 8, 0xFF):
        yield op(bytes([b0, 0x10, 5, 0x30, 0, 6]), src="hdr")
    for st in sorted(set(all_service_codes() + [0, 0x0200, 0x020D, 0x0426, 0x0534, 0x0956, 0xFFFF])):
        yield op(frame_with_body(st, b""), src="hdr")
        yield op(frame_with_body(st, b"\x04"), src="hdr")
    yield op(b"", src="hdr")
    for n in range(1, 6):
        yield op(bytes.fromhex("061005300006")[:n], src="hdr")
    # --- well-formed frames of every class, every truncation, mutations ------
    reps = 6 if quick else 150
    for cls in L.BODY_CLASSES:
        for i in range(reps):
            spec = L.gen_spec(rng, cls)
            d = L.frame_bytes(spec)
            yield op(d, src="wf", cls=cls)
            if len(d) <= (120 if quick else 400) and i < (2 if quick else 6):
                for cut in range(6, len(d)):       # body truncated at every octet, header length adjusted
                    t = bytearray(d[:cut])
                    t[4:6] = cut.to_bytes(2, "big")
                    yield op(bytes(t), src="trunc", cls=cls)
            for _ in range(6 if quick else 20):
                yield op(mutate(rng, d), src="mut", cls=cls)
    # --- per service type: random and structure-shaped bodies ----------------
    for st in all_service_codes():
        for _ in range(12 if quick else 500):
            n = rng.choice([0, 1, 2, 3, 4, 5, 6, 7, 8, 9, 10, 18, 30, 34, 40, 50, rng.randrange(70)])
            body = bytearray(rng.randrange(256) for _ in range(n))
            if n and rng.random() < 0.7:
                body[0] = rng.choice([n, 4, 6, 8, n - 1, n + 1, 0]) & 0xFF
            if n > 1 and rng.random() < 0.5:
                body[1] = rng.choice([0, 1, 2, 3, 4] + [m.value for m in ErrorCode])
            yield op(frame_with_body(st, bytes(body)), src="rand-body")
    # --- DIB / SRP lists -----------------------------------------------------
    for _ in range(400 if quick else 40000):
        kind = rng.choice(["desc", "search", "searchx", "srp"])
        if kind == "srp":
            body = HPAI_OK + b"".join(srp_like(rng) for _ in range(rng.choice([0, 1, 1, 2, 3])))
            st = 0x020B
        else:
            body = (b"" if kind == "desc" else HPAI_OK) + b"".join(dib_like(rng) for _ in range(rng.choice([0, 1, 1, 2, 3, 4])))
            st = {"desc": 0x0204, "search": 0x0202, "searchx": 0x020C}[kind]
        yield op(frame_with_body(st, body), src="lists")
    # zero-length structures at every position of a short list
    for st, pre in ((0x0204, b""), (0x0202, HPAI_OK), (0x020C, HPAI_OK)):
        for ty in [m.value for m in E.DIBTypeCode] + [0, 0x55]:
            for ln in (0, 1, 2, 3, 4):
                yield op(frame_with_body(st, pre + bytes([ln, ty])), src="lists")
                yield op(frame_with_body(st, pre + bytes([ln, ty, 0, 0])), src="lists")
                yield op(frame_with_body(st, pre + bytes.fromhex("0402020104020301") + bytes([ln, ty, 0, 0])), src="lists")
    # --- large inputs (time/memory bounded by the input length) --------------
    for n in ([500] if quick else [500, 2000, 4000]):
        yield op(frame_with_body(0x0204, bytes([2, 3]) * n), src="big")
        yield op(frame_with_body(0x020B, HPAI_OK + bytes([2, 0x81]) * n), src="big")
        yield op(frame_with_body(0x0204, bytes([4, 2, 2, 1]) * n), src="big")
        yield op(frame_with_body(0x0530, bytes(range(256)) * (n // 64)), src="big")
    # --- fully random --------------------------------------------------------
    for _ in range(600 if quick else 120000):
        n = rng.choice([0, 1, 5, 6, 7, 8, 10, 14, 20, rng.randrange(48)])
        d = bytearray(rng.randrange(256) for _ in range(n))
        r = rng.random()
        if n >= 6 and r < 0.6:
            d[0], d[1] = 6, 0x10
            st = rng.choice(all_service_codes())
            d[2], d[3] = st >> 8, st & 0xFF
            if r < 0.4:
                d[4:6] = n.to_bytes(2, "big")
        yield op(bytes(d), src="random")


def complete(d: bytes) -> bytes:
    """The extension the oracle tries for an 'incomplete' verdict: pad to a header, then to its announced length."""
    if len(d) < 6:
        d = d + bytes(6 - len(d))
    total = d[4] * 256 + d[5]
    if len(d) < total:
        d = d + bytes(total - len(d))
    return d


def parse_outcome(d: bytes) -> str:
    r, err = L.guarded(lambda: KNXIPFrame.from_knx(d))
    if err:
        return err
    frame, rest = r
    return f"ok {L.render_frame(frame)} rest={len(rest)}|{L.hx(rest[:8])}|{type(rest).__name__}"


def run_impl(case):
    t = case["op"].split()
    d = bytes.fromhex(t[2]) if t[2] != "-" else b""
    out = parse_outcome(d)
    expect = out.split("|")[0]
    if out == "err incomplete":
        out += " completes=" + parse_outcome(complete(d)).split(" ")[1]
    return {"out": out, "expect": expect}


def oracle(case, out):
    t = case["op"].split()
    d = bytes.fromhex(t[2]) if t[2] != "-" else b""
    if out.startswith("err other:"):
        return f"KNXIPFrame.from_knx raised {out[10:]} (neither CouldNotParseKNXIP nor IncompleteKNXIPFrame)"
    if out.startswith("err incomplete"):
        if out.endswith("completes=incomplete"):
            return "'incomplete frame' reported, but the input padded to its announced length is still incomplete"
        if len(d) >= 6 and len(d) >= d[4] * 256 + d[5]:
            return "'incomplete frame' reported although the announced length is available"
        return None
    if out.startswith("ok "):
        head, resthex, restty = out.split("|")
        f = head.split(" ")
        total, restlen = int(f[2]), int(f[-1].split("=")[1])
        announced = d[4] * 256 + d[5] if len(d) >= 6 else -1
        if total != announced:
            return f"frame header says total_length={total}, the input announces {announced}"
        if total < 6:
            return f"a frame with announced total length {total} < 6 was accepted"
        if restlen != len(d) - total or L.hx(d[total:total + 8]) != resthex:
            return f"consumed {len(d) - restlen} octets, header announced {total}"
        if restty != "bytes":
            return f"rest is {restty}"
    return None


def nontrivial(case, out):
    return case.get("src") != "hdr" and not (out.startswith("err") and len(case["op"]) < 24)


def outcome_class(out):
    if out.startswith("ok"):
        return "ok " + out.split(" ")[3].split(":")[0]
    return out.split(" completes")[0]


def finding_key(case, msg):
    return case["op"]


def shrink(case, msg):
    """Greedy: drop trailing octets / zero octets while the same class of violation persists (under the timer)."""
    from harness.framework import CaseTimeout, with_timeout

    def bad(d):
        c = {"op": "c20 parse " + L.hx(d)}
        try:
            r = with_timeout(lambda: run_impl(c), CASE_TIMEOUT)
        except CaseTimeout:
            return "timeout" in msg or "did not return" in msg
        m = oracle(c, r["out"])
        return bool(m) and m.split(" ")[0:3] == msg.split(" ")[0:3]

    t = case["op"].split()
    d = bytes.fromhex(t[2]) if t[2] != "-" else b""
    changed = True
    while changed and len(d) > 0:
        changed = False
        for cand in (d[:-1], d[:len(d) // 2 + 3]):
            if len(cand) < len(d) and len(cand) >= 6:
                c2 = bytearray(cand)
                c2[4:6] = len(c2).to_bytes(2, "big")
                for cc in (bytes(c2), bytes(cand)):
                    if bad(cc):
                        d, changed = cc, True
                        break
            if changed:
                break
    out = dict(case)
    out["op"] = "c20 parse " + L.hx(d)
    return out
